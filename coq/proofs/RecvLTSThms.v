(* Property-level theorems of the receiver LTS (C01, C03, C05), from the invariants of RecvLTSProofs / RecvLTSFlow. *)
From Coq Require Import List Arith Bool Lia Permutation.
Import ListNotations.
From TQ Require Import RecvLTS RecvLTSProofs RecvLTSFlow.

Record Inv (c : cfg) (s : st) : Prop := mkInv {
  i_slots : InvSlots c s; i_q : InvQ c s; i_flow : InvFlow s; i_live : InvLive s; i_pc : InvPc c s;
  i_shape : InvShape s; i_stop : InvStop s; i_n : InvN c s; i_ret : InvRet c s }.

Lemma init_inv c : Inv c (init c).
Proof.
  constructor.
  - apply init_slots.
  - apply init_q.
  - unfold InvFlow, init; simpl. repeat split; auto. constructor.
  - unfold InvLive, init; simpl. split; [constructor | apply incl_refl].
  - unfold InvPc, init; simpl. split; [exact I | discriminate].
  - unfold InvShape, init; simpl. reflexivity.
  - unfold InvStop, init; simpl. reflexivity.
  - unfold InvN, init; simpl. split; [destruct (cN c) as [[|n]|]; auto; split; [lia | discriminate] | split; discriminate].
  - unfold InvRet, init; simpl. split; discriminate.
Qed.

Lemma gstep_inv d c s e s' : Inv c s -> gstep d c s e = Some s' -> Inv c s'.
Proof.
  intros [] Hs. constructor;
    eauto using gstep_slots, gstep_q, gstep_flow, gstep_live, gstep_pc, gstep_shape, gstep_stop, gstep_n, gstep_ret.
Qed.

Lemma reach_inv d c tr s : grun d c (init c) tr = Some s -> Inv c s.
Proof. apply (grun_inv d c (Inv c)); [apply gstep_inv | apply init_inv]. Qed.

Lemma reach_fix c tr s : run c (init c) tr = Some s -> InvFix c s.
Proof.
  intros H. cut (Inv c s /\ InvFix c s); [tauto|]. revert H.
  apply (grun_inv false c (fun s => Inv c s /\ InvFix c s)).
  - intros s0 e s1 [Hi Hf] Hs. split; [eapply gstep_inv; eauto | eapply step_fix; eauto using i_pc].
  - split; [apply init_inv|]. unfold InvFix, init; simpl. repeat split; auto.
    unfold reachedN. destruct (cN c) as [n|]; [|discriminate]. destruct n; simpl; discriminate.
Qed.

(* ================================================================== C03 *)
Lemma limit_of_slots c a s : cA c = Some a -> 0 < a -> InvSlots c s -> busy s <= a.
Proof.
  intros Ha Hp H. specialize (H (limited_pos _ _ Ha Hp)). unfold slots in H. rewrite Ha in H. lia.
Qed.

Lemma rev_prefix_flow s : InvFlow s -> exists rest, rev (taken s) = rev (started s) ++ rest.
Proof. intros (F1 & _). eexists. exact F1. Qed.

Lemma NoDup_rev_iff (l : list nat) : NoDup (rev l) <-> NoDup l.
Proof.
  split; intros H.
  - rewrite <- (rev_involutive l). apply NoDup_rev. exact H.
  - apply NoDup_rev. exact H.
Qed.

Lemma nodup_app_l (l m : list nat) : NoDup (l ++ m) -> NoDup l.
Proof.
  induction l as [|x t IH]; simpl; intros H; [constructor|]. inversion H; subst. constructor.
  - intro Hx. apply H2. apply in_or_app. left. exact Hx.
  - apply IH. exact H3.
Qed.

Lemma started_nodup s : InvFlow s -> NoDup (started s) /\ incl (started s) (taken s).
Proof.
  intros (F1 & F2 & _). split.
  - apply NoDup_rev_iff in F2. rewrite F1 in F2. apply nodup_app_l in F2. apply NoDup_rev_iff. exact F2.
  - intros x Hx. apply in_rev. rewrite F1. apply in_or_app. left. apply in_rev in Hx. exact Hx.
Qed.

(* A = 1: a message is started only when no other callback task exists, and every earlier one has finished *)
Lemma serial_start c s id s' :
  cA c = Some 1 -> Inv c s -> step c s (ERnGet (IMsg id)) = Some s' ->
  busy s = 0 /\ Permutation (started s) (finished s).
Proof.
  intros Ha Hi Hs. pose proof (i_slots _ _ Hi (limited_pos _ _ Ha ltac:(lia))) as H. unfold slots in H. rewrite Ha in H.
  unfold step, gstep in Hs. destruct (rn s) eqn:Er; try discriminate. cbn [holds_slot] in H.
  assert (Hb : busy s = 0) by lia. split; [exact Hb|].
  destruct (i_live _ _ Hi) as [L _]. unfold busy in Hb. destruct (live s); [exact L | simpl in Hb; lia].
Qed.

(* ---- enabledness: in every reachable state some prefetcher / runner step is enabled, or the system waits
        for the environment in one of three ways *)
Definition blocked (c : cfg) (s : st) : Prop :=
  (rn s = RNAcq /\ limited c = true /\ sem s = 0 /\ busy s = slots c /\ (pf s = PFDone \/ (pf s = PFAcq /\ semp s = 0)))
  \/ (pf s = PFDone /\ rn s = RNWait /\ live s <> [])
  \/ (pf s = PFDone /\ rn s = RNDone).

Ltac enabled ev := left; exists ev; eexists; split; [reflexivity | unfold step, gstep].

Lemma enabled_or_blocked c s : Inv c s ->
  (exists e s', internal e = true /\ step c s e = Some s') \/ blocked c s.
Proof.
  intros Hi. pose proof (i_slots _ _ Hi) as HS. pose proof (i_q _ _ Hi) as HQ. pose proof (i_pc _ _ Hi) as [HP _].
  pose proof (i_shape _ _ Hi) as HSh. unfold InvSlots, InvQ, InvShape in *.
  assert (RA : rn s = RNAcq -> (exists e s', internal e = true /\ step c s e = Some s') \/
                               (limited c = true /\ sem s = 0 /\ busy s = slots c)).
  { intros Er. destruct (limited c) eqn:L.
    - destruct (sem s) eqn:Es.
      + right. specialize (HS eq_refl). rewrite Er in HS. simpl in HS. repeat split; auto; lia.
      + enabled ERnAcquire. rewrite Er, L, Es. reflexivity.
    - enabled ERnAcquire. rewrite Er, L. reflexivity. }
  destruct (pf s) eqn:Ep.
  - destruct (fin s) eqn:Ef; [enabled (EPfCheck true) | enabled (EPfCheck false)]; rewrite Ep, Ef; reflexivity.
  - destruct (semp s) eqn:Esp.
    + destruct (rn s) eqn:Er; try tauto.
      * destruct (RA eq_refl) as [H|(H1 & H2 & H3)]; [left; exact H|].
        right. left. repeat split; auto.
      * cbn [holds_permit holds_slot] in HQ. destruct (queue s) as [|[id|] q] eqn:Eq.
        -- unfold nmsgs in HQ. simpl in HQ. lia.
        -- enabled (ERnGet (IMsg id)). rewrite Er, Eq, Nat.eqb_refl. reflexivity.
        -- simpl in HSh. discriminate.
    + destruct (reachedN c (fetched s)) eqn:Ern; enabled EPfAcquire; rewrite Ep, Esp, Ern; reflexivity.
  - destruct (look s) eqn:El; try tauto.
    + enabled EPfTimeout. rewrite Ep, El. reflexivity.
    + enabled (EPfGot id (negb (reachedN c (S (fetched s))))). rewrite Ep, El, Nat.eqb_refl. cbn [orb andb].
      rewrite eqb_reflx. reflexivity.
    + enabled EPfExhausted. rewrite Ep, El. reflexivity.
  - enabled EPfExit. rewrite Ep. reflexivity.
  - destruct (rn s) eqn:Er.
    + destruct (RA eq_refl) as [H|(H1 & H2 & H3)]; [left; exact H|]. right. left. repeat split; auto.
    + destruct (queue s) as [|[id|] q] eqn:Eq.
      * simpl in HSh. discriminate.
      * enabled (ERnGet (IMsg id)). rewrite Er, Eq, Nat.eqb_refl. reflexivity.
      * enabled (ERnGet IDone). rewrite Er, Eq. reflexivity.
    + destruct (live s) eqn:El.
      * enabled (ERnWaited AllDone). rewrite Er, El. reflexivity.
      * right. right. left. repeat split; auto. rewrite El. discriminate.
    + right. right. right. split; assumption.
Qed.

Lemma C03_check_spec c a s : cA c = Some a -> 0 < a ->
  (C03_check c s = true <-> busy s <= a /\ sem s + busy s + holds_slot (rn s) = a).
Proof.
  unfold C03_check. intros -> Hp. destruct a; [lia|]. rewrite andb_true_iff, Nat.leb_le, Nat.eqb_eq. reflexivity.
Qed.

Lemma C03_scan_true c tr : run c (init c) tr <> None -> scan c (C03_check c) (init c) tr = true.
Proof.
  intros Hr. apply (scan_all c (C03_check c) (fun _ _ _ _ _ => I) (InvSlots c)); auto.
  - intros s H. unfold C03_check. destruct (cA c) as [[|a]|] eqn:Ha; auto.
    specialize (H (limited_pos _ _ Ha ltac:(lia))). unfold slots in H. rewrite Ha in H.
    apply andb_true_iff. split; [apply Nat.leb_le | apply Nat.eqb_eq]; lia.
  - intros. eapply gstep_slots; eauto.
  - apply init_slots.
Qed.
