(* C09: dictionary-level round trip, delivery after k retries / requeues. *)
From Coq Require Import ZArith NArith List Bool Lia.
From TQ Require Import Base64 Labels LabelsCodecProofs.
Import ListNotations.
Open Scope N_scope.

(* ---------------------------------------------------------------- dict lemmas *)
Lemma dget_app_notin {A} : forall k (d1 d2 : dict A), ~ In k (keys d1) -> dget k (d1 ++ d2) = dget k d2.
Proof.
  induction d1 as [|[k' v'] d1 IH]; intros d2 H; [reflexivity|].
  cbn in *. destruct (k =? k') eqn:E.
  - apply N.eqb_eq in E. subst. tauto.
  - apply IH. tauto.
Qed.

Lemma dset_app_notin {A} : forall k (v : A) (d1 d2 : dict A), ~ In k (keys d1) ->
  dset k v (d1 ++ d2) = d1 ++ dset k v d2.
Proof.
  induction d1 as [|[k' v'] d1 IH]; intros d2 H; [reflexivity|].
  cbn in *. destruct (k =? k') eqn:E.
  - apply N.eqb_eq in E. subst. tauto.
  - f_equal. apply IH. tauto.
Qed.

Lemma dget_dset_same {A} : forall k (v : A) d, dget k (dset k v d) = Some v.
Proof.
  induction d as [|[k' v'] d IH]; cbn.
  - now rewrite N.eqb_refl.
  - destruct (k =? k') eqn:E; cbn; rewrite E; auto.
Qed.

Lemma dget_dset_other {A} : forall k k' (v : A) d, k <> k' -> dget k (dset k' v d) = dget k d.
Proof.
  intros k k' v d H. induction d as [|[k2 v2] d IH]; cbn.
  - apply N.eqb_neq in H. now rewrite H.
  - destruct (k' =? k2) eqn:E; cbn; [|now rewrite IH].
    apply N.eqb_eq in E. subst k2. apply N.eqb_neq in H. now rewrite H.
Qed.

Lemma NoDup_snoc {A} : forall (l : list A) x, NoDup l -> ~ In x l -> NoDup (l ++ [x]).
Proof.
  induction l as [|y l IH]; intros x H1 H2; cbn.
  - constructor; [tauto|constructor].
  - inversion H1; subst. constructor.
    + rewrite in_app_iff. cbn in *. intuition.
    + apply IH; cbn in *; tauto.
Qed.

Lemma keys_dset_in {A} : forall k (v : A) d, In k (keys d) -> keys (dset k v d) = keys d.
Proof.
  induction d as [|[k' v'] d IH]; cbn; intro H; [tauto|].
  destruct (k =? k') eqn:E; cbn; [reflexivity|].
  f_equal. apply IH. destruct H as [H|H]; [|exact H]. subst. now rewrite N.eqb_refl in E.
Qed.

Lemma keys_dset_notin {A} : forall k (v : A) d, ~ In k (keys d) -> keys (dset k v d) = keys d ++ [k].
Proof.
  induction d as [|[k' v'] d IH]; cbn; intro H; [reflexivity|].
  destruct (k =? k') eqn:E; cbn.
  - apply N.eqb_eq in E. subst. tauto.
  - f_equal. apply IH. tauto.
Qed.

Lemma NoDup_dset {A} : forall k (v : A) d, NoDup (keys d) -> NoDup (keys (dset k v d)).
Proof.
  intros k v d H. destruct (in_dec N.eq_dec k (keys d)) as [I|I].
  - now rewrite keys_dset_in.
  - rewrite keys_dset_notin by assumption. apply NoDup_snoc; assumption.
Qed.

(* ---------------------------------------------------------------- parse_labels (prepare_labels d) *)
Definition received (L : dict lval) : Prop := Forall (fun kv => primitive (snd kv)) L.

Lemma norm_dict_received : forall L, received L -> norm_dict L = L.
Proof.
  induction 1 as [|[k v] L H _ IH]; [reflexivity|]. unfold norm_dict in *. cbn [map]. rewrite IH.
  destruct v; cbn in *; try reflexivity. destruct H.
Qed.

Lemma received_norm_dict : forall d, received (norm_dict d).
Proof. induction d as [|[k v] d IH]; constructor; [destruct v; exact I|exact IH]. Qed.

Lemma received_dset : forall k v L, primitive v -> received L -> received (dset k v L).
Proof.
  intros k v L Hv. induction 1 as [|[k' v'] L H HL IH]; cbn.
  - repeat constructor. exact Hv.
  - destruct (k =? k'); constructor; auto.
Qed.

Lemma keys_norm_dict : forall d, keys (norm_dict d) = keys d.
Proof. intro d. unfold keys, norm_dict. rewrite map_map. reflexivity. Qed.

Section Delivery.
  Variable sof : Z -> pstr.
  Variable fos : pstr -> option Z.
  Hypothesis float_roundtrip : forall f, fos (sof f) = Some f.

  Let rawd (d : dict lval) : dict pstr := map (fun kv => (fst kv, fst (prepare_label sof (snd kv)))) d.
  Let typd (d : dict lval) : dict N := map (fun kv => (fst kv, snd (prepare_label sof (snd kv)))) d.
  Let lstr (r : dict pstr) : dict lval := map (fun kv => (fst kv, LStr (snd kv))) r.

  Lemma keys_lstr_rawd : forall d, keys (lstr (rawd d)) = keys d.
  Proof. intro d. unfold keys, lstr, rawd. rewrite !map_map. reflexivity. Qed.

  Lemma parse_loop_roundtrip : forall d2 d1, NoDup (keys (d1 ++ d2)) ->
    parse_loop fos (typd d2) (rawd (d1 ++ d2)) (norm_dict d1 ++ lstr (rawd d2)) = Some (norm_dict (d1 ++ d2)).
  Proof.
    induction d2 as [|[k v] d2 IH]; intros d1 ND.
    - cbn. now rewrite !app_nil_r.
    - assert (Hk : ~ In k (keys d1)).
      { unfold keys in ND. rewrite map_app in ND. apply NoDup_remove_2 in ND.
        intro I. apply ND. apply in_or_app. now left. }
      cbn [typd map fst snd parse_loop].
      unfold rawd at 1. rewrite map_app. fold (rawd d1).
      rewrite dget_app_notin by (unfold keys, rawd in *; rewrite map_map; exact Hk).
      cbn [map fst snd dget]. rewrite N.eqb_refl.
      rewrite (codec_norm sof fos float_roundtrip).
      cbn [rawd lstr map fst snd].
      rewrite dset_app_notin by (rewrite keys_norm_dict; exact Hk).
      cbn [dset]. rewrite N.eqb_refl.
      specialize (IH (d1 ++ [(k, v)])). rewrite <- app_assoc in IH. cbn [app] in IH.
      specialize (IH ND). unfold norm_dict at 1 in IH. rewrite map_app in IH.
      cbn [map fst snd] in IH. rewrite <- app_assoc in IH. cbn [app] in IH.
      exact IH.
  Qed.

  Theorem labels_roundtrip : forall d, NoDup (keys d) ->
    parse_labels fos (prepare_labels sof d) = Some (norm_dict d).
  Proof.
    intros d ND. unfold parse_labels, prepare_labels. cbn [w_labels w_types].
    exact (parse_loop_roundtrip d [] ND).
  Qed.

  (* ---------------------------------------------------------------- retries / requeues *)
  Definition counters_ok (L : dict lval) : Prop := counter K_RETRIES L <> None /\ counter K_REQUEUE L <> None.

  Lemma user_view_dset : forall k v L, is_counter k = true -> user_view (dset k v L) = user_view L.
  Proof.
    intros k v L Hk. unfold user_view. induction L as [|[k' v'] L IH]; cbn [dset filter fst].
    - now rewrite Hk.
    - destruct (k =? k') eqn:E; cbn [filter fst].
      + apply N.eqb_eq in E. subst k'. now rewrite Hk.
      + now rewrite IH.
  Qed.

  Lemma counter_dset_same : forall k v L, counter k (dset k v L) = py_int v.
  Proof. intros. unfold counter. now rewrite dget_dset_same. Qed.

  Lemma counter_dset_other : forall k k' v L, k <> k' -> counter k (dset k' v L) = counter k L.
  Proof. intros. unfold counter. now rewrite dget_dset_other. Qed.

  Lemma resend_ok : forall a L, NoDup (keys L) -> received L -> counters_ok L ->
    exists Lpost w L', resend sof a L = Some (Lpost, w) /\ parse_labels fos w = Some L'
      /\ NoDup (keys L') /\ received L' /\ counters_ok L' /\ user_view L' = user_view L
      /\ user_view Lpost = user_view L.
  Proof.
    intros a L ND RC [C1 C2]. destruct a; unfold resend.
    - destruct (counter K_RETRIES L) as [c|] eqn:E; [|congruence].
      exists L, (retry_resend sof L (c + 1)), (dset K_RETRIES (LInt (c + 1)) L).
      unfold retry_resend, dmerge. cbn [fold_left fst snd].
      rewrite labels_roundtrip by (apply NoDup_dset; exact ND).
      rewrite norm_dict_received by (apply received_dset; [exact I|exact RC]).
      repeat split; auto using NoDup_dset.
      + apply received_dset; [exact I|exact RC].
      + rewrite counter_dset_same. discriminate.
      + rewrite counter_dset_other by discriminate. exact C2.
      + now apply user_view_dset.
    - unfold requeue. destruct (counter K_REQUEUE L) as [c|] eqn:E; [|congruence]. cbv beta iota zeta.
      exists (dset K_REQUEUE (LStr (str_of_Z (c + 1))) L),
             (prepare_labels sof (dset K_REQUEUE (LStr (str_of_Z (c + 1))) L)),
             (dset K_REQUEUE (LStr (str_of_Z (c + 1))) L).
      rewrite labels_roundtrip by (apply NoDup_dset; exact ND).
      rewrite norm_dict_received by (apply received_dset; [exact I|exact RC]).
      repeat split; auto using NoDup_dset.
      + apply received_dset; [exact I|exact RC].
      + rewrite counter_dset_other by discriminate. exact C1.
      + rewrite counter_dset_same. cbn [py_int]. rewrite int_roundtrip. discriminate.
      + now apply user_view_dset.
      + now apply user_view_dset.
  Qed.

  Lemma chain_ok : forall acts L, NoDup (keys L) -> received L -> counters_ok L ->
    exists Ls, chain sof fos L acts = Some Ls /\ length Ls = S (length acts)
      /\ Forall (fun L' => user_view L' = user_view L) Ls /\ nth_error Ls 0 = Some L.
  Proof.
    induction acts as [|a acts IH]; intros L ND RC CO.
    - exists [L]. cbn. repeat split; auto.
    - destruct (resend_ok a L ND RC CO) as (Lpost & w & L' & R & P & ND' & RC' & CO' & UV & _).
      destruct (IH L' ND' RC' CO') as (Ls & CH & LEN & FA & _).
      exists (L :: Ls). cbn [chain]. rewrite R, P, CH. cbn. repeat split; auto.
      constructor; [reflexivity|].
      eapply Forall_impl; [|exact FA]. cbn. intros x Hx. congruence.
  Qed.

  (* C09_delivery *)
  Theorem delivery : forall d acts, NoDup (keys d) -> counters_ok (norm_dict d) ->
    exists Ls, deliveries sof fos d acts = Some Ls /\ length Ls = S (length acts)
      /\ nth_error Ls 0 = Some (norm_dict d)
      /\ Forall (fun L => user_view L = user_view (norm_dict d)) Ls.
  Proof.
    intros d acts ND CO. unfold deliveries. rewrite labels_roundtrip by exact ND.
    destruct (chain_ok acts (norm_dict d)) as (Ls & CH & LEN & FA & HD).
    - now rewrite keys_norm_dict.
    - apply received_norm_dict.
    - exact CO.
    - exists Ls. auto.
  Qed.

  Corollary delivery_primitive : forall d acts, NoDup (keys d) -> received d -> counters_ok d ->
    exists Ls, deliveries sof fos d acts = Some Ls /\ length Ls = S (length acts)
      /\ nth_error Ls 0 = Some d /\ Forall (fun L => user_view L = user_view d) Ls.
  Proof.
    intros d acts ND RC CO. pose proof (norm_dict_received d RC) as E.
    destruct (delivery d acts ND) as (Ls & H); [now rewrite E|]. rewrite E in H. eauto.
  Qed.
End Delivery.
