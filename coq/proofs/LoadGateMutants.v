(* Sensitivity of the C20 theorems: the same conversion with the gate as a parameter.  With the real gate it IS
   `conv` (convG_real); with each of the gates of the mutant list of DESIGN.md section 9 (and notes/C20.md) the
   statement of C20_only_exceptions is false - so the theorems really rest on line 378 of serialization.py being
   what it is and where it is.  The witnesses are the shapes of corpus/C20 01, 02, 04, 05, 16. *)
From Coq Require Import List NArith Bool.
From TQ Require Import LoadGate LoadGateProofs.
Import ListNotations.
Open Scope N_scope.

(* gate : is this the top-level call? -> resolved object -> reject?   late = gate applied after cls( *args) *)
Fixpoint convG (gate : bool -> target -> bool) (late : bool) (top : bool) (e : env) (p : payload) : cres * list effect :=
  match p with
  | PNone => (COk None, [])
  | PInst i => restore i
  | PRepr ty md args sup cause ctx =>
      match resolve e md ty with
      | None => (CBadName, [])
      | Some (t, e0) =>
          if negb late && gate top t then (CSec, e0)
          else
            let '(r, e1) := instantiate t args in
            if late && gate top t then (CSec, e0 ++ e1)
            else
            match r with
            | CRRaiseExc => (CWeird, e0 ++ e1)
            | CRRaiseBase id => (CProp id, e0 ++ e1)
            | CROther => (CWeird, e0 ++ e1)
            | CRInst c args' =>
                let '(rc, ec) := convG gate late false e cause in
                match rc with
                | COk xc =>
                    let '(rx, ex) := convG gate late false e ctx in
                    match rx with
                    | COk xx => (COk (Some (XNew c args' xc xx sup)), e0 ++ e1 ++ ec ++ ex)
                    | f => (f, e0 ++ e1 ++ ec ++ ex)
                    end
                | f => (f, e0 ++ e1 ++ ec)
                end
            end
      end
  end.

Lemma convG_real e p : forall top, convG (fun _ => gate_rejects) false top e p = conv e p.
Proof.
  induction p as [|i|ty md args sup cause IHc ctx IHx]; intros top; cbn [convG conv]; try reflexivity.
  destruct (resolve e md ty) as [[t e0]|]; [|reflexivity].
  cbn [negb andb]. destruct (gate_rejects t); [reflexivity|].
  destruct (instantiate t args) as [r e1]. cbn [andb]. rewrite IHc, IHx. reflexivity.
Qed.

Definition bad_effect (f : effect) : bool := negb (effect_ok f).

(* environment: m.f function, m.E exception class, m.C plain class, m.i callable instance *)
Definition mn := [109]. Definition fn := [102]. Definition En := [69]. Definition Cn := [67]. Definition inn := [105].
Definition menv : env :=
  [(mn, Obj 1 KModule [(fn, Obj 2 KFunc []); (En, Obj 3 (KExc CtorAny) []); (Cn, Obj 4 KClass []);
                       (inn, Obj 5 (KInst true) [])])].
Definition nd ty cause := PRepr ty (Some mn) [7] false cause PNone.

(* gate skipped for nested payloads *)
Example mutant_nested_gate_skipped :
  existsb bad_effect (snd (convG (fun top t => top && gate_rejects t) false true menv (nd En (nd fn PNone)))) = true.
Proof. vm_compute. reflexivity. Qed.

(* callable(cls) instead of the subclass test *)
Example mutant_callable_gate :
  existsb bad_effect (snd (convG (fun _ t => negb (is_callable t)) false true menv (nd inn PNone))) = true /\
  existsb bad_effect (snd (convG (fun _ t => negb (is_callable t)) false true menv (nd Cn PNone))) = true.
Proof. vm_compute. split; reflexivity. Qed.

(* isinstance(cls, type) only *)
Example mutant_type_only_gate :
  existsb bad_effect (snd (convG (fun _ t => negb (is_type t)) false true menv (nd Cn PNone))) = true.
Proof. vm_compute. reflexivity. Qed.

(* gate applied after instantiation: the outcome is still SecurityError, the call has happened *)
Example mutant_gate_after_instantiation :
  convG (fun _ => gate_rejects) true true menv (nd fn PNone) = (CSec, [Call (TEnv (Obj 2 KFunc []))]).
Proof. vm_compute. reflexivity. Qed.

(* and on the same inputs the real conversion has no bad effect (instance of C20_only_exceptions) *)
Example real_gate_same_inputs :
  existsb bad_effect (snd (conv menv (nd En (nd fn PNone)))) = false /\
  existsb bad_effect (snd (conv menv (nd inn PNone))) = false /\
  existsb bad_effect (snd (conv menv (nd Cn PNone))) = false /\
  conv menv (nd fn PNone) = (CSec, []).
Proof. vm_compute. repeat split. Qed.
