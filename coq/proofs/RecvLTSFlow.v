(* FIFO conservation of messages through look-ahead, hand-over queue and runner; at-most-once; nothing lost. *)
From Coq Require Import List Arith Bool Lia Permutation.
Import ListNotations.
From TQ Require Import RecvLTS RecvLTSProofs.

Lemma mem_In x l : mem x l = true <-> In x l.
Proof.
  induction l as [|y t IH]; simpl; [split; [discriminate|tauto]|].
  rewrite orb_true_iff, Nat.eqb_eq, IH. split; intros [H|H]; auto.
Qed.
Lemma mem_false x l : mem x l = false -> ~ In x l.
Proof. intros H Hi. apply mem_In in Hi. congruence. Qed.

Definition InvFlow (s : st) : Prop :=
  rev (taken s) = rev (started s) ++ qids (queue s) ++ la_ids (look s) ++ rev (lost s)
  /\ NoDup (taken s)
  /\ (pf s <> PFDone -> lost s = [])
  /\ fetched s = length (started s) + nmsgs (queue s).

Lemma gstep_flow d c s e s' : InvFlow s -> gstep d c s e = Some s' -> InvFlow s'.
Proof.
  unfold InvFlow. intros (F1 & F2 & F3 & F4) Hs.
  stepcases Hs; rw_fields; cbn [la_ids qids rev app] in *;
    rewrite ?qids_app, ?nmsgs_app, ?nmsgs_cons in *;
    try (repeat split; solve [assumption | congruence | lia | (intros; apply F3; congruence)]).
  all: try apply Nat.eqb_eq in Heqb; subst.
  all: try (apply andb_prop in Heqb as [Hid _]; apply Nat.eqb_eq in Hid; subst).
  all: repeat split; try assumption; try lia; try congruence; try (intros; apply F3; congruence).
  all: try (rewrite F1; rewrite ?F3 by congruence; cbn [rev app]; rewrite <- ?app_assoc; cbn [app]; rewrite ?app_nil_r; reflexivity).
  all: try (constructor; [apply mem_false; assumption | assumption]).
  all: cbn [length]; lia.
Qed.

(* ------------------------------------------------------------------ started = live + finished *)
Lemma remove1_perm x l : mem x l = true -> Permutation l (x :: remove1 x l).
Proof.
  induction l as [|y t IH]; simpl; [discriminate|]. destruct (Nat.eqb x y) eqn:E.
  - apply Nat.eqb_eq in E. subst. intros _. apply Permutation_refl.
  - simpl. intros H. eapply perm_trans; [apply perm_skip, IH, H | apply perm_swap].
Qed.
Lemma remove1_incl x l : incl (remove1 x l) l.
Proof.
  induction l as [|y t IH]; simpl; [apply incl_refl|]. destruct (Nat.eqb x y).
  - apply incl_tl, incl_refl.
  - intros z [H|H]; [left; auto | right; apply IH; auto].
Qed.

Definition InvLive (s : st) : Prop :=
  Permutation (started s) (live s ++ finished s) /\ incl (ending s) (finished s).

Lemma gstep_live d c s e s' : InvLive s -> gstep d c s e = Some s' -> InvLive s'.
Proof.
  unfold InvLive. intros (L1 & L2) Hs.
  stepcases Hs; try (split; assumption).
  - split; [|assumption]. cbn [app]. apply perm_skip. assumption.
  - split.
    + eapply perm_trans; [exact L1|].
      eapply perm_trans; [apply Permutation_app_tail, (remove1_perm id); assumption|].
      cbn [app]. apply Permutation_middle.
    + intros z [H|H]; [left; auto | right; apply L2; auto].
  - split; [assumption|]; intros z H; apply L2; eapply remove1_incl; eauto.
  - split; [assumption|]; intros z H; apply L2; eapply remove1_incl; eauto.
Qed.

(* ------------------------------------------------------------------ program counters vs look-ahead *)
Definition InvPc (c : cfg) (s : st) : Prop :=
  match pf s with
  | PFTop => match look s with LANew | LANone | LAPending => True | _ => False end
  | PFAcq => match look s with LANew | LACancelled => False | _ => True end
  | PFPoll => match look s with LAPending | LAHas _ | LAEnded => True | _ => False end
  | PFExit => match look s with LACancelled => False | _ => True end
  | PFDone => match look s with LANone | LAEnded | LACancelled => True | _ => False end
  end /\ (look s = LANone -> reachedN c (fetched s) = true).

Lemma gstep_pc d c s e s' : InvPc c s -> gstep d c s e = Some s' -> InvPc c s'.
Proof.
  unfold InvPc. intros (P1 & P2) Hs.
  stepcases Hs; rw_fields; split; try exact I; try assumption; try (intros; discriminate).
  all: try (apply andb_prop in Heqb as [_ Hb]; intros _;
            destruct (reachedN c (S (fetched s))); [reflexivity | destruct d; discriminate]).
  all: destruct (look s) eqn:El; try tauto; try congruence; try discriminate.
  all: try assumption; try (exfalso; specialize (P2 eq_refl); congruence).
Qed.

(* ------------------------------------------------------------------ shape of the hand-over queue *)
(* wfq false q: no sentinel in q;  wfq true q: q = messages ++ [IDone] *)
Fixpoint wfq (dn : bool) (q : list item) : bool :=
  match q with
  | [] => negb dn
  | IMsg _ :: t => wfq dn t
  | IDone :: t => andb dn (isnil t)
  end.
Lemma wfq_app_msg q id : wfq false q = true -> wfq false (q ++ [IMsg id]) = true.
Proof. induction q as [|[j|] t IH]; simpl; auto. Qed.
Lemma wfq_app_done q : wfq false q = true -> wfq true (q ++ [IDone]) = true.
Proof. induction q as [|[j|] t IH]; simpl; auto. discriminate. Qed.

Definition InvShape (s : st) : Prop :=
  match pf s, rn s with
  | PFDone, RNAcq | PFDone, RNGet => wfq true (queue s) = true
  | PFDone, _ => queue s = []
  | _, RNAcq | _, RNGet => wfq false (queue s) = true
  | _, _ => False
  end.

Lemma gstep_shape d c s e s' : InvShape s -> gstep d c s e = Some s' -> InvShape s'.
Proof.
  unfold InvShape. intros H Hs.
  stepcases Hs; rw_fields; try assumption;
    try (destruct (pf s) eqn:?; destruct (rn s) eqn:?; try assumption; try tauto; try discriminate;
         cbn [wfq andb isnil] in *; try assumption; try discriminate;
         try (apply wfq_app_msg; assumption); try (apply wfq_app_done; assumption);
         try (destruct l; [reflexivity | rewrite andb_false_r in H || simpl in H; discriminate])).
Qed.

(* ------------------------------------------------------------------ at most one take after the stop request *)
Definition pend (s : st) : nat :=
  match look s, pf s with
  | LAPending, PFTop | LAPending, PFAcq | LAPending, PFPoll => 1
  | _, _ => 0
  end.
Definition InvStop (s : st) : Prop :=
  if fin s then tas s + pend s <= 1 else tas s = 0.

Lemma gstep_stop d c s e s' : InvStop s -> gstep d c s e = Some s' -> InvStop s'.
Proof.
  unfold InvStop, pend. intros H Hs.
  stepcases Hs; rw_fields; try assumption;
    try (destruct (fin s) eqn:?; cbn [eqb] in *; try discriminate;
         destruct (look s) eqn:?; destruct (pf s) eqn:?; try discriminate; try lia).
Qed.

(* ------------------------------------------------------------------ the budget and the reason of leaving the loop *)
Definition InvN (c : cfg) (s : st) : Prop :=
  (match cN c with
   | Some (S n) => fetched s <= S n /\ (pf s = PFPoll -> fetched s <= n)
   | _ => True
   end)
  /\ match why s with
     | None => pf s <> PFExit /\ pf s <> PFDone
     | Some w => (pf s = PFExit \/ pf s = PFDone)
                 /\ match w with CBudget => reachedN c (fetched s) = true | CStop => fin s = true | CEnd => look s = LAEnded end
     end.

Lemma reachedN_false c n f : cN c = Some (S n) -> reachedN c f = false -> f <= n.
Proof.
  unfold reachedN. intros ->. intros H. apply andb_false_iff in H as [H|H];
    [apply Nat.ltb_ge in H; lia | apply Nat.leb_gt in H; lia].
Qed.

Lemma gstep_n d c s e s' : InvN c s -> gstep d c s e = Some s' -> InvN c s'.
Proof.
  unfold InvN. intros (N1 & N2) Hs.
  stepcases Hs; rw_fields; (split; [ | ]);
    try (destruct (cN c) as [[|nn]|] eqn:En; [exact I | | exact I]);
    try (destruct (why s) as [[]|] eqn:Ew);
    try (destruct (pf s) eqn:Ep);
    try solve [ tauto | assumption | intuition (try discriminate; try congruence; try lia) ].
  all: try (pose proof (reachedN_false _ _ _ En Heqb); intuition (try discriminate; lia)).
  all: try (destruct b; cbn [eqb] in *; intuition (try discriminate; try congruence)).
  all: try (apply eqb_prop in Heqb0; intuition congruence).
Qed.

(* ------------------------------------------------------------------ how the runner may finish *)
Definition InvRet (c : cfg) (s : st) : Prop :=
  (rn s = RNDone -> live s = [] \/ (timedout s = true /\ cW c = true))
  /\ (ret s = true -> pf s = PFDone /\ rn s = RNDone).

Lemma remove1_nil x l : l = [] -> remove1 x l = [].
Proof. intros ->. reflexivity. Qed.

Lemma gstep_ret d c s e s' : InvRet c s -> gstep d c s e = Some s' -> InvRet c s'.
Proof.
  unfold InvRet. intros (R1 & R2) Hs.
  stepcases Hs; rw_fields; split; try assumption; try (intros; discriminate);
    try (intro Hx; destruct (R2 Hx) as [Ha Hb]; split; congruence).
  all: try (intros _; destruct (live s); [left; reflexivity | discriminate]).
  all: try (intros Hx; specialize (R1 Hx); destruct R1 as [R1|R1]; [left; rewrite R1 in *; simpl in *; try discriminate; reflexivity | right; assumption]).
  all: try (intros _; right; apply andb_prop in Heqb as [_ Hw]; auto).
  all: try (intros; split; reflexivity).
  all: try (intros _; destruct (live s); [left; reflexivity | simpl in *; discriminate]).
Qed.

(* ------------------------------------------------------------------ the repaired prefetcher loses nothing *)
Definition InvFix (c : cfg) (s : st) : Prop :=
  lost s = []
  /\ (reachedN c (fetched s) = true -> look s = LANone)
  /\ (pf s = PFExit -> la_ids (look s) = []).

Lemma step_fix c s e s' : InvPc c s -> InvFix c s -> step c s e = Some s' -> InvFix c s'.
Proof.
  unfold InvFix, InvPc. intros (P1 & P2) (X1 & X2 & X3) Hs.
  stepcases Hs; rw_fields; repeat split; try assumption; try (intros; discriminate); try reflexivity.
  all: try (specialize (X3 eq_refl); discriminate).
  all: try (intros _; rewrite (X2 eq_refl); reflexivity).
  all: try (intro Hr; specialize (X2 Hr); try rewrite X2; congruence).
  all: try (intro Hr; congruence).
  all: try (destruct (look s); try tauto; reflexivity).
  all: try (apply andb_prop in Heqb as [_ Hb]; cbn [orb] in Hb; apply eqb_prop in Hb;
            intro Hr; rewrite Hr in Hb; discriminate).
Qed.
