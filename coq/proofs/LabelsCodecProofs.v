(* Codec part of C09: parse_label (prepare_label v) = v, and the dictionary-level round trip. *)
From Coq Require Import ZArith NArith List Bool String Ascii DecimalString DecimalZ DecimalPos Lia.
From Coq.Strings Require Import Byte.
From TQ Require Import Base64 Base64Proofs Labels.
Import ListNotations.
Open Scope N_scope.

(* ---------------------------------------------------------------- strings *)
Lemma string_of_pstr_of_string : forall s, string_of_pstr (pstr_of_string s) = Some s.
Proof.
  induction s as [|a s IH]; [reflexivity|].
  unfold pstr_of_string in *. cbn [list_ascii_of_string map string_of_pstr].
  pose proof (N_ascii_bounded a) as Hb. apply N.ltb_lt in Hb. rewrite Hb.
  rewrite IH. cbn [option_map]. now rewrite ascii_N_embedding.
Qed.

Lemma int_of_string_uint : forall d, d <> Decimal.Nil ->
  int_of_string (NilEmpty.string_of_uint d) = Some (Z.of_uint d).
Proof.
  intros d H. pose proof (NilEmpty.usu d) as U.
  destruct d; [congruence|..]; cbn [NilEmpty.string_of_uint] in *;
    unfold int_of_string, uint_of; cbv iota beta; rewrite U; reflexivity.
Qed.

Lemma uint_of_uint : forall d, d <> Decimal.Nil ->
  uint_of (NilEmpty.string_of_uint d) = Some (Z.of_uint d).
Proof.
  intros d H. pose proof (NilEmpty.usu d) as U.
  destruct d; [congruence|..]; cbn [NilEmpty.string_of_uint] in *;
    unfold uint_of; rewrite U; reflexivity.
Qed.

Lemma Z_of_uint_pos : forall p, Z.of_uint (Pos.to_uint p) = Z.pos p.
Proof. intro p. unfold Z.of_uint. now rewrite DecimalPos.Unsigned.of_to. Qed.

(* int(str(z)) = z for every z : Z *)
Theorem int_roundtrip : forall z, Z_of_str (str_of_Z z) = Some z.
Proof.
  intro z. unfold Z_of_str, str_of_Z. rewrite string_of_pstr_of_string.
  destruct z as [|p|p]; cbn [Z.to_int NilEmpty.string_of_int].
  - reflexivity.
  - rewrite int_of_string_uint by apply Unsigned.to_uint_nonnil. now rewrite Z_of_uint_pos.
  - unfold int_of_string. cbv iota beta.
    rewrite uint_of_uint by apply Unsigned.to_uint_nonnil. now rewrite Z_of_uint_pos.
Qed.

Lemma bool_roundtrip : forall b, is_true (str_of_bool b) = b.
Proof. destruct b; reflexivity. Qed.

(* ---------------------------------------------------------------- C09_codec *)
Definition primitive (v : lval) : Prop := match v with LOther _ => False | _ => True end.

Section Codec.
  Variable sof : Z -> pstr.
  Variable fos : pstr -> option Z.
  (* CPython: float(str(f)) == f (repr is the shortest string that round-trips; 'inf', '-inf', 'nan') *)
  Hypothesis float_roundtrip : forall f, fos (sof f) = Some f.

  Theorem codec_norm : forall v,
    parse_label fos (fst (prepare_label sof v)) (snd (prepare_label sof v)) = Some (norm v).
  Proof.
    destruct v as [z|s|f|b|bs|s]; cbn [prepare_label fst snd norm]; unfold parse_label; cbn [N.eqb T_INT T_STR T_FLOAT T_BOOL T_BYTES T_ANY Pos.eqb].
    - now rewrite int_roundtrip.
    - reflexivity.
    - now rewrite float_roundtrip.
    - now rewrite bool_roundtrip.
    - now rewrite b64_roundtrip.
    - reflexivity.
  Qed.

  Theorem codec : forall v, primitive v ->
    parse_label fos (fst (prepare_label sof v)) (snd (prepare_label sof v)) = Some v.
  Proof. intros v H. rewrite codec_norm. destruct v; try reflexivity. destruct H. Qed.
End Codec.
