(* Structure of Pipeline.callback: explicit decomposition into stages, phase-sortedness of every run, the
   acknowledgement theorems (C02) and skip_isolated (cited by C01). *)
From Coq Require Import List Arith Bool ZArith Lia.
From TQ Require Import Base BaseProofs Pipeline.
Import ListNotations.

(* ------------------------------------------------------------------------------------------ monad laws *)
Lemma fst_bind : forall {A B} (a : M A) (f : A -> M B),
  fst (bind a f) = fst a ++ match snd a with Ok v => fst (f v) | Exc _ => [] end.
Proof.
  intros A B [es [v|x]] f; simpl.
  - destruct (f v); reflexivity.
  - rewrite app_nil_r; reflexivity.
Qed.

Lemma snd_bind : forall {A B} (a : M A) (f : A -> M B),
  snd (bind a f) = match snd a with Ok v => snd (f v) | Exc x => Exc x end.
Proof. intros A B [es [v|x]] f; simpl; [destruct (f v)|]; reflexivity. Qed.

Lemma fst_catch : forall {A} (a : M A) h,
  fst (catch a h) = fst a ++ match snd a with Ok _ => [] | Exc x => fst (h x) end.
Proof.
  intros A [es [v|x]] h; simpl.
  - rewrite app_nil_r; reflexivity.
  - destruct (h x); reflexivity.
Qed.

Lemma snd_catch : forall {A} (a : M A) h,
  snd (catch a h) = match snd a with Ok v => Ok v | Exc x => snd (h x) end.
Proof. intros A [es [v|x]] h; simpl; [|destruct (h x)]; reflexivity. Qed.

Lemma hookk_eqb_refl : forall k, hookk_eqb k k = true.
Proof. destruct k; reflexivity. Qed.

(* ------------------------------------------------------------------------------------------ bounded sortedness *)
(* bs a lo hi l : the phases of l are non-decreasing and all within [lo, hi] *)
Fixpoint bs (a : acktype) (lo hi : nat) (l : list eff) : Prop :=
  match l with
  | [] => lo <= hi
  | e :: t => lo <= phase a e /\ bs a (phase a e) hi t
  end.

Lemma bs_le : forall a l lo hi, bs a lo hi l -> lo <= hi.
Proof. induction l as [|e t IH]; simpl; intros lo hi H; [assumption|]. destruct H as [H1 H2]. apply IH in H2. lia. Qed.

Lemma bs_weaken : forall a l lo lo' hi hi', bs a lo hi l -> lo' <= lo -> hi <= hi' -> bs a lo' hi' l.
Proof.
  induction l as [|e t IH]; simpl; intros lo lo' hi hi' H Hl Hh; [lia|].
  destruct H as [H1 H2]. split; [lia|]. eapply IH; eauto.
Qed.

Lemma bs_app : forall a l1 l2 lo mid hi, bs a lo mid l1 -> bs a mid hi l2 -> bs a lo hi (l1 ++ l2).
Proof.
  induction l1 as [|e t IH]; simpl; intros l2 lo mid hi H1 H2.
  - eapply bs_weaken; eauto.
  - destruct H1 as [Ha Hb]. split; [assumption|]. eapply IH; eauto.
Qed.

Lemma bs_in : forall a l lo hi e, bs a lo hi l -> In e l -> lo <= phase a e <= hi.
Proof.
  induction l as [|x t IH]; simpl; intros lo hi e H Hin; [contradiction|].
  destruct H as [H1 H2]. destruct Hin as [->|Hin].
  - apply bs_le in H2. lia.
  - specialize (IH _ _ _ H2 Hin). lia.
Qed.

Lemma bs_sortedb : forall a l lo hi, bs a lo hi l -> sortedb (map (phase a) l) = true.
Proof.
  induction l as [|e t IH]; simpl; intros lo hi H; [reflexivity|].
  destruct H as [H1 H2]. destruct t as [|e' t']; [reflexivity|].
  simpl in *. destruct H2 as [H2 H3]. apply andb_true_iff. split.
  - apply Nat.leb_le. assumption.
  - eapply (IH (phase a e)). split; eassumption.
Qed.

(* an earlier event never has a later phase *)
Lemma bs_order : forall a l lo hi p1 x p2 y, bs a lo hi l -> l = p1 ++ x :: p2 -> In y p1 -> phase a y <= phase a x.
Proof.
  induction l as [|e t IH]; intros lo hi p1 x p2 y H E Hin.
  - destruct p1; discriminate.
  - destruct p1 as [|z p1]; [contradiction|]. simpl in E. injection E as -> ->.
    simpl in H. destruct H as [H1 H2]. destruct Hin as [->|Hin].
    + assert (In x (p1 ++ x :: p2)) by (apply in_or_app; right; left; reflexivity).
      pose proof (bs_in _ _ _ _ _ H2 H). lia.
    + eapply IH; eauto.
Qed.

Lemma bs_bind : forall a {A B} (x : M A) (f : A -> M B) lo mid hi,
  bs a lo mid (fst x) -> (forall v, snd x = Ok v -> bs a mid hi (fst (f v))) -> mid <= hi ->
  bs a lo hi (fst (bind x f)).
Proof.
  intros a A B x f lo mid hi H1 H2 Hm. rewrite fst_bind. destruct (snd x) as [v|e] eqn:E.
  - eapply bs_app; eauto.
  - rewrite app_nil_r. eapply bs_weaken; eauto.
Qed.

(* ------------------------------------------------------------------------------------------ hook loops *)
Lemma msg_loop_bs : forall a k sel p st i m, (forall j x, phase a (FHookM k j x) = p) ->
  bs a p p (fst (msg_hook_loop k sel i st m)).
Proof.
  intros a k sel p st. induction st as [|w st IH]; intros i m Hp; [simpl; lia|].
  cbn [msg_hook_loop]. destruct (sel w) as [f|]; [|apply IH; assumption].
  eapply bs_bind with (mid := p); [cbn [emit fst bs]; rewrite !Hp; lia| |lia].
  intros _ _. eapply bs_bind with (mid := p); [destruct (f m); simpl; lia| |lia].
  intros v _. apply IH; assumption.
Qed.

Lemma unit_loop_bs : forall a k sel p st i m, (forall j x, phase a (FHookM k j x) = p) ->
  bs a p p (fst (unit_hook_loop k sel i st m)).
Proof.
  intros a k sel p st. induction st as [|w st IH]; intros i m Hp; [simpl; lia|].
  cbn [unit_hook_loop]. destruct (sel w) as [f|]; [|apply IH; assumption].
  eapply bs_bind with (mid := p); [cbn [emit fst bs]; rewrite !Hp; lia| |lia].
  intros _ _. eapply bs_bind with (mid := p); [destruct (f m); simpl; lia| |lia].
  intros v _. apply IH; assumption.
Qed.

Lemma res_loop_bs : forall a k sel x p st i m r, (forall j y z t, phase a (FHookR k j y z t) = p) ->
  bs a p p (fst (res_hook_loop k sel x i st m r)).
Proof.
  intros a k sel x p st. induction st as [|w st IH]; intros i m r Hp; [simpl; lia|].
  cbn [res_hook_loop]. destruct (sel w) as [f|]; [|apply IH; assumption].
  eapply bs_bind with (mid := p); [cbn [emit fst bs]; rewrite !Hp; lia| |lia].
  intros _ _. eapply bs_bind with (mid := p); [destruct (f r); simpl; lia| |lia].
  intros v _. apply IH; assumption.
Qed.

(* total hooks never raise *)
Lemma msg_loop_total : forall k sel st i m, total_hook sel st -> exists m', snd (msg_hook_loop k sel i st m) = Ok m'.
Proof.
  intros k sel st. induction st as [|w st IH]; intros i m H; [simpl; eexists; reflexivity|].
  cbn [msg_hook_loop]. inversion H as [|? ? Hw Hst]; subst. destruct (sel w) as [f|]; [|apply IH; assumption].
  rewrite snd_bind. cbn [emit snd]. rewrite snd_bind. destruct (f m) as [m'|] eqn:E; [|exfalso; eapply Hw; eauto].
  simpl. apply IH; assumption.
Qed.

Lemma res_loop_total : forall k sel x st i m r, total_hook sel st -> exists r', snd (res_hook_loop k sel x i st m r) = Ok r'.
Proof.
  intros k sel x st. induction st as [|w st IH]; intros i m r H; [simpl; eexists; reflexivity|].
  cbn [res_hook_loop]. inversion H as [|? ? Hw Hst]; subst. destruct (sel w) as [f|]; [|apply IH; assumption].
  rewrite snd_bind. cbn [emit snd]. rewrite snd_bind. destruct (f r) as [r'|] eqn:E; [|exfalso; eapply Hw; eauto].
  simpl. apply IH; assumption.
Qed.

Lemma unit_loop_total : forall k st i m, total_post_send st -> snd (unit_hook_loop k h_post_send i st m) = Ok tt.
Proof.
  intros k st. induction st as [|w st IH]; intros i m H; [reflexivity|].
  cbn [unit_hook_loop]. inversion H as [|? ? Hw Hst]; subst. destruct (h_post_send w) as [f|]; [|apply IH; assumption].
  rewrite snd_bind. cbn [emit snd]. rewrite snd_bind. rewrite Hw. cbn [ret snd]. apply IH; assumption.
Qed.

(* ------------------------------------------------------------------------------------------ stages of callback *)
Definition pre (c : pcfg) : M msg := msg_hook_loop HPreExec h_pre_exec 0 (c_stack c) (c_msg c).
Definition pe (c : pcfg) (m : msg) (r : res) : M res := res_hook_loop HPostExec h_post_exec None 0 (c_stack c) m r.
Definition acks (c : pcfg) (a : acktype) : list eff := fst (ack_site c a).

Lemma snd_ack_site : forall c a, snd (ack_site c a) = Ok tt.
Proof. intros. unfold ack_site, when. destruct (acktype_eqb (c_ack c) a && c_ackable c); reflexivity. Qed.

Lemma acks_cases : forall c a,
  acks c a = if acktype_eqb (c_ack c) a && c_ackable c then [FAck] else [].
Proof. intros. unfold acks, ack_site, when. destruct (acktype_eqb (c_ack c) a && c_ackable c); reflexivity. Qed.

(* the explicit shape of a run: stage effects, cut at the first stage that raises *)
Definition tail3 (c : pcfg) (m : msg) (r' : res) : list eff :=
  fst (save_block c m r') ++ match snd (save_block c m r') with Exc _ => [] | Ok _ => acks c AckSaved end.
Definition tail2 (c : pcfg) (m : msg) (r : res) : list eff :=
  acks c AckExecuted ++ fst (pe c m r) ++ match snd (pe c m r) with Exc _ => [] | Ok r' => tail3 c m r' end.
Definition tail1 (c : pcfg) (m : msg) : list eff :=
  acks c AckReceived ++ fst (run_task c m) ++ match snd (run_task c m) with Exc _ => [] | Ok r => tail2 c m r end.

Lemma callback_fst : forall c, c_kind c = KOk ->
  fst (callback_m c) = fst (pre c) ++ match snd (pre c) with Exc _ => [] | Ok m => tail1 c m end.
Proof.
  intros c H. unfold callback_m. rewrite H. fold (pre c). rewrite fst_bind. f_equal.
  destruct (snd (pre c)) as [m|x]; [|reflexivity].
  unfold tail1. rewrite fst_bind, snd_ack_site. fold (acks c AckReceived). f_equal.
  rewrite fst_bind. f_equal. destruct (snd (run_task c m)) as [r|x]; [|reflexivity].
  unfold tail2. rewrite fst_bind, snd_ack_site. fold (acks c AckExecuted). f_equal.
  fold (pe c m r). rewrite fst_bind. f_equal. destruct (snd (pe c m r)) as [r'|x]; [|reflexivity].
  unfold tail3. rewrite fst_bind. reflexivity.
Qed.

Lemma callback_snd : forall c, c_kind c = KOk ->
  snd (callback_m c) =
  match snd (pre c) with Exc x => Exc x | Ok m =>
    match snd (run_task c m) with Exc x => Exc x | Ok r =>
      match snd (pe c m r) with Exc x => Exc x | Ok r' =>
        match snd (save_block c m r') with Exc x => Exc x | Ok _ => Ok tt end end end end.
Proof.
  intros c H. unfold callback_m. rewrite H. fold (pre c). rewrite snd_bind.
  destruct (snd (pre c)) as [m|x]; [|reflexivity].
  rewrite snd_bind, snd_ack_site, snd_bind. destruct (snd (run_task c m)) as [r|x]; [|reflexivity].
  rewrite snd_bind, snd_ack_site. fold (pe c m r). rewrite snd_bind.
  destruct (snd (pe c m r)) as [r'|x]; [|reflexivity].
  rewrite snd_bind. destruct (snd (save_block c m r')) as [u|x]; [|reflexivity]. apply snd_ack_site.
Qed.

(* ---- phases of the stages *)
Definition ackph (a : acktype) : nat := match a with AckReceived => 1 | AckExecuted => 10 | AckSaved => 15 end.

Lemma acks_bs : forall c a, bs (c_ack c) (ackph a) (ackph a) (acks c a).
Proof.
  intros c a. rewrite acks_cases. destruct (acktype_eqb (c_ack c) a) eqn:E; simpl; [|lia].
  destruct (c_ackable c); simpl; [|lia]. destruct (c_ack c), a; simpl in *; try discriminate; lia.
Qed.

Lemma pre_bs : forall c, bs (c_ack c) 0 0 (fst (pre c)).
Proof. intros. apply msg_loop_bs. reflexivity. Qed.

Lemma pe_bs : forall c m r, bs (c_ack c) 11 11 (fst (pe c m r)).
Proof. intros. apply res_loop_bs. reflexivity. Qed.

Lemma try_block_bs : forall a c m, bs a 3 5 (fst (try_block c m)).
Proof.
  intros a c m. unfold try_block. destruct (c_dep c); destruct (body_run c m); simpl; lia.
Qed.

Lemma run_task_bs : forall c m, bs (c_ack c) 2 9 (fst (run_task c m)).
Proof.
  intros c m. unfold run_task. pose proof (try_block_bs (c_ack c) c m) as Ht.
  destruct (try_block c m) as [es o]. simpl in Ht.
  eapply bs_bind with (mid := 2); [simpl; lia| |lia]. intros _ _.
  eapply bs_bind with (mid := 5); [simpl; eapply bs_weaken; eauto; lia| |lia]. intros _ _.
  eapply bs_bind with (mid := 5); [destruct (closes_coroutine c m); simpl; lia| |lia]. intros _ _.
  eapply bs_bind with (mid := 6); [simpl; lia| |lia]. intros _ _.
  eapply bs_bind with (mid := 8).
  - unfold when. destruct (is_opened (c_dep c)); [|simpl; lia].
    eapply bs_bind with (mid := 7); [destruct (is_raise o && c_prop c); simpl; lia| |lia].
    intros _ _. simpl. lia.
  - intros _ _. destruct o as [v|e]; [simpl; lia|].
    eapply bs_weaken; [apply res_loop_bs with (p := 9); reflexivity|lia|lia].
  - lia.
Qed.

Lemma save_block_bs : forall c m r, bs (c_ack c) 12 14 (fst (save_block c m r)).
Proof.
  intros c m r. unfold save_block. rewrite fst_catch.
  set (body := if is_nores r then _ else _).
  assert (Hb : bs (c_ack c) 12 14 (fst body)).
  { subst body. destruct (is_nores r); [simpl; lia|].
    eapply bs_bind with (mid := 12); [simpl; lia| |lia]. intros _ _.
    eapply bs_bind with (mid := 13).
    - destruct (c_save_ok c); [simpl; lia|]. eapply bs_bind with (mid := 13); simpl; [lia| |lia]. intros; lia.
    - intros _ _. eapply bs_bind with (mid := 14); [|intros; simpl; lia|lia].
      eapply bs_weaken; [apply res_loop_bs with (p := 14); reflexivity|lia|lia].
    - lia. }
  destruct (snd body) as [u|x].
  - rewrite app_nil_r. assumption.
  - destruct (c_raise_err c); simpl; rewrite app_nil_r; assumption.
Qed.

Lemma tail3_bs : forall c m r, bs (c_ack c) 12 15 (tail3 c m r).
Proof.
  intros. unfold tail3. eapply bs_app; [apply save_block_bs|].
  destruct (snd (save_block c m r)); [|simpl; lia]. eapply bs_weaken; [apply acks_bs|simpl; lia|simpl; lia].
Qed.

Lemma tail2_bs : forall c m r, bs (c_ack c) 10 15 (tail2 c m r).
Proof.
  intros. unfold tail2. eapply bs_app; [apply (acks_bs c AckExecuted)|]. simpl.
  eapply bs_app with (mid := 11); [eapply bs_weaken; [apply pe_bs|lia|lia]|].
  destruct (snd (pe c m r)); [|simpl; lia]. eapply bs_weaken; [apply tail3_bs|lia|lia].
Qed.

Lemma tail1_bs : forall c m, bs (c_ack c) 1 15 (tail1 c m).
Proof.
  intros. unfold tail1. eapply bs_app; [apply (acks_bs c AckReceived)|]. simpl.
  eapply bs_app with (mid := 9); [eapply bs_weaken; [apply run_task_bs|lia|lia]|].
  destruct (snd (run_task c m)); [|simpl; lia]. eapply bs_weaken; [apply tail2_bs|lia|lia].
Qed.

Lemma finish_bs : forall a {A} (x : M A) d lo hi, bs a lo hi (fst x) -> hi <= 16 -> (forall v, phase a (d v) = 16) ->
  bs a lo 16 (finish x d).
Proof.
  intros a A [es [v|e]] d lo hi H Hh Hd; simpl in *.
  - eapply bs_app; [eassumption|]. simpl. rewrite Hd. lia.
  - eapply bs_app; [eassumption|]. simpl. lia.
Qed.

(* C10_exec_order, structural form: every run of callback is sorted by phase *)
Theorem callback_sorted : forall c, bs (c_ack c) 0 16 (callback c).
Proof.
  intros c. unfold callback. destruct (c_kind c) eqn:K.
  - eapply finish_bs with (hi := 15); [|lia|reflexivity]. rewrite callback_fst by assumption.
    eapply bs_app; [apply pre_bs|]. destruct (snd (pre c)); [|simpl; lia].
    eapply bs_weaken; [apply tail1_bs|lia|lia].
  - unfold callback_m. rewrite K. simpl. lia.
  - unfold callback_m. rewrite K. simpl. lia.
Qed.

(* ------------------------------------------------------------------------------------------ what the stages contain *)
Lemma phase_ack : forall a, phase a FAck = ackph a.
Proof. destruct a; reflexivity. Qed.

Ltac noack H B := pose proof (bs_in _ _ _ _ _ B H) as Hx; rewrite phase_ack in Hx.

Lemma pre_noack : forall c, ~ In FAck (fst (pre c)).
Proof. intros c H. noack H (pre_bs c). destruct (c_ack c); simpl in Hx; lia. Qed.
Lemma pre_nostart : forall c, ~ In FTaskStart (fst (pre c)).
Proof. intros c H. pose proof (bs_in _ _ _ _ _ (pre_bs c) H) as Hx. simpl in Hx. lia. Qed.
Lemma run_task_noack : forall c m, ~ In FAck (fst (run_task c m)).
Proof. intros c m H. noack H (run_task_bs c m). destruct (c_ack c); simpl in Hx; lia. Qed.
Lemma pe_noack : forall c m r, ~ In FAck (fst (pe c m r)).
Proof. intros c m r H. noack H (pe_bs c m r). destruct (c_ack c); simpl in Hx; lia. Qed.
Lemma save_noack : forall c m r, ~ In FAck (fst (save_block c m r)).
Proof. intros c m r H. noack H (save_block_bs c m r). destruct (c_ack c); simpl in Hx; lia. Qed.
Lemma pe_nostart : forall c m r, ~ In FTaskStart (fst (pe c m r)).
Proof. intros c m r H. pose proof (bs_in _ _ _ _ _ (pe_bs c m r) H) as Hx. simpl in Hx. lia. Qed.
Lemma save_nostart : forall c m r, ~ In FTaskStart (fst (save_block c m r)).
Proof. intros c m r H. pose proof (bs_in _ _ _ _ _ (save_block_bs c m r) H) as Hx. simpl in Hx. lia. Qed.

Lemma bs_order_after : forall a l lo hi p1 x p2 y, bs a lo hi l -> l = p1 ++ x :: p2 -> In y p2 -> phase a x <= phase a y.
Proof.
  intros a l lo hi p1. revert l lo hi. induction p1 as [|z p1 IH]; intros l lo hi x p2 y H E Hin; subst l; simpl in H.
  - destruct H as [_ H]. pose proof (bs_in _ _ _ _ _ H Hin). lia.
  - destruct H as [_ H]. eapply IH; eauto.
Qed.

Definition rt_rest (c : pcfg) (m : msg) (o : bout) : M res :=
  when (is_opened (c_dep c)) (when (is_raise o && c_prop c) (emit FDepSaw) ;;; emit FDepClose) ;;;
  match o with
  | BRaise e => res_hook_loop HOnError h_on_error (Some e) 0 (c_stack c) m (raw_res m o)
  | BRet _ => ret (raw_res m o)
  end.

Lemma run_task_fst : forall c m,
  fst (run_task c m) = FExecBegin :: fst (try_block c m) ++
    (if closes_coroutine c m then [] else FExecEnd :: fst (rt_rest c m (snd (try_block c m)))).
Proof.
  intros c m. unfold run_task, rt_rest. destruct (try_block c m) as [es o]. rewrite !fst_bind. simpl.
  destruct (closes_coroutine c m); simpl; reflexivity.
Qed.

Lemma run_task_snd : forall c m,
  snd (run_task c m) = if closes_coroutine c m then Exc XGenExit else snd (rt_rest c m (snd (try_block c m))).
Proof.
  intros c m. unfold run_task, rt_rest. destruct (try_block c m) as [es o]. rewrite !snd_bind. simpl.
  destruct (closes_coroutine c m); simpl; reflexivity.
Qed.

Lemma try_block_start_end : forall c m, c_async c = true ->
  In FTaskStart (fst (try_block c m)) -> exists b, In (FTaskEnd b) (fst (try_block c m)).
Proof.
  intros c m Ha. unfold try_block, body_run. rewrite Ha.
  destruct (c_dep c); destruct (m_tmo m) as [t|]; simpl;
    repeat match goal with |- context [if ?b then _ else _] => destruct b end; simpl; intros Hi;
    repeat (destruct Hi as [Hi|Hi]; try discriminate); try contradiction;
    eexists; simpl; eauto.
Qed.

(* a completed run_task went through the end of its try block; a coroutine body that started was left *)
Lemma run_task_execend : forall c m r, snd (run_task c m) = Ok r ->
  In FExecEnd (fst (run_task c m)) /\
  (c_async c = true -> In FTaskStart (fst (run_task c m)) -> exists b, In (FTaskEnd b) (fst (run_task c m))).
Proof.
  intros c m r Hs. pose proof (run_task_bs c m) as B. rewrite run_task_snd in Hs. rewrite run_task_fst in *.
  destruct (closes_coroutine c m); [discriminate|]. split.
  - right. apply in_or_app. right. left. reflexivity.
  - intros Ha [Hi|Hi]; [discriminate|]. apply in_app_or in Hi. destruct Hi as [Hi|Hi].
    + destruct (try_block_start_end c m Ha Hi) as [b Hb]. exists b. right. apply in_or_app. left. assumption.
    + exfalso. destruct Hi as [Hi|Hi]; [discriminate|].
      pose proof (bs_order_after (c_ack c) _ 2 9 (FExecBegin :: fst (try_block c m)) FExecEnd _ FTaskStart B eq_refl Hi) as Hx.
      simpl in Hx. lia.
Qed.

(* set_result was entered and left (either way), or skipped: whatever the save block does *)
Lemma save_block_done : forall c m r,
  In FSaveOk (fst (save_block c m r)) \/ In FSaveErr (fst (save_block c m r)) \/ In FSaveSkip (fst (save_block c m r)).
Proof.
  intros c m r. unfold save_block. rewrite fst_catch. destruct (is_nores r).
  - right. right. simpl. left. reflexivity.
  - rewrite !fst_bind. simpl. destruct (c_save_ok c); simpl.
    + left. right. left. reflexivity.
    + right. left. right. left. reflexivity.
Qed.

Lemma save_block_ok : forall c m r, c_raise_err c = false -> snd (save_block c m r) = Ok tt.
Proof.
  intros c m r H. unfold save_block. rewrite snd_catch, H.
  match goal with |- match snd ?b with _ => _ end = _ => destruct (snd b) as [[]|x] end; reflexivity.
Qed.

Lemma closes_sync_genexit : forall c m, sync_genexit c = false -> closes_coroutine c m = false.
Proof. intros c m H. unfold closes_coroutine. unfold sync_genexit in H. rewrite H. reflexivity. Qed.

Lemma rt_rest_total : forall c m o, total_hook h_on_error (c_stack c) -> exists r, snd (rt_rest c m o) = Ok r.
Proof.
  intros c m o H. unfold rt_rest. rewrite snd_bind.
  assert (E : snd (when (is_opened (c_dep c)) (when (is_raise o && c_prop c) (emit FDepSaw);;; emit FDepClose)) = Ok tt).
  { unfold when. destruct (is_opened (c_dep c)); [|reflexivity]. rewrite snd_bind.
    destruct (is_raise o && c_prop c); reflexivity. }
  rewrite E. destruct o as [v|e]; [eexists; reflexivity|]. apply res_loop_total. assumption.
Qed.

(* ------------------------------------------------------------------------------------------ the whole run *)
Definition endmark (c : pcfg) : eff := match snd (callback_m c) with Ok _ => FDone | Exc x => FCrash x end.

Lemma callback_eq : forall c, callback c = fst (callback_m c) ++ [endmark c].
Proof. intros c. unfold callback, finish, endmark. destruct (callback_m c) as [es [u|x]]; reflexivity. Qed.

Lemma endmark_noack : forall c, endmark c <> FAck.
Proof. intros c. unfold endmark. destruct (snd (callback_m c)); discriminate. Qed.

(* under the hypotheses of the property theorems every stage completes *)
Lemma wf_complete : forall c, wf_recv c -> exists m r r',
  snd (pre c) = Ok m /\ snd (run_task c m) = Ok r /\ snd (pe c m r) = Ok r' /\ snd (save_block c m r') = Ok tt.
Proof.
  intros c (K & R & G & T1 & T2 & T3).
  destruct (msg_loop_total HPreExec h_pre_exec (c_stack c) 0 (c_msg c) T1) as [m Hm].
  assert (exists r, snd (run_task c m) = Ok r) as [r Hr].
  { rewrite run_task_snd, (closes_sync_genexit c m G). apply rt_rest_total. assumption. }
  destruct (res_loop_total HPostExec h_post_exec None (c_stack c) 0 m r T3) as [r' Hr'].
  exists m, r, r'. repeat split; try assumption. apply save_block_ok. assumption.
Qed.

Lemma callback_complete : forall c, wf_recv c -> exists m r r',
  snd (pre c) = Ok m /\ snd (run_task c m) = Ok r /\ snd (pe c m r) = Ok r' /\
  callback c = fst (pre c) ++ acks c AckReceived ++ fst (run_task c m) ++ acks c AckExecuted ++ fst (pe c m r) ++
               fst (save_block c m r') ++ acks c AckSaved ++ [FDone].
Proof.
  intros c W. destruct (wf_complete c W) as (m & r & r' & H1 & H2 & H3 & H4). exists m, r, r'.
  repeat split; try assumption. destruct W as (K & _).
  rewrite callback_eq. unfold endmark. rewrite callback_snd, callback_fst by assumption.
  rewrite H1. unfold tail1. rewrite H2. unfold tail2. rewrite H3. unfold tail3. rewrite H4.
  repeat rewrite <- app_assoc. reflexivity.
Qed.

Lemma countb_notin : forall l, ~ In FAck l -> countb is_ack l = 0.
Proof.
  induction l as [|e t IH]; intros H; [reflexivity|]. unfold countb in *. simpl.
  destruct e; simpl; try (apply IH; intros Hi; apply H; right; assumption).
  exfalso. apply H. left. reflexivity.
Qed.

Lemma countb_acks : forall c a, countb is_ack (acks c a) = if acktype_eqb (c_ack c) a && c_ackable c then 1 else 0.
Proof. intros. rewrite acks_cases. destruct (acktype_eqb (c_ack c) a && c_ackable c); reflexivity. Qed.

Lemma acks_sum : forall c,
  countb is_ack (acks c AckReceived) + countb is_ack (acks c AckExecuted) + countb is_ack (acks c AckSaved)
  = if c_ackable c then 1 else 0.
Proof. intros c. rewrite !countb_acks. destruct (c_ack c), (c_ackable c); reflexivity. Qed.

(* C02_exactly_once *)
Theorem ack_exactly_once : forall c, wf_recv c ->
  countb is_ack (callback c) = (if c_ackable c then 1 else 0) /\ last (callback c) (FCrash XHook) = FDone.
Proof.
  intros c W. destruct (callback_complete c W) as (m & r & r' & _ & _ & _ & E). rewrite E. split.
  - rewrite !countb_app.
    rewrite (countb_notin _ (pre_noack c)), (countb_notin _ (run_task_noack c m)),
            (countb_notin _ (pe_noack c m r)), (countb_notin _ (save_noack c m r')).
    pose proof (acks_sum c). unfold countb at 4. simpl. lia.
  - repeat rewrite app_assoc. apply last_last.
Qed.

(* at most one ack in any run whatsoever: raising hooks, raise_err, malformed messages, finding D10 included *)
Theorem ack_at_most_once : forall c, countb is_ack (callback c) <= 1.
Proof.
  intros c. rewrite callback_eq, countb_app.
  assert (He : countb is_ack [endmark c] = 0).
  { apply countb_notin. intros [H|[]]. apply (endmark_noack c). assumption. }
  rewrite He. destruct (c_kind c) eqn:K.
  - rewrite callback_fst by assumption. pose proof (acks_sum c) as S.
    rewrite countb_app, (countb_notin _ (pre_noack c)).
    destruct (snd (pre c)) as [m|x]; [|unfold countb; simpl; lia].
    unfold tail1. rewrite !countb_app, (countb_notin _ (run_task_noack c m)).
    destruct (snd (run_task c m)) as [r|x]; [|destruct (c_ackable c); unfold countb at 2; simpl; lia].
    unfold tail2. rewrite !countb_app, (countb_notin _ (pe_noack c m r)).
    destruct (snd (pe c m r)) as [r'|x]; [|destruct (c_ackable c); unfold countb at 3; simpl; lia].
    unfold tail3. rewrite !countb_app, (countb_notin _ (save_noack c m r')).
    destruct (snd (save_block c m r')) as [u|x]; [|unfold countb at 3; simpl]; destruct (c_ackable c); lia.
  - unfold callback_m. rewrite K. unfold countb. simpl. lia.
  - unfold callback_m. rewrite K. unfold countb. simpl. lia.
Qed.

(* ---- membership facts used for the position theorem *)
Lemma acks_other : forall c a, c_ack c <> a -> acks c a = [].
Proof. intros c a H. rewrite acks_cases. destruct (c_ack c), a; simpl; try reflexivity; congruence. Qed.

Lemma acks_in : forall c a x, In x (acks c a) -> x = FAck /\ c_ack c = a /\ c_ackable c = true.
Proof.
  intros c a x. rewrite acks_cases. destruct (acktype_eqb (c_ack c) a) eqn:E; simpl; [|contradiction].
  destruct (c_ackable c); simpl; [|contradiction]. intros [<-|[]].
  repeat split. destruct (c_ack c), a; simpl in E; congruence.
Qed.

Ltac expand K :=
  rewrite callback_eq, (callback_fst _ K) in *; unfold tail1, tail2, tail3 in *.

(* an ack at the when_executed site means run_task completed *)
Lemma ack_executed_in : forall c, c_ack c = AckExecuted -> In FAck (callback c) -> In FExecEnd (callback c).
Proof.
  intros c A H. destruct (c_kind c) eqn:K;
    [|unfold callback, callback_m in H; rewrite K in H; simpl in H; intuition discriminate ..].
  expand K. repeat rewrite in_app_iff in *.
  destruct H as [[H|H]|[H|[]]]; [exfalso; eapply pre_noack; eauto| |exfalso; eapply endmark_noack; eauto].
  destruct (snd (pre c)) as [m|x]; [|contradiction]. repeat rewrite in_app_iff in H.
  destruct H as [H|[H|H]]; [apply acks_in in H; destruct H as (_ & H & _); congruence
                           |exfalso; eapply run_task_noack; eauto|].
  destruct (snd (run_task c m)) as [r|x] eqn:R; [|contradiction].
  left. right. repeat rewrite in_app_iff. right. left. apply (run_task_execend c m r R).
Qed.

Lemma start_end_in : forall c, c_async c = true -> In FTaskStart (callback c) -> exists b, In (FTaskEnd b) (callback c).
Proof.
  intros c A H. destruct (c_kind c) eqn:K;
    [|unfold callback, callback_m in H; rewrite K in H; simpl in H; intuition discriminate ..].
  expand K. repeat rewrite in_app_iff in *.
  destruct H as [[H|H]|[H|[]]]; [exfalso; eapply pre_nostart; eauto| |unfold endmark in H; destruct (snd (callback_m c)); discriminate].
  destruct (snd (pre c)) as [m|x]; [|contradiction]. repeat rewrite in_app_iff in H.
  destruct H as [H|[H|H]]; [apply acks_in in H; destruct H as (H & _); discriminate| |].
  - assert (exists b, In (FTaskEnd b) (fst (run_task c m))) as [b Hb].
    { rewrite run_task_fst in *. destruct H as [H|H]; [discriminate|]. apply in_app_or in H. destruct H as [H|H].
      - destruct (try_block_start_end c m A H) as [b Hb]. exists b. right. apply in_or_app. left. assumption.
      - exfalso. destruct (closes_coroutine c m); [contradiction|]. destruct H as [H|H]; [discriminate|].
        pose proof (run_task_bs c m) as B. rewrite run_task_fst in B.
        unfold closes_coroutine in B. rewrite A in B. simpl in B. destruct B as [_ B].
        pose proof (bs_order_after (c_ack c) _ _ 9 (fst (try_block c m)) FExecEnd _ FTaskStart B eq_refl H) as Hx.
        simpl in Hx. lia. }
    exists b. repeat rewrite in_app_iff. left. right. right. left. assumption.
  - exfalso. destruct (snd (run_task c m)) as [r|x]; [|contradiction]. repeat rewrite in_app_iff in H.
    destruct H as [H|[H|H]]; [apply acks_in in H; destruct H as (H & _); discriminate|eapply pe_nostart; eauto|].
    destruct (snd (pe c m r)) as [r'|x]; [|contradiction]. repeat rewrite in_app_iff in H.
    destruct H as [H|H]; [eapply save_nostart; eauto|].
    destruct (snd (save_block c m r')); [|contradiction]. apply acks_in in H. destruct H as (H & _). discriminate.
Qed.

Lemma ack_saved_in : forall c, c_ack c = AckSaved -> In FAck (callback c) ->
  In FSaveOk (callback c) \/ In FSaveErr (callback c) \/ In FSaveSkip (callback c).
Proof.
  intros c A H. destruct (c_kind c) eqn:K;
    [|unfold callback, callback_m in H; rewrite K in H; simpl in H; intuition discriminate ..].
  expand K. repeat rewrite in_app_iff in *.
  destruct H as [[H|H]|[H|[]]]; [exfalso; eapply pre_noack; eauto| |exfalso; eapply endmark_noack; eauto].
  destruct (snd (pre c)) as [m|x]; [|contradiction]. repeat rewrite in_app_iff in *.
  destruct H as [H|[H|H]]; [apply acks_in in H; destruct H as (_ & H & _); congruence
                           |exfalso; eapply run_task_noack; eauto|].
  destruct (snd (run_task c m)) as [r|x] eqn:R; [|contradiction]. repeat rewrite in_app_iff in *.
  destruct H as [H|[H|H]]; [apply acks_in in H; destruct H as (_ & H & _); congruence
                           |exfalso; eapply pe_noack; eauto|].
  destruct (snd (pe c m r)) as [r'|x]; [|contradiction]. repeat rewrite in_app_iff in *.
  destruct (save_block_done c m r') as [D|[D|D]]; [left|right; left|right; right];
    left; right; right; right; right; right; left; exact D.
Qed.

Lemma start_acked_in : forall c, c_ack c = AckReceived -> c_ackable c = true -> In FTaskStart (callback c) -> In FAck (callback c).
Proof.
  intros c A B H. destruct (c_kind c) eqn:K;
    [|unfold callback, callback_m in H; rewrite K in H; simpl in H; intuition discriminate ..].
  expand K. repeat rewrite in_app_iff in *.
  destruct H as [[H|H]|[H|[]]]; [exfalso; eapply pre_nostart; eauto| |unfold endmark in H; destruct (snd (callback_m c)); discriminate].
  destruct (snd (pre c)) as [m|x]; [|contradiction].
  left. right. repeat rewrite in_app_iff. left. rewrite acks_cases, A, B. left. reflexivity.
Qed.

(* C02_not_before: in every run, every ack sits after the configured point *)
Theorem ack_not_before_run : forall c, ack_not_before c (callback c).
Proof.
  intros c. pose proof (callback_sorted c) as B. split.
  - intros p1 p2 E. unfold reached.
    assert (Hack : In FAck (callback c)) by (rewrite E; apply in_or_app; right; left; reflexivity).
    assert (Hbefore : forall y, In y (callback c) -> phase (c_ack c) y < phase (c_ack c) FAck -> In y p1).
    { intros y Hy Hlt. rewrite E in Hy. apply in_app_or in Hy. destruct Hy as [Hy|[Hy|Hy]]; [assumption| |].
      - subst y. lia.
      - pose proof (bs_order_after _ _ _ _ _ _ _ _ B E Hy). lia. }
    destruct (c_ack c) eqn:A.
    + intros Hs. pose proof (bs_order _ _ _ _ _ _ _ _ B E Hs) as Hx. simpl in Hx. lia.
    + split.
      * apply Hbefore; [apply ack_executed_in; assumption|simpl; lia].
      * intros Ha Hs. destruct (start_end_in c Ha) as [b Hb]; [rewrite E; apply in_or_app; left; assumption|].
        exists b. apply Hbefore; [assumption|simpl; lia].
    + destruct (ack_saved_in c A Hack) as [D|[D|D]]; [left|right; left|right; right];
        (apply Hbefore; [assumption|simpl; lia]).
  - intros A Hk p1 p2 E.
    assert (Hs : In FTaskStart (callback c)) by (rewrite E; apply in_or_app; right; left; reflexivity).
    pose proof (start_acked_in c A Hk Hs) as Hack. rewrite E in Hack. apply in_app_or in Hack.
    destruct Hack as [Hack|[Hack|Hack]]; [assumption|discriminate|].
    pose proof (bs_order_after _ _ _ _ _ _ _ _ B E Hack) as Hx. rewrite A in Hx. simpl in Hx. lia.
Qed.

Lemma ack_not_before_prefix : forall c l p, ack_not_before c l -> prefix p l -> ack_not_before c p.
Proof.
  intros c l p [H1 H2] [s ->]. split.
  - intros p1 p2 E. apply (H1 p1 (p2 ++ s)). rewrite E, <- app_assoc. reflexivity.
  - intros A K p1 p2 E. apply (H2 A K p1 (p2 ++ s)). rewrite E, <- app_assoc. reflexivity.
Qed.

(* every prefix of a run = every crash point *)
Theorem ack_not_before_every_prefix : forall c p, prefix p (callback c) -> ack_not_before c p /\ countb is_ack p <= 1.
Proof.
  intros c p H. split.
  - eapply ack_not_before_prefix; [apply ack_not_before_run|assumption].
  - pose proof (countb_prefix_le is_ack _ _ H). pose proof (ack_at_most_once c). lia.
Qed.

Lemma nth_map_callback : forall cs i c, nth_error cs i = Some c -> nth i (map callback cs) [] = callback c.
Proof. intros cs i c H. apply nth_error_nth. apply map_nth_error. assumption. Qed.

(* C02_concurrent: any number of messages, any interleaving, any crash point of the global run *)
Theorem ack_concurrent : forall cs g p i c,
  Interleave (map callback cs) g -> prefix p g -> nth_error cs i = Some c ->
  ack_not_before c (project i p) /\ countb is_ack (project i p) <= 1.
Proof.
  intros cs g p i c HI Hp Hn. apply ack_not_before_every_prefix.
  pose proof (interleave_prefix _ _ _ HI Hp i) as H. rewrite (nth_map_callback _ _ _ Hn) in H. exact H.
Qed.

(* and when the global run is complete every well-formed message has been acknowledged exactly once *)
Theorem ack_concurrent_complete : forall cs g i c,
  Interleave (map callback cs) g -> nth_error cs i = Some c -> wf_recv c ->
  countb is_ack (project i g) = if c_ackable c then 1 else 0.
Proof.
  intros cs g i c HI Hn W. rewrite (interleave_project _ _ HI i), (nth_map_callback _ _ _ Hn).
  apply ack_exactly_once. assumption.
Qed.

(* ------------------------------------------------------------------------------------------ skip_isolated *)
(* a malformed or unknown-task message: nothing but the skip, no execution, no ack, normal return; and in any
   concurrent run every other message's sequence is its own callback sequence, whatever this one is *)
Theorem skip_isolated : forall c, c_kind c <> KOk ->
  (callback c = [FParseFail; FDone] \/ callback c = [FUnknownTask; FDone]) /\
  ~ In FTaskStart (callback c) /\ ~ In FAck (callback c) /\ last (callback c) (FCrash XHook) = FDone.
Proof.
  intros c K. unfold callback, callback_m. destruct (c_kind c); [congruence| |]; simpl;
    (split; [tauto|]); repeat split; intros H; intuition discriminate.
Qed.

Theorem others_unaffected : forall cs cs' g g' j,
  Interleave (map callback cs) g -> Interleave (map callback cs') g' ->
  nth_error cs j = nth_error cs' j -> project j g = project j g'.
Proof.
  intros cs cs' g g' j H H' E. rewrite (interleave_project _ _ H j), (interleave_project _ _ H' j).
  destruct (nth_error cs j) as [c|] eqn:N.
  - symmetry in E. rewrite (nth_map_callback _ _ _ N), (nth_map_callback _ _ _ E). reflexivity.
  - symmetry in E. rewrite !nth_overflow; [reflexivity| |]; rewrite map_length; apply nth_error_None; assumption.
Qed.
