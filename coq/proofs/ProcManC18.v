(* C18: shutdown branch, failure budget, reload-all - lemmas over the model of ProcMan.v *)
From Coq Require Import ZArith List Bool Arith Lia.
Import ListNotations.
From TQ Require Import ProcMan ProcManInv.

Ltac body_inv B :=
  match type of B with
  | body shutdown_live ?c ?aevs (?st, ?devs, ?rl) = _ =>
      let BC := fresh "BC" in
      pose proof (body_cases c aevs st devs rl) as BC; rewrite B in BC; inversion BC; subst; clear BC
  end.

Ltac rwq_in X := match goal with H : queue _ = _ :: _ |- _ => rewrite H in X end.

(* ------------------------------------------------------------------ counting *)
Lemma count_app A (f : A -> bool) a b : count f (a ++ b) = count f a + count f b.
Proof. unfold count. rewrite filter_app, app_length. auto. Qed.
Lemma existsb_app' A (f : A -> bool) a b : existsb f (a ++ b) = existsb f a || existsb f b.
Proof. apply existsb_app. Qed.

(* ------------------------------------------------------------------ the shutdown branch *)
Lemma die_not_reaped i ws j : pst (nth j ws dummy) <> Reaped -> pst (nth j (die i ws) dummy) <> Reaped.
Proof.
  unfold die. destruct (nth_error ws i) eqn:E; auto.
  apply (nth_error_nth' _ _ _ _ dummy) in E. destruct E as [E L]. subst p.
  destruct (Nat.eq_dec i j) as [->|NE].
  - rewrite nth_set_nth_eq; auto. unfold kill_proc. destruct (pst (nth j ws dummy)) eqn:P; simpl; congruence.
  - rewrite nth_set_nth_neq; auto.
Qed.

(* no startup window, hence no polled death (DieS), inside the shutdown branch: deliver_np *)
Lemma deliver_not_reaped evs : forall st j,
  pst (nth j (workers st) dummy) <> Reaped -> pst (nth j (workers (deliver_np st evs)) dummy) <> Reaped.
Proof.
  unfold deliver_np. induction evs as [|e evs IH]; intros st j H; simpl; auto.
  destruct e; simpl; auto; apply IH; simpl; auto. apply die_not_reaped; auto.
Qed.

Lemma shutdown_live_spec idxs : forall st aevs s e o,
  NoDup idxs ->
  (forall j, In j idxs -> j < length (workers st) /\ pid (nth j (workers st) dummy) <> 0) ->
  shutdown_live idxs st aevs = (s, e, o) ->
  exists js,
    e = map (fun j => Kill (pid (nth j (workers st) dummy))) js ++ [EExit ExitNone] /\
    incl js idxs /\ NoDup js /\
    (forall j, In j js -> pst (nth j (workers s) dummy) <> Reaped) /\
    (forall j, In j idxs -> pst (nth j (workers s) dummy) = Live -> In j js) /\
    (forall j, ~ In j idxs -> pst (nth j (workers st) dummy) <> Reaped -> pst (nth j (workers s) dummy) <> Reaped).
Proof.
  induction idxs as [|k ks IH]; intros st aevs s e o ND HP; simpl.
  - intro H; inversion H; subst. exists []. simpl. repeat split; auto using incl_nil_l, NoDup_nil; intros; tauto.
  - destruct (HP k (or_introl eq_refl)) as [Hk Hpid].
    apply Nat.eqb_neq in Hpid. rewrite Hpid.
    destruct (pop aevs) as [ev aevs'].
    destruct (deliver_np_spec ev st) as (A & _ & _ & _). set (st1 := deliver_np st ev) in *.
    destruct (is_alive (nth k (workers st1) dummy)) as [al w'] eqn:EA.
    apply is_alive_spec in EA. destruct EA as (PV & T & F).
    set (st2 := set_workers st1 (set_nth k w' (workers st1))).
    assert (E12 : evolves (workers st1) (workers st2)) by (simpl; apply evolves_set_nth; auto).
    assert (E2 : evolves (workers st) (workers st2)) by (eapply evolves_trans; eauto).
    assert (L1 : length (workers st1) = length (workers st)) by (symmetry; apply evolves_length; auto).
    inversion ND as [|? ? NI ND']; subst.
    assert (HP2 : forall j, In j ks -> j < length (workers st2) /\ pid (nth j (workers st2) dummy) <> 0).
    { intros j Hj. destruct (HP j (or_intror Hj)) as [X Y]. rewrite <- (evolves_length _ _ E2).
      split; auto. destruct (evolves_nth _ _ j E2) as [<- _]. auto. }
    assert (PID : forall j, pid (nth j (workers st2) dummy) = pid (nth j (workers st) dummy)).
    { intro j. destruct (evolves_nth _ _ j E2) as [-> _]. auto. }
    assert (K2 : nth k (workers st2) dummy = w') by (simpl; apply nth_set_nth_eq; lia).
    assert (FR : forall j, j <> k -> pst (nth j (workers st) dummy) <> Reaped -> pst (nth j (workers st2) dummy) <> Reaped).
    { intros j NE H. simpl. rewrite nth_set_nth_neq; auto. apply deliver_not_reaped; auto. }
    destruct al.
    + destruct (T eq_refl) as [LV ->]. rewrite LV.
      destruct (shutdown_live ks st2 aevs') as [[s0 e0] o0] eqn:R.
      intro H; inversion H; subst.
      destruct (IH _ _ _ _ _ ND' HP2 R) as (js & EQ & INC & NDj & NR & LI & FRM).
      exists (k :: js). repeat split.
      * simpl. f_equal.
        -- destruct (evolves_nth _ _ k A) as [-> _]. auto.
        -- rewrite EQ. f_equal. apply map_ext. intro j. rewrite PID. auto.
      * intros j [<-|Hj]; simpl; auto.
      * constructor; [intro Hk'; apply INC in Hk'; auto | auto].
      * intros j [<-|Hj]; auto. apply FRM; auto. rewrite K2. congruence.
      * intros j [<-|Hj] HL; simpl; auto.
      * intros j NIj HR. apply FRM; [simpl in NIj; tauto|]. apply FR; auto; simpl in NIj; intuition.
    + destruct (F eq_refl) as [NL RP].
      intro R.
      destruct (IH _ _ _ _ _ ND' HP2 R) as (js & EQ & INC & NDj & NR & LI & FRM).
      exists js. repeat split; auto.
      * rewrite EQ. f_equal. apply map_ext. intro j. rewrite PID. auto.
      * intros j Hj. simpl. right. auto.
      * intros j [<-|Hj] HL; auto.
        exfalso. apply shutdown_live_basic in R. destruct R as (EV & _).
        destruct (evolves_nth _ _ k EV) as [_ PL]. rewrite K2, RP, HL in PL. simpl in PL. auto.
      * intros j NIj HR. apply FRM; [simpl in NIj; tauto|]. apply FR; auto; simpl in NIj; intuition.
Qed.

Lemma count_kills f js (g : nat -> nat) :
  (forall p, f (Kill p) = false) -> f (EExit ExitNone) = false ->
  count f (map (fun j => Kill (g j)) js ++ [EExit ExitNone]) = 0.
Proof.
  intros HK HE. rewrite count_app. unfold count; simpl. rewrite HE. simpl.
  induction js; simpl; auto. rewrite HK. auto.
Qed.

(* what the drain loop does when it takes the Shutdown action *)
Definition shutdown_post (n : nat) (s : state) (suf : list effect) (o : outcome) : Prop :=
  o = Exited ExitNone /\
  exists js, suf = map (fun j => Kill (pid (nth j (workers s) dummy))) js ++ [EExit ExitNone] /\
    NoDup js /\ (forall j, In j js -> j < n /\ pst (nth j (workers s) dummy) <> Reaped) /\
    (forall j, j < n -> pst (nth j (workers s) dummy) = Live -> In j js).

Lemma after_shutdown_app acc l : after_shutdown acc = None -> after_shutdown (acc ++ l) = after_shutdown l.
Proof.
  induction acc as [|a acc IH]; simpl; auto. destruct a; auto. destruct a; auto. discriminate.
Qed.

Lemma handle_reload_effs i st :
  snd (handle_reload i st) = [] \/
  exists q, snd (handle_reload i st) = [Terminate q; Join q; Start i (next_pid st)].
Proof. unfold handle_reload. destruct (nth_error (workers st) i); simpl; eauto. Qed.

Definition sd_R (n : nat) (r : state * list effect * outcome) : Prop :=
  forall suf, after_shutdown (snd (fst r)) = Some suf -> shutdown_post n (fst (fst r)) suf (snd r).

Lemma drain_shutdown n c aevs fuel st devs s e o :
  Inv n st -> drain fuel c aevs (st, devs, []) = (s, e, o) -> o <> OutOfFuel ->
  forall suf, after_shutdown e = Some suf -> shutdown_post n s suf o.
Proof.
  intros I D O.
  apply (drain_ind c aevs (fun acc ls => after_shutdown acc = None /\ Inv n (ls_state ls)) (sd_R n))
    with (acc := []) in D; auto.
  - intros acc [[st0 devs0] rl] ls' e0 [AN I0] B. split.
    + rewrite after_shutdown_app; auto. body_inv B; auto.
      destruct (handle_reload_effs i (st3_of (deliver st0 (fst (pop devs0))) q (counted_of c ra))) as [->|[p ->]]; auto.
    + pose proof (body_Inv n c aevs _ I0) as X. rewrite B in X. auto.
  - intros acc [[st0 devs0] rl] s0 e0 o0 [AN I0] B suf. unfold sd_R. cbn [fst snd]. rewrite after_shutdown_app; auto.
    unfold ls_state in I0; cbn [fst] in I0.
    pose proof (Inv_deliver n st0 (fst (pop devs0)) I0) as I1.
    body_inv B; simpl; try discriminate.
    intro H; inversion H; subst. clear H.
    match goal with H : queue _ = Shutdown :: _ |- _ => pose proof (Inv_st3 n _ _ _ false I1 H) as I2 end.
    match goal with H : shutdown_live _ _ _ = _ |- _ => rename H into R end.
    pose proof (shutdown_live_basic _ _ _ _ _ _ R) as (EV & _ & _ & _ & ->).
    apply shutdown_live_spec in R.
    + destruct R as (js & EQ & INC & NDj & NR & LI & _).
      split; auto. exists js. repeat split; auto.
      * rewrite EQ. f_equal. apply map_ext. intro j. destruct (evolves_nth _ _ j EV) as [-> _]. auto.
      * apply INC in H. apply in_seq in H. rewrite (inv_len _ _ I1) in H. lia.
      * intros j Hj. apply LI. apply in_seq. rewrite (inv_len _ _ I1). lia.
    + apply seq_NoDup.
    + intros j Hj. apply in_seq in Hj. cbn [workers st3_of set_queue]. split; [lia|].
      destruct I1 as [L P _ _]. rewrite Forall_forall in P.
      assert (In (pid (nth j (workers (deliver st0 (fst (pop devs0)))) dummy)) (map pid (workers (deliver st0 (fst (pop devs0)))))).
      { apply in_map. apply nth_In. lia. }
      apply P in H. lia.
Qed.

Lemma tick_shutdown n c st te st' effs o :
  Inv n st -> tick c st te = (st', effs, o) ->
  forall suf, after_shutdown effs = Some suf -> shutdown_post n st' suf o.
Proof.
  intros I. rewrite tick_unfold. cbv zeta.
  destruct (drain _ c (te_alive te) _) as [[s e] o1] eqn:D.
  pose proof (tick_drain_ok _ _ _ _ _ _ D) as [NF _].
  intros H suf AS.
  assert (EE : e = effs) by (destruct o1; inversion H; auto). subst e.
  assert (X : shutdown_post n s suf o1).
  { eapply (drain_shutdown n c _ _ (deliver st (te_sleep te))); eauto. apply Inv_deliver; auto. }
  destruct X as [-> X]. inversion H; subst. split; auto.
Qed.

(* ------------------------------------------------------------------ failure budget *)
Definition budget_ok (c : cfg) (r0 : Z) (acc : list effect) (st : state) : Prop :=
  if (1 <=? max_fails c)%Z
  then restarts st = (r0 + Z.of_nat (count is_fail_got acc))%Z /\ (restarts st < max_fails c)%Z
  else restarts st = r0.

Lemma shutdown_effs_count (f : effect -> bool) idxs st aevs s e o :
  (forall p, f (Kill p) = false) -> f (EExit ExitNone) = false ->
  shutdown_live idxs st aevs = (s, e, o) -> count f e = 0.
Proof.
  intros HK HE. revert st aevs s e o. induction idxs as [|k ks IH]; intros st aevs s e o; simpl.
  - intro H; inversion H; subst. unfold count; simpl. rewrite HE; auto.
  - destruct (_ =? 0); [apply IH|]. destruct (pop aevs) as [ev aevs'].
    destruct (is_alive _) as [al w']. destruct al; [|apply IH].
    destruct (pst w').
    + destruct (shutdown_live ks _ aevs') as [[s0 e0] o0] eqn:R. intro H; inversion H; subst.
      unfold count in *; simpl. rewrite HK. eapply IH; eauto.
    + destruct (shutdown_live ks _ aevs') as [[s0 e0] o0] eqn:R. intro H; inversion H; subst.
      unfold count in *; simpl. rewrite HK. eapply IH; eauto.
    + intro H; inversion H; subst. unfold count; simpl. rewrite HK. auto.
Qed.

Ltac fin := unfold count in *; simpl in *; repeat split; intros; try discriminate; try congruence; try lia.

Lemma budget_arith c r0 k r i ra e' :
  (if (1 <=? max_fails c)%Z then r = (r0 + Z.of_nat k)%Z /\ (r < max_fails c)%Z else r = r0) ->
  (counted_of c ra = true -> (r + 1 < max_fails c)%Z) ->
  count is_fail_got e' = 0 ->
  if (1 <=? max_fails c)%Z
  then (if counted_of c ra then (r + 1)%Z else r) = (r0 + Z.of_nat (k + count is_fail_got (Got (ReloadOne i ra) :: e')))%Z /\
       ((if counted_of c ra then (r + 1)%Z else r) < max_fails c)%Z
  else (if counted_of c ra then (r + 1)%Z else r) = r0.
Proof.
  unfold counted_of, count. intros G H E.
  destruct (1 <=? max_fails c)%Z eqn:M; destruct ra; simpl in *; rewrite ?E; try lia.
Qed.

Lemma drain_budget c aevs fuel st devs s e o :
  budget_ok c (restarts st) [] st -> drain fuel c aevs (st, devs, []) = (s, e, o) -> o <> OutOfFuel ->
  restarts s = (restarts st + (if (1 <=? max_fails c)%Z then Z.of_nat (count is_fail_got e) else 0))%Z /\
  (o = Exited ExitFail -> (1 <= max_fails c)%Z /\ restarts s = max_fails c) /\
  (o <> Exited ExitFail -> (1 <= max_fails c)%Z -> (restarts s < max_fails c)%Z).
Proof.
  intros B0 D O. set (r0 := restarts st) in *.
  apply (drain_ind c aevs (fun acc ls => budget_ok c r0 acc (ls_state ls))
    (fun r => restarts (fst (fst r)) = (r0 + (if (1 <=? max_fails c)%Z then Z.of_nat (count is_fail_got (snd (fst r))) else 0))%Z /\
              (snd r = Exited ExitFail -> (1 <= max_fails c)%Z /\ restarts (fst (fst r)) = max_fails c) /\
              (snd r <> Exited ExitFail -> (1 <= max_fails c)%Z -> (restarts (fst (fst r)) < max_fails c)%Z)))
    with (acc := []) in D; auto.
  - intros acc [[st0 devs0] rl] ls' e0 G B. unfold ls_state, budget_ok in *. cbn [fst] in *.
    destruct (deliver_spec (fst (pop devs0)) st0) as (_ & _ & RS & _).
    rewrite count_app.
    body_inv B; cbn [fst restarts enq set_queue st3_of]; rewrite ?RS in *.
    + unfold count; simpl. rewrite Nat.add_0_r. auto.
    + apply budget_arith; auto.
    + destruct (handle_reload_frame i (st3_of (deliver st0 (fst (pop devs0))) q (counted_of c ra))) as (_ & _ & ->).
      cbn [restarts st3_of]. rewrite RS. apply budget_arith; auto.
      destruct (handle_reload_effs i (st3_of (deliver st0 (fst (pop devs0))) q (counted_of c ra))) as [->|[p ->]]; reflexivity.
  - intros acc [[st0 devs0] rl] s0 e0 o0 G B. unfold ls_state, budget_ok in *. cbn [fst snd] in *.
    destruct (deliver_spec (fst (pop devs0)) st0) as (_ & _ & RS & _).
    rewrite count_app.
    body_inv B; cbn [fst restarts enq set_queue st3_of]; rewrite ?RS in *.
    + destruct (1 <=? max_fails c)%Z eqn:M; fin.
    + match goal with H : (1 <= max_fails c)%Z |- _ => pose proof H as M; apply Z.leb_le in M; rewrite M in * end. fin.
    + match goal with H : shutdown_live _ _ _ = _ |- _ => rename H into R end.
      pose proof (shutdown_live_basic _ _ _ _ _ _ R) as (_ & RS2 & _ & _ & ->).
      apply (shutdown_effs_count is_fail_got) in R; auto.
      rewrite RS2. cbn [restarts set_queue]. rewrite RS.
      destruct (1 <=? max_fails c)%Z eqn:M; fin.
Qed.

Lemma tick_budget c st te st' effs o :
  ((1 <= max_fails c)%Z -> (restarts st < max_fails c)%Z) ->
  tick c st te = (st', effs, o) ->
  restarts st' = (restarts st + (if (1 <=? max_fails c)%Z then Z.of_nat (count is_fail_got effs) else 0))%Z /\
  (o = Exited ExitFail -> (1 <= max_fails c)%Z /\ restarts st' = max_fails c) /\
  (o <> Exited ExitFail -> (1 <= max_fails c)%Z -> (restarts st' < max_fails c)%Z).
Proof.
  intros HB. rewrite tick_unfold. cbv zeta.
  destruct (drain _ c (te_alive te) _) as [[s e] o1] eqn:D.
  pose proof (tick_drain_ok _ _ _ _ _ _ D) as [NF _].
  destruct (deliver_spec (te_sleep te) st) as (_ & _ & RS & _).
  apply drain_budget in D; auto.
  2:{ unfold budget_ok, count. simpl. rewrite RS. destruct (1 <=? max_fails c)%Z eqn:M; auto.
      apply Z.leb_le in M. split; [lia | auto]. }
  rewrite RS in D. destruct D as (A & B & C).
  destruct o1; intro H; inversion H; subst; auto.
  destruct (scan_spec (seq 0 (length (workers s))) s (te_alive te)) as (_ & -> & _).
  repeat split; auto; try discriminate.
Qed.

Definition budget_J (c : cfg) (acc : list (list effect)) (st : state) : Prop :=
  restarts st = (if (1 <=? max_fails c)%Z then Z.of_nat (count is_fail_got (concat acc)) else 0)%Z /\
  ((1 <= max_fails c)%Z -> (restarts st < max_fails c)%Z).

Lemma count_init c p0 : count is_fail_got (snd (init c p0)) = 0.
Proof. unfold init; simpl. unfold count. induction (seq 0 (nworkers c)); simpl; auto. Qed.

Lemma run_fail_exit c p0 hist l o s :
  run c p0 hist = (l, o, s) ->
  (o = Exited ExitFail -> (1 <= max_fails c)%Z /\ Z.of_nat (count is_fail_got (concat l)) = max_fails c) /\
  (o <> Exited ExitFail -> (max_fails c < 1)%Z \/ (Z.of_nat (count is_fail_got (concat l)) < max_fails c)%Z).
Proof.
  rewrite run_unfold.
  destruct (run_from c (fst (init c p0)) hist) as [[l1 o1] s1] eqn:R. intro H; inversion H; subst. clear H.
  change (map (fun i => Start i (p0 + i)) (seq 0 (nworkers c))) with (snd (init c p0)) in *.
  assert (J0 : budget_J c [snd (init c p0)] (fst (init c p0))).
  { unfold budget_J. split.
    - change (concat [snd (init c p0)]) with (snd (init c p0) ++ []). rewrite app_nil_r, count_init.
      destruct (1 <=? max_fails c)%Z; reflexivity.
    - intro; simpl; lia. }
  assert (STEP : forall acc st te st' effs, budget_J c acc st -> tick c st te = (st', effs, Cont) -> budget_J c (acc ++ [effs]) st').
  { intros acc st te st' effs [JA JB] T. apply tick_budget in T; auto. destruct T as (A & _ & C).
    unfold budget_J. rewrite concat_app, count_app. simpl. rewrite app_nil_r. split.
    - rewrite A, JA. destruct (1 <=? max_fails c)%Z; lia.
    - apply C. discriminate. }
  destruct (run_from_ind c (budget_J c) STEP hist [snd (init c p0)] _ _ _ _ J0 R)
    as [[-> [JA JB]]|(l0 & st0 & te & effs & -> & [JA JB] & T & NC)].
  - change ([snd (init c p0)] ++ l1) with (snd (init c p0) :: l1) in JA. split; [discriminate|]. intros _.
    destruct (1 <=? max_fails c)%Z eqn:M.
    + apply Z.leb_le in M. right. rewrite <- JA. auto.
    + apply Z.leb_gt in M. left; lia.
  - apply tick_budget in T; auto. destruct T as (A & B & C).
    change (snd (init c p0) :: l0 ++ [effs]) with (([snd (init c p0)] ++ l0) ++ [effs]).
    rewrite concat_app, count_app. change (concat [effs]) with (effs ++ []). rewrite app_nil_r.
    split.
    + intro E. destruct (B E) as [M X]. split; auto.
      rewrite A, JA in X. apply Z.leb_le in M. rewrite M in X. lia.
    + intro NE. destruct (Z_le_gt_dec 1 (max_fails c)) as [M|M]; [right | left; lia].
      assert (M' : (1 <=? max_fails c)%Z = true) by (apply Z.leb_le; lia).
      specialize (C NE M). rewrite A, JA, M' in C. lia.
Qed.

(* ------------------------------------------------------------------ reload-all *)
Definition mem (s : nat) (rl : list nat) : bool := existsb (Nat.eqb s) rl.

Definition ra_G (n : nat) (acc : list effect) (ls : loop_state) : Prop :=
  let '(st, _, rl) := ls in
  Inv n st /\
  (forall s, s < n -> count (is_start_of s) acc = if mem s rl then 1 else 0) /\
  (existsb is_got_all acc = true -> forall s, s < n -> mem s rl = true \/ In (ReloadOne s true) (queue st)).

Definition ra_R (n : nat) (r : state * list effect * outcome) : Prop :=
  let '(_, effs, o) := r in
  existsb is_got_all effs = true ->
  forall s, s < n -> match o with Cont => count (is_start_of s) effs = 1 | _ => count (is_start_of s) effs <= 1 end.

Lemma mem_sym s i rl : mem s (i :: rl) = (s =? i) || mem s rl.
Proof. reflexivity. Qed.

Lemma drain_reload_all n c aevs fuel st devs s e o :
  Inv n st -> drain fuel c aevs (st, devs, []) = (s, e, o) -> o <> OutOfFuel -> ra_R n (s, e, o).
Proof.
  intros I D O.
  apply (drain_ind c aevs (ra_G n) (ra_R n)) with (acc := []) in D; auto.
  - (* step *)
    intros acc [[st0 devs0] rl] ls' e0 (I0 & CN & QA) B.
    pose proof (Inv_deliver n st0 (fst (pop devs0)) I0) as I1.
    pose proof (body_Inv n c aevs (st0, devs0, rl) I0) as I'. rewrite B in I'.
    destruct (deliver_spec (fst (pop devs0)) st0) as (_ & DQ & _ & _).
    assert (QA1 : existsb is_got_all acc = true -> forall s, s < n -> mem s rl = true \/
                   In (ReloadOne s true) (queue (deliver st0 (fst (pop devs0))))).
    { intros H s0 Hs. destruct (QA H s0 Hs); auto. right. rewrite DQ. apply in_or_app; auto. }
    clear QA DQ.
    body_inv B; unfold ra_G; (split; [exact I'|]); split.
    + intros s0 Hs. rewrite count_app. unfold count at 2; simpl. rewrite Nat.add_0_r. auto.
    + intros _ s0 Hs. right. simpl. apply in_or_app. right. unfold ones. apply in_map_iff. exists s0. split; auto.
      apply in_seq. rewrite (inv_len _ _ I1). lia.
    + intros s0 Hs. rewrite count_app. unfold count at 2; simpl. rewrite Nat.add_0_r. auto.
    + rewrite existsb_app'. simpl. rewrite orb_false_r. intros H s0 Hs.
      destruct (QA1 H s0 Hs) as [X|X]; auto. rwq_in X. destruct X as [X|X]; [|right; exact X].
      inversion X; subst. left. assumption.
    + intros s0 Hs. rewrite count_app.
      match goal with H : queue _ = ReloadOne i ra :: q |- _ => rename H into Q end.
      assert (Hi : i < n). { destruct I1 as [_ _ _ W]. apply (W i ra). rewrite Q; simpl; auto. }
      destruct (handle_reload_spec n i _ (Inv_st3 n _ _ _ (counted_of c ra) I1 Q) Hi) as (st4 & E & _).
      rewrite E. cbn [snd]. rewrite mem_sym, (CN s0 Hs). unfold count. unfold mem in *. simpl.
      rewrite (Nat.eqb_sym s0 i).
      destruct (i =? s0) eqn:EQ; simpl.
      * apply Nat.eqb_eq in EQ. subst s0.
        match goal with H : existsb (Nat.eqb i) rl = false |- _ => rewrite H end. reflexivity.
      * rewrite Nat.add_0_r. reflexivity.
    + rewrite existsb_app'. intros H s0 Hs.
      match goal with H : queue _ = ReloadOne i ra :: q |- _ => rename H into Q end.
      assert (Hi : i < n). { destruct I1 as [_ _ _ W]. apply (W i ra). rewrite Q; simpl; auto. }
      destruct (handle_reload_spec n i _ (Inv_st3 n _ _ _ (counted_of c ra) I1 Q) Hi) as (st4 & E & _ & QE & _).
      rewrite E in *. cbn [fst snd] in *. rewrite QE. cbn [queue st3_of].
      simpl in H. rewrite orb_false_r in H.
      destruct (QA1 H s0 Hs) as [X|X].
      * left. rewrite mem_sym, X. apply orb_true_r.
      * rewrite Q in X. destruct X as [X|X]; [|right; exact X].
        inversion X; subst. left. rewrite mem_sym, Nat.eqb_refl. reflexivity.
  - (* stop *)
    intros acc [[st0 devs0] rl] s0 e0 o0 (I0 & CN & QA) B.
    pose proof (Inv_deliver n st0 (fst (pop devs0)) I0) as I1.
    destruct (deliver_spec (fst (pop devs0)) st0) as (_ & DQ & _ & _).
    assert (LE : forall s, s < n -> count (is_start_of s) acc <= 1).
    { intros s1 Hs. rewrite (CN s1 Hs). destruct (mem s1 rl); lia. }
    body_inv B; unfold ra_R.
    + rewrite app_nil_r. intros H s1 Hs. rewrite (CN s1 Hs).
      destruct (QA H s1 Hs) as [->|X]; auto.
      exfalso. assert (IN : In (ReloadOne s1 true) (queue (deliver st0 (fst (pop devs0))))).
      { rewrite DQ. apply in_or_app; auto. }
      match goal with HE : queue _ = [] |- _ => rewrite HE in IN end. destruct IN.
    + intros _ s1 Hs. rewrite count_app. unfold count at 2; simpl. rewrite Nat.add_0_r. auto.
    + intros _ s1 Hs. rewrite count_app.
      match goal with H : shutdown_live _ _ _ = _ |- _ => rename H into R end.
      pose proof (shutdown_live_basic _ _ _ _ _ _ R) as (_ & _ & _ & _ & ->).
      apply (shutdown_effs_count (is_start_of s1)) in R; auto.
      unfold count in *; simpl. rewrite R, Nat.add_0_r. auto.
  - (* initially *)
    unfold ra_G. split; [exact I|]. split; [intros; reflexivity | simpl; discriminate].
Qed.

Lemma tick_reload_all n c st te st' effs o :
  Inv n st -> tick c st te = (st', effs, o) -> ra_R n (st', effs, o).
Proof.
  intros I. rewrite tick_unfold. cbv zeta.
  destruct (drain _ c (te_alive te) _) as [[s e] o1] eqn:D.
  pose proof (tick_drain_ok _ _ _ _ _ _ D) as [NF _].
  apply (drain_reload_all n) in D; auto using Inv_deliver.
  destruct o1; intro H; inversion H; subst; exact D.
Qed.
