(* Monad laws of the statement monad PyStm.v, generic in the effect type E and the exception type X (the same lemmas
   PyPreludePipelineProofs.v has for Pipeline.v's own monad).  Independent of any generated text; used by the proofs of
   the source-tie units that live over PyStm.v (coq/srcproofs/Src_run_task_*.v). *)
From Coq Require Import List Bool.
From TQ Require Import PyStm.
Import ListNotations.

Section Laws.
Context {E X : Type}.
Notation M := (PyStm.M E X).

Lemma bind_ret_l : forall {A B} (v : A) (f : A -> M B), bind (ret v) f = f v.
Proof. intros. unfold bind, ret. destruct (f v). reflexivity. Qed.

Lemma bind_ret_r : forall {A} (a : M A), bind a (fun v => ret v) = a.
Proof. intros A [es [v|x]]; cbn; [rewrite app_nil_r|]; reflexivity. Qed.

Lemma bind_assoc : forall {A B C} (a : M A) (f : A -> M B) (g : B -> M C),
  bind (bind a f) g = bind a (fun v => bind (f v) g).
Proof.
  intros A B C [es [v|x]] f g; cbn; [|reflexivity].
  destruct (f v) as [es1 [v1|x1]]; cbn; [|reflexivity].
  destruct (g v1) as [es2 o2]. rewrite app_assoc. reflexivity.
Qed.

Lemma bind_ext : forall {A B} (a : M A) (f g : A -> M B), (forall v, f v = g v) -> bind a f = bind a g.
Proof. intros A B [es [v|x]] f g H; cbn; [rewrite H|]; reflexivity. Qed.

Lemma sbind_lift : forall {R A B} (a : M A) (f : A -> stm E X R B), sbind (lift a) f = bind a f.
Proof.
  intros. unfold sbind, lift. rewrite bind_assoc. apply bind_ext. intros v. rewrite bind_ret_l. reflexivity.
Qed.

Lemma lift_bind : forall {R A B} (a : M A) (f : A -> M B), @lift E X R _ (bind a f) = bind a (fun v => lift (f v)).
Proof. intros. unfold lift. apply bind_assoc. Qed.

Lemma sbind_next_l : forall {R A B} (v : A) (f : A -> stm E X R B), sbind (next v) f = f v.
Proof. intros. unfold sbind, next. rewrite bind_ret_l. reflexivity. Qed.
End Laws.

Lemma if_same : forall {A} (b : bool) (x : A), (if b then x else x) = x.
Proof. intros A [|] x; reflexivity. Qed.

