From Coq Require Import ZArith Lia Bool ZifyBool.
From TQ Require Import SchedDelay.
Open Scope Z_scope.
Ltac Zify.zify_post_hook ::= Z.to_euclidean_division_equations.

Ltac case_if := match goal with |- context [if ?b then _ else _] => destruct b eqn:? end.

Lemma horizon_next now : horizon now = next_boundary now + US.
Proof. unfold horizon, next_boundary, floor_minute, MIN, US. lia. Qed.

Lemma next_boundary_gt now : now < next_boundary now <= now + MIN.
Proof. unfold next_boundary, floor_minute, MIN, US. lia. Qed.

Lemma delay_past T now : T <= now -> delay T now = Some 0.
Proof. unfold delay. intros. case_if; [reflexivity|lia]. Qed.

Lemma delay_far T now : next_boundary now + US < T -> delay T now = None.
Proof.
  intros H. pose proof (next_boundary_gt now) as Hb. unfold delay. rewrite horizon_next.
  unfold MIN, US in *. case_if; [lia|]. case_if; [lia|reflexivity].
Qed.

Lemma delay_near T now : now < T <= next_boundary now + US ->
  exists d, delay T now = Some d /\ T <= now + d * US < T + US /\ 0 < d <= 61.
Proof.
  intros [H1 H2]. pose proof (next_boundary_gt now) as Hb. unfold delay. rewrite horizon_next.
  unfold MIN, US in *. case_if; [lia|]. case_if; [|lia].
  case_if; eexists; (split; [reflexivity|]); lia.
Qed.

Lemma cases_exhaustive_exclusive T now :
  (T <= now /\ ~ (now < T <= next_boundary now + US) /\ ~ (next_boundary now + US < T)) \/
  (~ T <= now /\ (now < T <= next_boundary now + US) /\ ~ (next_boundary now + US < T)) \/
  (~ T <= now /\ ~ (now < T <= next_boundary now + US) /\ (next_boundary now + US < T)).
Proof. pose proof (next_boundary_gt now). unfold MIN, US in *. lia. Qed.

(* the executable form of the statement used on implementation observations is the statement *)
Lemma check_sound T now obs : C14_check T now obs = true <->
  (T <= now -> obs = Some 0) /\
  (next_boundary now + US < T -> obs = None) /\
  (now < T <= next_boundary now + US -> exists d, obs = Some d /\ T <= now + d * US < T + US).
Proof.
  pose proof (next_boundary_gt now) as Hb. unfold C14_check. unfold MIN, US in *.
  case_if.
  - destruct obs as [[|p|p]|]; split; try discriminate; try (intros; repeat split; intros; try lia; reflexivity).
    all: try (intros [Ha _]; specialize (Ha ltac:(lia)); discriminate).
  - case_if.
    + destruct obs as [d|]; split; try discriminate.
      * intros [_ [Hb2 _]]. specialize (Hb2 ltac:(lia)). discriminate.
      * intros _. repeat split; intros; try lia; reflexivity.
      * intros _. reflexivity.
    + destruct obs as [d|]; split; try discriminate.
      * intros Hc. apply andb_true_iff in Hc. repeat split; intros; try lia.
        exists d. split; [reflexivity|lia].
      * intros [_ [_ Hc]]. destruct (Hc ltac:(lia)) as [d' [Hd Hr]]. inversion Hd; subst. lia.
      * intros [_ [_ Hc]]. destruct (Hc ltac:(lia)) as [d' [Hd Hr]]. discriminate.
Qed.

Lemma model_meets_check T now : C14_check T now (delay T now) = true.
Proof.
  apply check_sound. repeat split.
  - apply delay_past.
  - apply delay_far.
  - intros H. destruct (delay_near T now H) as [d [Hd [Hr _]]]. exists d. auto.
Qed.
