(* Proofs about coq/theories/Params.v (property C08). stdlib only. *)
From Coq Require Import List Bool Arith Lia.
From TQ Require Import Params.
Import ListNotations.

(* ------------------------------------------------------------------ dictionaries *)
Section DictLemmas.
  Variable V : Type.
  Implicit Types d : list (nat * V).

  Lemma dget_dset_same : forall d k v, dget (dset d k v) k = Some v.
  Proof.
    induction d as [|[k' v'] d IH]; intros k v; simpl.
    - now rewrite Nat.eqb_refl.
    - destruct (k' =? k) eqn:E; simpl; rewrite E; auto.
  Qed.

  Lemma dget_dset_other : forall d k k' v, k <> k' -> dget (dset d k v) k' = dget d k'.
  Proof.
    induction d as [|[k0 v0] d IH]; intros k k' v H; simpl.
    - destruct (k =? k') eqn:E; auto. apply Nat.eqb_eq in E. contradiction.
    - destruct (k0 =? k) eqn:E; simpl.
      + apply Nat.eqb_eq in E. subst k0. destruct (k =? k') eqn:E'; auto.
        apply Nat.eqb_eq in E'. contradiction.
      + destruct (k0 =? k'); auto.
  Qed.

  Lemma dset_same : forall d k v, dget d k = Some v -> dset d k v = d.
  Proof.
    induction d as [|[k0 v0] d IH]; intros k v H; simpl in *; [discriminate|].
    destruct (k0 =? k) eqn:E.
    - now inversion H.
    - now rewrite IH.
  Qed.

  Lemma keys_dset_congr : forall d1 d2 k (v1 v2 : V),
    map fst d1 = map fst d2 -> map fst (dset d1 k v1) = map fst (dset d2 k v2).
  Proof.
    induction d1 as [|[k1 x1] d1 IH]; intros [|[k2 x2] d2] k v1 v2 H; simpl in *; try discriminate; auto.
    inversion H; subst k2. destruct (k1 =? k); simpl; f_equal; auto.
  Qed.

  Lemma keys_dupdate_congr : forall e1 e2 d1 d2,
    map fst e1 = map fst e2 -> map fst d1 = map fst d2 ->
    map fst (dupdate d1 e1) = map fst (dupdate d2 e2).
  Proof.
    unfold dupdate.
    induction e1 as [|[k1 x1] e1 IH]; intros [|[k2 x2] e2] d1 d2 He Hd; simpl in *; try discriminate; auto.
    inversion He; subst k2. apply IH; auto. now apply keys_dset_congr.
  Qed.

  Lemma dget_none_notin : forall d k, dget d k = None <-> ~ In k (map fst d).
  Proof.
    induction d as [|[k0 v0] d IH]; intros k; simpl.
    - tauto.
    - destruct (k0 =? k) eqn:E.
      + apply Nat.eqb_eq in E. split; [discriminate|]. intros H. exfalso. apply H. now left.
      + apply Nat.eqb_neq in E. rewrite IH. tauto.
  Qed.

  Lemma dget_dupdate : forall e d k, NoDup (map fst e) ->
    dget (dupdate d e) k = match dget e k with Some v => Some v | None => dget d k end.
  Proof.
    unfold dupdate.
    induction e as [|[k0 v0] e IH]; intros d k ND; simpl; auto.
    inversion ND as [|? ? Hni ND']; subst. rewrite IH by assumption.
    destruct (k0 =? k) eqn:E.
    - apply Nat.eqb_eq in E. subst k0.
      assert (dget e k = None) as -> by now apply dget_none_notin.
      apply dget_dset_same.
    - apply Nat.eqb_neq in E. destruct (dget e k); auto. now apply dget_dset_other.
  Qed.

  Lemma dmem_keys : forall d1 d2 k, map fst d1 = map fst d2 -> dmem d1 k = dmem d2 k.
  Proof.
    unfold dmem.
    induction d1 as [|[k1 x1] d1 IH]; intros [|[k2 x2] d2] k H; simpl in *; try discriminate; auto.
    inversion H; subst k2. destruct (k1 =? k); auto.
  Qed.

  Lemma forallb_keys : forall (f : nat -> bool) d1 d2, map fst d1 = map fst d2 ->
    forallb (fun e => f (fst e)) d1 = forallb (fun e => f (fst e)) d2.
  Proof.
    induction d1 as [|[k1 x1] d1 IH]; intros [|[k2 x2] d2] H; simpl in *; try discriminate; auto.
    inversion H; subst k2. f_equal; auto.
  Qed.

  Lemma set_nth_app : forall (pre rest : list V) v x,
    set_nth (pre ++ v :: rest) (length pre) x = pre ++ x :: rest.
  Proof. induction pre; intros; simpl; auto. now rewrite IHpre. Qed.

  Lemma nth_error_mid : forall (pre rest : list V) v, nth_error (pre ++ v :: rest) (length pre) = Some v.
  Proof. induction pre; intros; simpl; auto. Qed.
End DictLemmas.

Lemma nodupb_NoDup : forall l, nodupb l = true -> NoDup l.
Proof.
  induction l as [|x t IH]; simpl; intros H; constructor.
  - apply andb_true_iff in H as [H _]. apply negb_true_iff in H. intros Hin.
    assert (existsb (Nat.eqb x) t = true) as E.
    { apply existsb_exists. exists x. split; auto. apply Nat.eqb_refl. }
    congruence.
  - apply IH. now apply andb_true_iff in H as [_ H].
Qed.

(* ------------------------------------------------------------------ parse_params = pointwise conversion *)
Section ParseChar.
  Variable value : Type.
  Variable is_none : value -> bool.
  Variable ty : Type.
  Variable is_any : ty -> bool.
  Variable conv : ty -> value -> cres value.
  (* pydantic: validating against typing.Any returns the input *)
  Hypothesis conv_any : forall t v, is_any t = true -> conv t v = CVal v.
  (* no conversion escapes with an exception other than ValueError / RuntimeError *)
  Hypothesis conv_no_raise : forall t v, conv t v <> CRaise.

  Notation expect := (expect value is_none ty is_any conv).
  Notation parse_loop := (parse_loop value is_none ty conv).
  Notation param := (param value).
  Implicit Types ps : list param.
  Implicit Types h : list (nat * ty).
  Implicit Types kw : list (nat * value).

  Definition kwconv h (ns : list nat) kw : list (nat * value) :=
    map (fun e => if existsb (Nat.eqb (fst e)) ns then (fst e, expect h (fst e) (snd e)) else e) kw.

  Fixpoint zipconv h ps (vs : list value) : list value :=
    match ps, vs with
    | p :: ps', v :: vs' => expect h (pname p) v :: zipconv h ps' vs'
    | _, _ => vs
    end.

  Lemma expect_unannotated : forall h n v, dget h n = None -> expect h n v = v.
  Proof. intros. unfold Params.expect. now rewrite H. Qed.

  Lemma expect_any : forall h n t v, dget h n = Some t -> is_any t = true -> expect h n v = v.
  Proof. intros. unfold Params.expect. rewrite H, H0. reflexivity. Qed.

  Lemma expect_none : forall h n v, is_none v = true -> expect h n v = v.
  Proof. intros. unfold Params.expect. destruct (dget h n); auto. rewrite H, orb_true_r. reflexivity. Qed.

  Lemma expect_conv : forall h n t v, dget h n = Some t -> is_any t = false -> is_none v = false ->
    expect h n v = match conv t v with CVal w => w | _ => v end.
  Proof. intros. unfold Params.expect. rewrite H, H0, H1. reflexivity. Qed.

  (* one iteration of the loop, positional branch *)
  Lemma step_pos : forall p ps k h args kw v, nth_error args k = Some v ->
    parse_loop (p :: ps) k h args kw = parse_loop ps (S k) h (set_nth args k (expect h (pname p) v)) kw.
  Proof.
    intros p ps k h args kw v Hn. simpl. unfold Params.expect.
    assert (Hs : set_nth args k v = args).
    { clear -Hn. revert k Hn. induction args as [|a args IH]; intros [|k] H; simpl in *; try discriminate; auto.
      - now inversion H.
      - now rewrite IH. }
    destruct (dget h (pname p)) as [t|]; [|now rewrite Hs].
    rewrite Hn. destruct (is_none v) eqn:En.
    - now rewrite orb_true_r, Hs.
    - rewrite orb_false_r. destruct (is_any t) eqn:Ea.
      + rewrite (conv_any t v Ea). reflexivity.
      + destruct (conv t v) eqn:Ec; [reflexivity | now rewrite Hs | exfalso; eapply conv_no_raise; eauto].
  Qed.

  Lemma step_kw_none : forall p ps k h args kw, nth_error args k = None -> dget kw (pname p) = None ->
    parse_loop (p :: ps) k h args kw = parse_loop ps (S k) h args kw.
  Proof. intros. simpl. rewrite H, H0. now destruct (dget h (pname p)). Qed.

  Lemma step_kw_some : forall p ps k h args kw v, nth_error args k = None -> dget kw (pname p) = Some v ->
    parse_loop (p :: ps) k h args kw = parse_loop ps (S k) h args (dset kw (pname p) (expect h (pname p) v)).
  Proof.
    intros p ps k h args kw v Hn Hg. simpl. unfold Params.expect. rewrite Hn, Hg.
    pose proof (dset_same _ _ _ _ Hg) as Hs.
    destruct (dget h (pname p)) as [t|]; [|now rewrite Hs].
    destruct (is_none v) eqn:En.
    - now rewrite orb_true_r, Hs.
    - rewrite orb_false_r. destruct (is_any t) eqn:Ea.
      + rewrite (conv_any t v Ea). reflexivity.
      + destruct (conv t v) eqn:Ec; [reflexivity | now rewrite Hs | exfalso; eapply conv_no_raise; eauto].
  Qed.

  Lemma keys_kwconv : forall h ns kw, map fst (kwconv h ns kw) = map fst kw.
  Proof.
    intros. unfold kwconv. rewrite map_map. apply map_ext. intros e.
    now destruct (existsb (Nat.eqb (fst e)) ns).
  Qed.

  Lemma kwconv_nil : forall h kw, kwconv h [] kw = kw.
  Proof. intros. unfold kwconv. simpl. apply map_id. Qed.

  Lemma kwconv_cons_absent : forall h n ns kw, dget kw n = None -> kwconv h (n :: ns) kw = kwconv h ns kw.
  Proof.
    intros h n ns. induction kw as [|[k0 v0] kw IH]; intros H; simpl in *; auto.
    destruct (k0 =? n) eqn:E; [discriminate|]. rewrite IH by assumption. reflexivity.
  Qed.

  Lemma kwconv_cons_present : forall h n ns kw v, ~ In n ns -> NoDup (map fst kw) -> dget kw n = Some v ->
    kwconv h ns (dset kw n (expect h n v)) = kwconv h (n :: ns) kw.
  Proof.
    intros h n ns kw v Hn. induction kw as [|[k0 v0] kw IH]; intros ND Hg; simpl in *; [discriminate|].
    inversion ND as [|? ? Hni ND']; subst.
    destruct (k0 =? n) eqn:E.
    - apply Nat.eqb_eq in E. subst k0. inversion Hg; subst v0. simpl.
      assert (existsb (Nat.eqb n) ns = false) as ->.
      { apply not_true_is_false. intros Hex. apply existsb_exists in Hex as [x [Hx Hx']].
        apply Nat.eqb_eq in Hx'. subst x. contradiction. }
      f_equal. symmetry. apply kwconv_cons_absent. now apply dget_none_notin.
    - simpl. f_equal. now apply IH.
  Qed.

  Lemma dget_kwconv : forall h ns kw n,
    dget (kwconv h ns kw) n =
    match dget kw n with
    | Some v => Some (if existsb (Nat.eqb n) ns then expect h n v else v)
    | None => None
    end.
  Proof.
    intros h ns. induction kw as [|[k0 v0] kw IH]; intros n; simpl; auto.
    destruct (existsb (Nat.eqb k0) ns) eqn:Ex; simpl; destruct (k0 =? n) eqn:E; auto.
    - apply Nat.eqb_eq in E. subst k0. now rewrite Ex.
    - apply Nat.eqb_eq in E. subst k0. now rewrite Ex.
  Qed.

  (* once the positional arguments are exhausted every remaining parameter goes through kwargs *)
  Lemma parse_kw_phase : forall ps k h args kw, length args <= k ->
    NoDup (map pname ps) -> NoDup (map fst kw) ->
    parse_loop ps k h args kw = POk args (kwconv h (map pname ps) kw).
  Proof.
    induction ps as [|p ps IH]; intros k h args kw Hl ND NK.
    - simpl. now rewrite kwconv_nil.
    - assert (Hn : nth_error args k = None) by now apply nth_error_None.
      simpl map. inversion ND as [|? ? Hni ND']; subst.
      destruct (dget kw (pname p)) as [v|] eqn:Hg.
      + rewrite (step_kw_some _ _ _ _ _ _ _ Hn Hg). rewrite IH; auto.
        * now rewrite kwconv_cons_present.
        * erewrite keys_dset_congr; [|reflexivity]. now rewrite (dset_same _ _ _ _ Hg).
      + rewrite (step_kw_none _ _ _ _ _ _ Hn Hg). rewrite IH; auto. now rewrite kwconv_cons_absent.
  Qed.

  (* what parse_params does, for EVERY signature (var-positional and var-keyword included):
     args[i] is converted with the annotation of the i-th parameter of the signature,
     kwargs[n] with the annotation of parameter n if that parameter's index is >= len(args) *)
  Lemma parse_char_gen : forall ps pre rest h kw, NoDup (map pname ps) -> NoDup (map fst kw) ->
    parse_loop ps (length pre) h (pre ++ rest) kw =
    POk (pre ++ zipconv h ps rest) (kwconv h (map pname (skipn (length rest) ps)) kw).
  Proof.
    induction ps as [|p ps IH]; intros pre rest h kw ND NK.
    - simpl. destruct rest; simpl; now rewrite kwconv_nil.
    - destruct rest as [|v rest].
      + rewrite app_nil_r. simpl skipn. simpl zipconv. rewrite app_nil_r. apply parse_kw_phase; auto.
      + rewrite (step_pos _ _ _ _ _ _ v) by apply nth_error_mid.
        rewrite set_nth_app. inversion ND; subst.
        replace (pre ++ expect h (pname p) v :: rest) with ((pre ++ [expect h (pname p) v]) ++ rest)
          by (rewrite <- app_assoc; reflexivity).
        replace (S (length pre)) with (length (pre ++ [expect h (pname p) v]))
          by (rewrite app_length; simpl; lia).
        rewrite IH; auto. simpl. now rewrite <- app_assoc.
  Qed.

  Theorem parse_char : forall (sg : list param) h args kw, NoDup (map pname sg) -> NoDup (map fst kw) ->
    parse_params value is_none ty conv (Some sg) h args kw =
    POk (zipconv h sg args) (kwconv h (map pname (skipn (length args) sg)) kw).
  Proof. intros. unfold parse_params. exact (parse_char_gen sg [] args h kw H H0). Qed.

  (* ---------------------------------------------------------------- binding *)
  Notation bind_params := (bind_params value).
  Notation pycall := (pycall value).
  Notation expected_rcv := (expected_rcv value is_none ty is_any conv).

  Lemma all_kw_rejects_positionals : forall whole ps v args K, all_kw value ps = true ->
    bind_params whole ps (v :: args) K = None.
  Proof.
    induction ps as [|p ps IH]; intros v args K H; simpl in *; auto.
    destruct (pkind p); try discriminate.
    destruct (fill_kw value p K); auto. now rewrite IH.
  Qed.

  Lemma ocons_some : forall A (x : A) o l, ocons x o = Some l -> exists l', o = Some l' /\ l = x :: l'.
  Proof. intros A x [l'|] l H; simpl in H; inversion H. eauto. Qed.

  (* parameters filled from keywords only: the (dependency kwargs updated with the message kwargs) dict *)
  Lemma bind_kw_phase : forall whole D h kw NS ps b,
    NoDup (map fst kw) ->
    (forall p, In p ps -> (pkind p = KPos \/ pkind p = KKw) /\ In (pname p) NS) ->
    bind_params whole ps [] (dupdate D kw) = Some b ->
    bind_params whole ps [] (dupdate D (kwconv h NS kw)) = Some (map2 (expected_rcv h kw) ps b).
  Proof.
    intros whole D h kw NS. induction ps as [|p ps IH]; intros b NK Hps Hb.
    - simpl in *. inversion Hb. reflexivity.
    - assert (Hp : (pkind p = KPos \/ pkind p = KKw) /\ In (pname p) NS) by (apply Hps; now left).
      destruct Hp as [Hk Hin].
      assert (Hfill : forall r, fill_kw value p (dupdate D kw) = Some r ->
                fill_kw value p (dupdate D (kwconv h NS kw)) = Some (expected_rcv h kw p r)).
      { intros r. unfold fill_kw. rewrite !dget_dupdate by (try rewrite keys_kwconv; assumption).
        rewrite dget_kwconv. unfold Params.expected_rcv, dmem.
        assert (Hex : existsb (Nat.eqb (pname p)) NS = true).
        { apply existsb_exists. exists (pname p). split; auto. apply Nat.eqb_refl. }
        rewrite Hex. destruct (dget kw (pname p)) as [v|].
        - intros E; inversion E; subst. reflexivity.
        - destruct (dget D (pname p)).
          + intros E; inversion E; subst. reflexivity.
          + destruct (pdefault p); intros E; inversion E. reflexivity. }
      assert (Hrest : forall b', bind_params whole ps [] (dupdate D kw) = Some b' ->
                bind_params whole ps [] (dupdate D (kwconv h NS kw)) = Some (map2 (expected_rcv h kw) ps b')).
      { intros b' Hb'. apply IH; auto. intros q Hq. apply Hps. now right. }
      simpl in Hb |- *.
      destruct Hk as [Hk|Hk]; rewrite Hk in *;
        (destruct (fill_kw value p (dupdate D kw)) as [r|] eqn:Ef; [|discriminate];
         rewrite (Hfill r eq_refl);
         apply ocons_some in Hb as [b' [Hb' ->]];
         rewrite (Hrest b' Hb'); reflexivity).
  Qed.

  Lemma all_kw_kinds : forall ps, all_kw value ps = true -> forall q, In q ps -> pkind q = KKw.
  Proof.
    induction ps as [|a l IH]; intros Hw q Hq; [contradiction|].
    simpl in Hw. destruct (pkind a) eqn:Ek; try discriminate.
    destruct Hq as [Hq|Hq]; [now subst a | now apply IH].
  Qed.

  Lemma pos_then_kw_kinds : forall ps, pos_then_kw value ps = true ->
    forall q, In q ps -> pkind q = KPos \/ pkind q = KKw.
  Proof.
    induction ps as [|a l IH]; intros Hw q Hq; [contradiction|].
    simpl in Hw. destruct (pkind a) eqn:Ek; try discriminate.
    - destruct Hq as [Hq|Hq]; [subst a; now left | now apply IH].
    - right. destruct Hq as [Hq|Hq]; [now subst a | eapply all_kw_kinds; eauto].
  Qed.

  Lemma bind_main : forall whole D h kw ps args b,
    pos_then_kw value ps = true -> NoDup (map pname ps) -> NoDup (map fst kw) ->
    bind_params whole ps args (dupdate D kw) = Some b ->
    bind_params whole ps (zipconv h ps args)
                (dupdate D (kwconv h (map pname (skipn (length args) ps)) kw))
    = Some (map2 (expected_rcv h kw) ps b).
  Proof.
    intros whole D h kw. induction ps as [|p ps IH]; intros args b Hw ND NK Hb.
    - destruct args; simpl in *; inversion Hb. reflexivity.
    - destruct args as [|v args].
      + (* no positional argument left *)
        simpl zipconv. simpl skipn. apply bind_kw_phase; auto.
        intros q Hq. split; [|now apply in_map].
        eapply pos_then_kw_kinds; eauto.
      + simpl in Hw. destruct (pkind p) eqn:Ek; try discriminate.
        * (* positional-or-keyword parameter takes v *)
          simpl in Hb |- *. rewrite Ek in *.
          assert (Hm : dmem (dupdate D (kwconv h (map pname (skipn (length args) ps)) kw)) (pname p)
                       = dmem (dupdate D kw) (pname p)).
          { apply dmem_keys. apply keys_dupdate_congr; auto. apply keys_kwconv. }
          rewrite Hm. destruct (dmem (dupdate D kw) (pname p)); [discriminate|].
          apply ocons_some in Hb as [b' [Hb' ->]]. inversion ND; subst.
          rewrite (IH args b'); auto.
        * (* keyword-only parameter with a positional argument left: CPython rejects *)
          simpl in Hb. rewrite Ek in Hb. destruct (fill_kw value p (dupdate D kw)); [|discriminate].
          rewrite all_kw_rejects_positionals in Hb by assumption. discriminate.
  Qed.

  Notation run_task := (run_task value is_none ty conv).
  Notation dep_kwargs := (dep_kwargs value).

  Theorem binding : forall (sg : list param) h args kw b,
    pos_then_kw value sg = true -> NoDup (map pname sg) -> NoDup (map fst kw) ->
    pycall sg args (dupdate (dep_kwargs sg) kw) = Some b ->
    run_task true sg h args kw = Invoked (map2 (expected_rcv h kw) sg b).
  Proof.
    intros sg h args kw b Hw ND NK Hc. unfold Params.run_task. rewrite parse_char by assumption.
    unfold Params.pycall in *.
    set (kw' := kwconv h (map pname (skipn (length args) sg)) kw) in *.
    assert (Hk : map fst (dupdate (dep_kwargs sg) kw') = map fst (dupdate (dep_kwargs sg) kw)).
    { apply keys_dupdate_congr; auto. apply keys_kwconv. }
    rewrite (forallb_keys _ (named value sg) _ _ Hk).
    destruct (forallb (fun e => named value sg (fst e)) (dupdate (dep_kwargs sg) kw) || has_varkw value sg);
      [|discriminate].
    unfold kw'. rewrite (bind_main sg (dep_kwargs sg) h kw sg args b); auto.
  Qed.
End ParseChar.

(* validate_params = False: parse_params gets signature None and returns at once *)
Theorem no_parse : forall value is_none ty conv (sg : list (param value)) h args kw,
  run_task value is_none ty conv false sg h args kw =
  match pycall value sg args (dupdate (dep_kwargs value sg) kw) with
  | Some b => Invoked b
  | None => CallTypeError
  end.
Proof. reflexivity. Qed.

(* ------------------------------------------------------------------ the Boolean form holds of the model *)
Section MeetsCheck.
  Variable value : Type.
  Variable is_none : value -> bool.
  Variable ty : Type.
  Variable is_any : ty -> bool.
  Variable conv : ty -> value -> cres value.
  Variable veqb : value -> value -> bool.
  Hypothesis conv_any : forall t v, is_any t = true -> conv t v = CVal v.
  Hypothesis conv_no_raise : forall t v, conv t v <> CRaise.
  Hypothesis veqb_refl : forall v, veqb v v = true.

  Lemma list_eqb_refl : forall A (e : A -> A -> bool), (forall x, e x x = true) -> forall l, list_eqb e l l = true.
  Proof. intros A e H. induction l; simpl; auto. now rewrite H, IHl. Qed.

  Lemma dict_eqb_refl : forall d, dict_eqb value veqb d d = true.
  Proof.
    intros d. unfold dict_eqb. rewrite Nat.eqb_refl. simpl. apply forallb_forall. intros e He.
    apply existsb_exists. exists e. split; auto. unfold kv_eqb. now rewrite Nat.eqb_refl, veqb_refl.
  Qed.

  Lemma obs_eqb_refl : forall o, obs_eqb value veqb o o = true.
  Proof.
    intros [b| |]; simpl; auto. apply list_eqb_refl. intros [v| |vs|kv]; simpl; auto.
    - now apply list_eqb_refl.
    - apply dict_eqb_refl.
  Qed.

  Theorem model_meets_check : forall validate sg h args kw,
    C08_check value is_none ty is_any conv veqb validate sg h args kw
              (erase value (run_task value is_none ty conv validate sg h args kw)) = true.
  Proof.
    intros validate sg h args kw. unfold C08_check.
    destruct (in_scope value sg kw) eqn:Es; simpl; auto.
    unfold in_scope in Es. apply andb_true_iff in Es as [Es NK]. apply andb_true_iff in Es as [Hw ND].
    apply nodupb_NoDup in ND. apply nodupb_NoDup in NK.
    destruct (pycall value sg args (dupdate (dep_kwargs value sg) kw)) as [b|] eqn:Hc; auto.
    destruct validate.
    - destruct (conv_raises value ty conv h (args ++ map snd kw)); auto.
      rewrite (binding value is_none ty is_any conv conv_any conv_no_raise sg h args kw b Hw ND NK Hc).
      apply obs_eqb_refl.
    - rewrite no_parse, Hc. apply obs_eqb_refl.
  Qed.
End MeetsCheck.

(* ------------------------------------------------------------------ kicker._prepare_message *)
Section PrepareProofs.
  Variables value model dcinst : Type.
  Variable model_dump : model -> value.
  Variable asdict : dcinst -> value.
  Notation pyarg := (pyarg value model dcinst).
  Notation prepare_arg := (prepare_arg value model dcinst model_dump asdict).
  Notation prepare_args := (prepare_args value model dcinst model_dump asdict).
  Notation prepare_kwargs := (prepare_kwargs value model dcinst model_dump asdict).
  Notation prepare_message := (prepare_message value model dcinst model_dump asdict).

  (* the dict form (total on everything that is not a dataclass TYPE) *)
  Definition form (a : pyarg) (dflt : value) : value :=
    match a with PModel m => model_dump m | PDataclass d => asdict d | POther v => v | PDataclassType => dflt end.

  Lemma prepare_args_ok : forall (l : list pyarg) dflt, forallb (fun a => negb (is_type value model dcinst a)) l = true ->
    prepare_args l = Some (map (fun a => form a dflt) l).
  Proof.
    induction l as [|a l IH]; intros dflt H; simpl in *; auto.
    apply andb_true_iff in H as [Ha Hl]. rewrite (IH dflt Hl). destruct a; simpl in *; auto; discriminate.
  Qed.

  Lemma prepare_kwargs_ok : forall (l : list (nat * pyarg)) dflt,
    forallb (fun e => negb (is_type value model dcinst (snd e))) l = true ->
    prepare_kwargs l = Some (map (fun e => (fst e, form (snd e) dflt)) l).
  Proof.
    induction l as [|[n a] l IH]; intros dflt H; simpl in *; auto.
    apply andb_true_iff in H as [Ha Hl]. rewrite (IH dflt Hl). destruct a; simpl in *; auto; discriminate.
  Qed.

  Theorem prepare_message_ok : forall args kw dflt,
    forallb (fun a => negb (is_type value model dcinst a)) args = true ->
    forallb (fun e => negb (is_type value model dcinst (snd e))) kw = true ->
    prepare_message args kw =
    Some (map (fun a => form a dflt) args, map (fun e => (fst e, form (snd e) dflt)) kw).
  Proof.
    intros. unfold Params.prepare_message. now rewrite (prepare_args_ok _ dflt), (prepare_kwargs_ok _ dflt).
  Qed.

  Lemma prepare_args_type : forall (l : list pyarg), existsb (is_type value model dcinst) l = true ->
    prepare_args l = None.
  Proof.
    induction l as [|a l IH]; intros H; simpl in *; [discriminate|].
    destruct a; simpl in *; auto; rewrite IH; auto.
  Qed.

  Lemma prepare_kwargs_type : forall (l : list (nat * pyarg)),
    existsb (fun e => is_type value model dcinst (snd e)) l = true -> prepare_kwargs l = None.
  Proof.
    induction l as [|[n a] l IH]; intros H; simpl in *; [discriminate|].
    destruct a; simpl in *; auto; rewrite IH; auto.
  Qed.

  Theorem prepare_message_type : forall args kw,
    existsb (is_type value model dcinst) args || existsb (fun e => is_type value model dcinst (snd e)) kw = true ->
    prepare_message args kw = None.
  Proof.
    intros args kw H. unfold Params.prepare_message. apply orb_true_iff in H as [H|H].
    - now rewrite prepare_args_type.
    - rewrite prepare_kwargs_type by assumption. now destruct (prepare_args args).
  Qed.
End PrepareProofs.

(* ------------------------------------------------------------------ formatters *)
Section FormatterProofs.
  Variables msg tree bytes : Type.
  Variable msg_dump : msg -> tree.
  Variable msg_validate : tree -> option msg.
  Variable dumpb : tree -> option bytes.
  Variable loadb : bytes -> option tree.
  (* serializer round trip on the trees pydantic produces for a message (json / pickle / pydantic JSON writer+parser) *)
  Hypothesis ser_roundtrip : forall m b, dumpb (msg_dump m) = Some b -> loadb b = Some (msg_dump m).
  (* pydantic: validating a model's own dump gives the model back *)
  Hypothesis validate_dump : forall m, msg_validate (msg_dump m) = Some m.

  Theorem formatter_roundtrip : forall m b,
    fmt_dumps msg tree bytes msg_dump dumpb m = Some b ->
    fmt_loads msg tree bytes msg_validate loadb b = Some m.
  Proof.
    intros m b H. unfold fmt_dumps, fmt_loads in *. rewrite (ser_roundtrip m b H). apply validate_dump.
  Qed.
End FormatterProofs.

(* ------------------------------------------------------------------ outside the quantifier: *args
   def f(a: int, *rest: int, k: int = 0);  f.kiq("1", "2", "3", k="4")
   values 10 = "1", 11 = "2", 12 = "3", 13 = "4", 20..23 = 1..4; type 1 = int; names a = 0, rest = 1, k = 2 *)
Definition vp_conv (t v : nat) : cres nat :=
  if t =? 0 then CVal v
  else if (t =? 1) && (10 <=? v) && (v <=? 13) then CVal (v + 10)
  else CSwallowed.
Definition vp_sig : list (param nat) :=
  [mkParam 0 KPos false None; mkParam 1 KVarPos false None; mkParam 2 KKw true None].
Definition vp_hints : list (nat * nat) := [(0, 1); (1, 1); (2, 1)].

Lemma vp_conv_any : forall t v, nis_any t = true -> vp_conv t v = CVal v.
Proof. intros t v H. unfold vp_conv, nis_any in *. now rewrite H. Qed.
Lemma vp_conv_no_raise : forall t v, vp_conv t v <> CRaise.
Proof.
  intros t v. unfold vp_conv. destruct (t =? 0); [discriminate|].
  destruct ((t =? 1) && (10 <=? v) && (v <=? 13)); discriminate.
Qed.

Theorem varpos_outside : exists conv sg h args kw,
  (forall t v, nis_any t = true -> conv t v = CVal v) /\
  (forall t v, conv t v <> CRaise) /\
  NoDup (map pname sg) /\ NoDup (map fst kw) /\
  pycall nat sg args (dupdate (dep_kwargs nat sg) kw) = Some [RPos 10; RStar [11; 12]; RKw 13] /\
  expect nat nis_none nat nis_any conv h 2 13 = 23 /\
  run_task nat nis_none nat conv true sg h args kw = Invoked [RPos 20; RStar [21; 22]; RKw 13].
Proof.
  exists vp_conv, vp_sig, vp_hints, [10; 11; 12], [(2, 13)].
  split; [exact vp_conv_any|]. split; [exact vp_conv_no_raise|].
  split; [repeat constructor; simpl; intuition discriminate|].
  split; [repeat constructor; simpl; intuition|].
  repeat split; vm_compute; reflexivity.
Qed.
