(* Runs of a `while True:` whose one iteration is the program `step` and whose prologue is `init_`, and the statements
   of coq/props/C17.v / C18.v over such runs - for ANY step / init_ that are pointwise equal to the hand-written
   monadic programs tick_m / start_init_m of PyPreludeProcManProofs.v (which are the model ProcMan.tick / ProcMan.init).
   coq/srcproofs/Src_procman_*.v instantiate step / init_ with the definitions GENERATED from the source text of
   ProcessManager.start; nothing here depends on generated text. *)
From Coq Require Import ZArith List Bool Arith Lia.
Import ListNotations.
From TQ Require Import ProcMan ProcManInv ProcManC18 ProcManC17 PyPreludeProcMan PyPreludeProcManProofs C17 C18.

Section Run.
Variable step : cfg -> PM (option R0).
Variable init_ : cfg -> PM unit.
Hypothesis Hstep : forall c ms, step c ms = tick_m c ms.
Hypothesis Hinit : forall c ms, init_ c ms = start_init_m c ms.

(* a run = the prologue from a freshly constructed manager (no workers, empty queue, first free pid p0), then one
   iteration per element of the history, until one of them returns or raises; mirrors ProcMan.run_from / ProcMan.run:
   effects per iteration (head = the prologue), how it ended (Ok None = still looping), final state *)
Fixpoint run_from_py (c : cfg) (st : state) (hist : list tick_events) : list (list effect) * outc (option R0) * state :=
  match hist with
  | [] => ([], Ok None, st)
  | te :: h =>
      let '(ms', e, o) := step c (mkPms st te) in
      match o with
      | Ok None => let '(l, o', s') := run_from_py c (ms_st ms') h in (e :: l, o', s')
      | _ => ([e], o, ms_st ms')
      end
  end.
Definition fresh (p0 : nat) : pms := mkPms (mkState [] [] 0%Z p0) (mkTE [] [] []).
Definition run_py (c : cfg) (p0 : nat) (hist : list tick_events) : list (list effect) * outc (option R0) * state :=
  let '(ms0, e0, o0) := init_ c (fresh p0) in
  match o0 with
  | Ok _ => let '(l, o, s) := run_from_py c (ms_st ms0) hist in (e0 :: l, o, s)
  | Exc x => ([e0], Exc x, ms_st ms0)
  end.

(* ---- one iteration *)
Theorem iter_spec : forall c st te ms' e o,
  step c (mkPms st te) = (ms', e, o) ->
  exists om, tick c st te = (ms_st ms', e ++ exit_eff om, om) /\ o = exit_value om.
Proof.
  intros c st te ms' e o H. rewrite Hstep in H.
  destruct (tick_m_spec c st te) as (te' & e' & E & F). rewrite E in H. inversion H; subst.
  exists (snd (tick c st te)). split; [|reflexivity].
  destruct (tick c st te) as [[s e0] om]. cbn [fst snd ms_st] in *. rewrite F. reflexivity.
Qed.

Lemma exit_value_cont o : exit_value o = Ok None -> o = Cont.
Proof. destruct o as [|[|]| |]; simpl; congruence. Qed.
Lemma exit_value_inj a b : exit_value a = exit_value b -> a = b.
Proof. destruct a as [|[|]| |], b as [|[|]| |]; simpl; congruence. Qed.

Theorem iter_cont : forall c st te ms' e,
  step c (mkPms st te) = (ms', e, Ok None) -> tick c st te = (ms_st ms', e, Cont).
Proof.
  intros c st te ms' e H. destruct (iter_spec _ _ _ _ _ _ H) as (om & T & V).
  symmetry in V. apply exit_value_cont in V. subst om. rewrite T. cbn [exit_eff]. rewrite app_nil_r. reflexivity.
Qed.

(* ---- a run *)
Lemma run_from_py_spec : forall c hist st,
  exists l',
    run_from_py c st hist = (l', exit_value (snd (fst (run_from c st hist))), snd (run_from c st hist)) /\
    concat (fst (fst (run_from c st hist))) = concat l' ++ exit_eff (snd (fst (run_from c st hist))) /\
    (snd (fst (run_from c st hist)) = Cont -> fst (fst (run_from c st hist)) = l').
Proof.
  intros c. induction hist as [|te h IH]; intros st.
  - exists []. cbn. repeat split; auto.
  - unfold run_from. cbn [run_from_py run_from_gen]. fold (tick c st te). fold (run_from c).
    destruct (step c (mkPms st te)) as [[ms' e] o] eqn:S.
    destruct (iter_spec _ _ _ _ _ _ S) as (om & T & V). rewrite T. subst o.
    destruct om as [|[|]|p|]; cbn [exit_value exit_eff]; rewrite ?app_nil_r.
    + destruct (IH (ms_st ms')) as (l' & E & F & G). rewrite E.
      destruct (run_from c (ms_st ms') h) as [[l1 o1] s1]. cbn [fst snd] in *.
      exists (e :: l'). cbn [concat]. rewrite F, app_assoc. repeat split; auto. intro X. rewrite (G X). reflexivity.
    + exists [e]. cbn [fst snd concat app]. rewrite !app_nil_r. repeat split; auto; discriminate.
    + exists [e]. cbn [fst snd concat app]. rewrite !app_nil_r. repeat split; auto; discriminate.
    + exists [e]. cbn [fst snd concat app]. rewrite !app_nil_r. repeat split; auto; discriminate.
    + exists [e]. cbn [fst snd concat app]. rewrite !app_nil_r. repeat split; auto; discriminate.
Qed.

Theorem run_py_spec : forall c p0 hist l' o' s,
  run_py c p0 hist = (l', o', s) ->
  exists l o, run c p0 hist = (l, o, s) /\ o' = exit_value o /\ concat l = concat l' ++ exit_eff o /\ (o = Cont -> l = l').
Proof.
  intros c p0 hist l' o' s H. unfold run_py, fresh in H. rewrite Hinit, start_init_m_spec in H.
  rewrite run_unfold. cbn [ms_st] in H.
  destruct (run_from_py_spec c hist (fst (init c p0))) as (l1 & E & F & G). rewrite E in H.
  destruct (run_from c (fst (init c p0)) hist) as [[l2 o2] s2]. cbn [fst snd] in *. inversion H; subst.
  exists (snd (init c p0) :: l2), o2. cbn [concat]. rewrite F, app_assoc. repeat split; auto.
  intro X. rewrite (G X). reflexivity.
Qed.

Lemma run_py_cont : forall c p0 hist l s, run_py c p0 hist = (l, Ok None, s) -> run c p0 hist = (l, Cont, s).
Proof.
  intros c p0 hist l s H. destruct (run_py_spec _ _ _ _ _ _ H) as (lm & o & R & V & _ & G).
  symmetry in V. apply exit_value_cont in V. subst o. rewrite (G eq_refl) in R. exact R.
Qed.

(* ---- what the trailing EExit of the model's trace does not change *)
Lemma count_exit_fail o : count is_fail_got (exit_eff o) = 0.
Proof. destruct o as [|[|]| |]; reflexivity. Qed.
Lemma count_exit_start s o : count (is_start_of s) (exit_eff o) = 0.
Proof. destruct o as [|[|]| |]; reflexivity. Qed.
Lemma got_all_exit o : existsb is_got_all (exit_eff o) = false.
Proof. destruct o as [|[|]| |]; reflexivity. Qed.
Lemma in_start_exit i p e o : In (Start i p) (e ++ exit_eff o) -> In (Start i p) e.
Proof. intro H. apply in_app_or in H. destruct H; auto. destruct o as [|[|]| |]; simpl in H; intuition congruence. Qed.
Lemma after_shutdown_app_some a : forall suf b, after_shutdown a = Some suf -> after_shutdown (a ++ b) = Some (suf ++ b).
Proof.
  induction a as [|x a IH]; intros suf b H; simpl in *; [discriminate|].
  destruct x; auto. destruct a0; auto. inversion H; subst. reflexivity.
Qed.

(* ================================================================== C17 over runs of `step` *)
Theorem gen_C17_slots_constant : forall c p0 hist l o s,
  1 <= p0 -> run_py c p0 hist = (l, o, s) -> length (workers s) = nworkers c.
Proof.
  intros c p0 hist l o s Hp H. destruct (run_py_spec _ _ _ _ _ _ H) as (lm & om & R & _).
  eapply C17_slots_constant; eauto.
Qed.

Theorem gen_C17_one_live_per_slot : forall c p0 hist l o s,
  1 <= p0 -> run_py c p0 hist = (l, o, s) -> olps_check (concat l) = true /\ one_live_per_slot (concat l).
Proof.
  intros c p0 hist l o s Hp H. destruct (run_py_spec _ _ _ _ _ _ H) as (lm & om & R & _ & F & _).
  destruct (C17_one_live_per_slot _ _ _ _ _ _ Hp R) as [X _]. rewrite F in X.
  unfold olps_check in X. rewrite olps_go_app in X. apply andb_true_iff in X. destruct X as [X _].
  split; [exact X | apply olps_sound; exact X].
Qed.

Theorem gen_C17_replaced_next_tick : forall c p0 hist l s te ms' effs i b,
  1 <= p0 -> run_py c p0 hist = (l, Ok None, s) -> In (ReloadOne i b) (queue s) ->
  step c (mkPms s te) = (ms', effs, Ok None) -> exists p, In (Start i p) effs.
Proof.
  intros c p0 hist l s te ms' effs i b Hp HR HQ HT.
  eapply C17_replaced_next_tick; eauto using run_py_cont, iter_cont.
Qed.

Theorem gen_C17_scan_detects : forall c p0 hist l s te ms' effs i,
  1 <= p0 -> run_py c p0 hist = (l, Ok None, s) -> i < nworkers c -> pst (nth i (workers s) dummy) <> Live ->
  step c (mkPms s te) = (ms', effs, Ok None) ->
  (exists p, In (Start i p) effs) \/ In (ReloadOne i false) (queue (ms_st ms')).
Proof.
  intros c p0 hist l s te ms' effs i Hp HR Hi NL HT.
  eapply C17_scan_detects; eauto using run_py_cont, iter_cont.
Qed.

Theorem gen_C17_replaced_within_two : forall c p0 hist l s te1 ms1 e1 te2 ms2 e2 i,
  1 <= p0 -> run_py c p0 hist = (l, Ok None, s) -> i < nworkers c -> pst (nth i (workers s) dummy) <> Live ->
  step c (mkPms s te1) = (ms1, e1, Ok None) -> step c (mkPms (ms_st ms1) te2) = (ms2, e2, Ok None) ->
  exists p, In (Start i p) (e1 ++ e2).
Proof.
  intros c p0 hist l s te1 ms1 e1 te2 ms2 e2 i Hp HR Hi NL T1 T2.
  eapply C17_replaced_within_two; eauto using run_py_cont, iter_cont.
Qed.

(* ================================================================== C18 over runs of `step` *)
(* start() never lets an exception escape (no ProcessLookupError, the loop fuel suffices, nothing without a reading) *)
Theorem gen_C18_total : forall c p0 hist l o s,
  1 <= p0 -> run_py c p0 hist = (l, o, s) -> forall x, o <> Exc x.
Proof.
  intros c p0 hist l o s Hp H x. destruct (run_py_spec _ _ _ _ _ _ H) as (lm & om & R & V & _).
  destruct (C18_total _ _ _ _ _ _ Hp R) as [NF NC]. subst o.
  destruct om as [|[|]|p|]; cbn [exit_value]; try discriminate; [exfalso; eapply NC; eauto | congruence].
Qed.

Theorem gen_C18_fail_exit_iff : forall c p0 hist l o s,
  run_py c p0 hist = (l, o, s) ->
  (o = Ok (Some (Some (-1)%Z)) <->
   (1 <= max_fails c)%Z /\ Z.of_nat (count is_fail_got (concat l)) = max_fails c) /\
  (o <> Ok (Some (Some (-1)%Z)) -> (max_fails c < 1)%Z \/ (Z.of_nat (count is_fail_got (concat l)) < max_fails c)%Z).
Proof.
  intros c p0 hist l o s H. destruct (run_py_spec _ _ _ _ _ _ H) as (lm & om & R & V & F & _).
  destruct (C18_fail_exit_iff _ _ _ _ _ _ R) as [A B]. rewrite F, count_app, count_exit_fail, Nat.add_0_r in A, B.
  assert (EQ : o = Ok (Some (Some (-1)%Z)) <-> om = Exited ExitFail).
  { subst o. split; intro X; [|subst om; reflexivity]. apply (exit_value_inj om (Exited ExitFail)). exact X. }
  split.
  - rewrite EQ. exact A.
  - intro N. apply B. intro X. apply N. apply EQ. exact X.
Qed.

Theorem gen_C18_reload_all_once : forall c p0 hist l s te ms' effs o',
  1 <= p0 -> run_py c p0 hist = (l, Ok None, s) -> step c (mkPms s te) = (ms', effs, o') ->
  existsb is_got_all effs = true ->
  forall slot, slot < nworkers c ->
    (o' = Ok None -> count (is_start_of slot) effs = 1) /\ count (is_start_of slot) effs <= 1.
Proof.
  intros c p0 hist l s te ms' effs o' Hp HR HT HG slot Hs.
  destruct (iter_spec _ _ _ _ _ _ HT) as (om & T & V).
  assert (G : existsb is_got_all (effs ++ exit_eff om) = true) by (rewrite existsb_app', HG; reflexivity).
  destruct (C18_reload_all_once _ _ _ _ _ _ _ _ _ Hp (run_py_cont _ _ _ _ _ HR) T G slot Hs) as [A B].
  rewrite count_app, count_exit_start, Nat.add_0_r in A, B. split; [|exact B].
  intro X. apply A. subst o'. apply exit_value_cont in X. exact X.
Qed.

Theorem gen_C18_reload_all_budget_free : forall c p0 hist l s te ms' effs o',
  run_py c p0 hist = (l, Ok None, s) -> step c (mkPms s te) = (ms', effs, o') ->
  restarts (ms_st ms') = (restarts s + (if (1 <=? max_fails c)%Z then Z.of_nat (count is_fail_got effs) else 0))%Z.
Proof.
  intros c p0 hist l s te ms' effs o' HR HT.
  destruct (iter_spec _ _ _ _ _ _ HT) as (om & T & V).
  pose proof (C18_reload_all_budget_free _ _ _ _ _ _ _ _ _ (run_py_cont _ _ _ _ _ HR) T) as X.
  rewrite count_app, count_exit_fail, Nat.add_0_r in X. exact X.
Qed.

(* the iteration that takes Shutdown from the queue: afterwards nothing but one Kill per element of js, and start()
   returns None *)
Theorem gen_C18_shutdown_clean : forall c p0 hist l s te ms' effs o' suf,
  1 <= p0 -> run_py c p0 hist = (l, Ok None, s) -> step c (mkPms s te) = (ms', effs, o') ->
  after_shutdown effs = Some suf ->
  o' = Ok (Some None) /\
  exists js, suf = map (fun j => Kill (pid (nth j (workers (ms_st ms')) dummy))) js /\
    NoDup js /\
    (forall j, In j js -> j < nworkers c /\ pst (nth j (workers (ms_st ms')) dummy) <> Reaped) /\
    (forall j, j < nworkers c -> pst (nth j (workers (ms_st ms')) dummy) = Live -> In j js).
Proof.
  intros c p0 hist l s te ms' effs o' suf Hp HR HT HA.
  destruct (iter_spec _ _ _ _ _ _ HT) as (om & T & V).
  pose proof (after_shutdown_app_some _ _ (exit_eff om) HA) as HA'.
  destruct (C18_shutdown_clean _ _ _ _ _ _ _ _ _ _ Hp (run_py_cont _ _ _ _ _ HR) T HA') as (O & js & SJ & ND & A & B).
  subst om. split; [exact V|]. exists js. cbn [exit_eff] in SJ. apply app_inv_tail in SJ. auto.
Qed.

Theorem gen_C18_pids_distinct : forall c p0 hist l o s,
  1 <= p0 -> run_py c p0 hist = (l, o, s) ->
  NoDup (map pid (workers s)) /\ Forall (fun p => 1 <= p < next_pid s) (map pid (workers s)).
Proof.
  intros c p0 hist l o s Hp H. destruct (run_py_spec _ _ _ _ _ _ H) as (lm & om & R & _).
  eapply C18_pids_distinct; eauto.
Qed.

End Run.
