(* Helper lemmas for the source tie of the scheduler loop (coq/srcproofs/Src_sched_loop_C15.v): what the loop
   combinators of PyStm.v / PyPreludeLoop.v compute when every iteration of the body is known.  Nothing here mentions
   generated text. *)
From Coq Require Import List Arith Bool ZArith Lia.
From TQ Require Import SchedDelay SchedLoop PyStm PyPreludeLoop.
Import ListNotations.
Open Scope Z_scope.

(* running a list of steps, each of which has effects and either goes on (None) or raises (Some e) *)
Fixpoint run_list {E X Y : Type} (g : Y -> list E * option X) (l : list Y) : list E * option X :=
  match l with
  | [] => ([], None)
  | x :: r => match g x with
              | (es, Some e) => (es, Some e)
              | (es, None) => let (es', o) := run_list g r in (es ++ es', o)
              end
  end.

Definition outcome_of {X R} (o : option X) : outc X (ctl R unit) :=
  match o with None => Ok (Normal tt) | Some e => Exc e end.

(* one iteration of a loop body (state = unit) does what step p says: same effects; it falls through - or, in a loop
   with `continue`, continues - when p goes on, raises e when p raises e *)
Definition step_is {E X R} (r : stm E X R unit) (p : list E * option X) : Prop :=
  fst r = fst p /\ snd r = outcome_of (snd p).
Definition step_c_is {E X R} (r : stm E X (R + unit) unit) (p : list E * option X) : Prop :=
  fst r = fst p /\
  match snd p with
  | None => snd r = Ok (Normal tt) \/ snd r = Ok (Return (inr tt))
  | Some e => snd r = Exc e
  end.

Lemma for_run {E X R Y} (g : Y -> list E * option X) (body : Y -> unit -> stm E X R unit) (l : list Y) :
  (forall x, In x l -> step_is (body x tt) (g x)) ->
  for_ l body tt = (fst (run_list g l), outcome_of (snd (run_list g l))).
Proof.
  induction l as [|x r IH]; intros H; [reflexivity|].
  cbn [for_ run_list]. destruct (H x (or_introl eq_refl)) as [H1 H2].
  destruct (body x tt) as [es o]. destruct (g x) as [es' [e|]]; cbn [fst snd outcome_of] in *; subst.
  - reflexivity.
  - unfold sbind, bind. rewrite IH by (intros y Hy; apply H; right; exact Hy).
    destruct (run_list g r) as [es2 o2]. cbn [fst snd]. destruct o2; reflexivity.
Qed.

Lemma for_c_run {E X R Y} (g : Y -> list E * option X) (body : Y -> unit -> stm E X (R + unit) unit) (l : list Y) :
  (forall x, In x l -> step_c_is (body x tt) (g x)) ->
  @for_c E X R Y unit l body tt = (fst (run_list g l), outcome_of (snd (run_list g l))).
Proof.
  induction l as [|x r IH]; intros H; [reflexivity|].
  cbn [for_c run_list]. destruct (H x (or_introl eq_refl)) as [H1 H2].
  destruct (body x tt) as [es o]. destruct (g x) as [es' [e|]]; cbn [fst snd outcome_of] in *; subst.
  - reflexivity.
  - assert (IH' := IH (fun y Hy => H y (or_intror Hy))).
    destruct H2 as [-> | ->]; unfold bind; rewrite IH';
      destruct (run_list g r) as [es2 o2]; cbn [fst snd]; destruct o2; reflexivity.
Qed.

(* run_list over steps that all go on *)
Lemma run_list_flat {E X Y : Type} (g : Y -> list E * option X) (f : Y -> list E) (l : list Y) :
  (forall x, In x l -> g x = (f x, None)) -> run_list g l = (flat_map f l, None).
Proof.
  induction l as [|x r IH]; intros H; [reflexivity|].
  cbn [run_list flat_map]. rewrite (H x (or_introl eq_refl)), IH by (intros y Hy; apply H; right; exact Hy). reflexivity.
Qed.

(* gather of awaitables that all return *)
Lemma gather_all_ok {A Y : Type} (f : Y -> LM A) (es : Y -> list leff) (v : Y -> A) (l : list Y) :
  (forall x, In x l -> f x = (es x, Ok (v x))) ->
  asyncio_gather (map f l) = (flat_map es l, Ok (map v l)).
Proof.
  induction l as [|x r IH]; intros H; [reflexivity|].
  cbn [map asyncio_gather flat_map]. rewrite (H x (or_introl eq_refl)), IH by (intros y Hy; apply H; right; exact Hy).
  reflexivity.
Qed.

(* a dict built from pairs whose keys are pairwise different objects lists exactly these pairs, in order *)
Lemma dict_set_fresh {V} (d : list (lsource * V)) k v :
  ~ In (ls_id k) (map (fun p => ls_id (fst p)) d) -> dict_set d k v = d ++ [(k, v)].
Proof.
  induction d as [|[k' v'] r IH]; intros H; [reflexivity|].
  cbn [dict_set app]. cbn [map fst In] in H.
  destruct (Nat.eqb (ls_id k') (ls_id k)) eqn:E.
  - apply Nat.eqb_eq in E. exfalso. apply H. left. exact E.
  - rewrite IH; [reflexivity|]. intros Hin. apply H. right. exact Hin.
Qed.

Lemma dict_of_pairs_nodup_acc {V} (l : list (lsource * V)) : forall acc,
  NoDup (map (fun p => ls_id (fst p)) (acc ++ l)) ->
  fold_left (fun d kv => dict_set d (fst kv) (snd kv)) l acc = acc ++ l.
Proof.
  induction l as [|[k v] r IH]; intros acc H; [symmetry; apply app_nil_r|].
  cbn [fold_left fst snd]. rewrite dict_set_fresh.
  - rewrite IH; rewrite <- app_assoc; [reflexivity | exact H].
  - rewrite map_app in H. cbn [map fst] in H. apply NoDup_remove_2 in H.
    intros Hin. apply H. apply in_or_app. left. exact Hin.
Qed.

Lemma dict_of_pairs_nodup {V} (l : list (lsource * V)) :
  NoDup (map (fun p => ls_id (fst p)) l) -> dict_of_pairs l = l.
Proof. intros H. unfold dict_of_pairs. rewrite dict_of_pairs_nodup_acc; [reflexivity | exact H]. Qed.

(* which step of a run_list raised *)
Lemma run_list_none {E X Y : Type} (g : Y -> list E * option X) (l : list Y) :
  (forall x, In x l -> snd (g x) = None) -> snd (run_list g l) = None.
Proof.
  induction l as [|x r IH]; intros H; [reflexivity|].
  cbn [run_list]. assert (Hx := H x (or_introl eq_refl)). destruct (g x) as [es [e|]]; [discriminate|].
  assert (IH' := IH (fun y Hy => H y (or_intror Hy))). destruct (run_list g r). exact IH'.
Qed.

Lemma run_list_some {E X Y : Type} (g : Y -> list E * option X) (l : list Y) e :
  snd (run_list g l) = Some e -> exists x, In x l /\ snd (g x) = Some e.
Proof.
  induction l as [|x r IH]; intros H; [discriminate|].
  cbn [run_list] in H. destruct (g x) as [es [e'|]] eqn:G.
  - exists x. split; [left; reflexivity|]. rewrite G. exact H.
  - destruct (run_list g r) as [es' o']. cbn [snd] in *. destruct (IH H) as [y [Hy1 Hy2]]. exists y. split; [right|]; assumption.
Qed.

Lemma run_list_raises {E X Y : Type} (g : Y -> list E * option X) (l : list Y) :
  (exists x, In x l /\ snd (g x) <> None) -> snd (run_list g l) <> None.
Proof.
  induction l as [|x r IH]; intros [y [Hy1 Hy2]]; [destruct Hy1|].
  cbn [run_list]. destruct (g x) as [es [e'|]] eqn:G; [discriminate|].
  destruct Hy1 as [<- | Hy1]; [rewrite G in Hy2; exfalso; apply Hy2; reflexivity|].
  assert (IH' := IH (ex_intro _ y (conj Hy1 Hy2))). destruct (run_list g r). exact IH'.
Qed.
