(* Facts about the statement monad PyStm.v and the reading PyPreludeRunTask.v that do not depend on any generated text:
   the embedding of Pipeline.v's monad into the monad
   of the run_task unit, and: a `for_` loop over the indexed middleware stack whose body is one on_error step IS the
   hand-written hook loop Pipeline.res_hook_loop HOnError (one induction over the stack).  Used by coq/srcproofs/
   Src_run_task_C07.v (re-checked against the freshly generated Gen_run_task.v on every run). *)
From Coq Require Import List Arith Bool ZArith.
From TQ Require Import Base Pipeline.
From TQ Require Import PyStm PyStmProofs PyPreludeRunTask.
Import ListNotations.

(* ------------------------------------------------------------------------------------------ Pipeline.M inside RM *)
(* a run of Pipeline.v's monad read as a run of the unit's monad: the effect list as it is, a propagating exception
   of kind x is PipeExc x.  Injective; never produces UserExc / Unmodelled. *)
Definition of_outc {A} (o : Pipeline.outc A) : PyStm.outc rt_exn A :=
  match o with Pipeline.Ok v => Ok v | Pipeline.Exc x => Exc (PipeExc x) end.
Definition of_M {A} (a : Pipeline.M A) : RM A := (fst a, of_outc (snd a)).

Lemma of_M_inj : forall {A} (a b : Pipeline.M A), of_M a = of_M b -> a = b.
Proof.
  intros A [ea [va|xa]] [eb [vb|xb]] H; unfold of_M in H; cbn in H; inversion H; reflexivity.
Qed.

Lemma of_M_ret : forall {A} (v : A), of_M (Pipeline.ret v) = ret v.
Proof. reflexivity. Qed.

Lemma of_M_bind : forall {A B} (a : Pipeline.M A) (f : A -> Pipeline.M B),
  of_M (Pipeline.bind a f) = bind (of_M a) (fun v => of_M (f v)).
Proof.
  intros A B [es [v|x]] f; unfold of_M; cbn; [|reflexivity]. destruct (f v) as [es' o']. reflexivity.
Qed.

(* ------------------------------------------------------------------------------------------ the on_error loop *)
Lemma indexed_from_cons : forall i w st, indexed_from i (w :: st) = (i, w) :: indexed_from (S i) st.
Proof. reflexivity. Qed.

(* one iteration of the on_error loop, as the model performs it (x = the class of the exception handed to the hook) *)
Definition on_error_step {R} (m : msg) (x : nat) (j : nat) (w : mw) (r : res) : stm eff rt_exn R res :=
  match h_on_error w with
  | None => next r
  | Some f => lift (of_M (Pipeline.bind (Pipeline.emit (FHookR HOnError j m r (Some x)))
                                        (fun _ => match f r with
                                                  | Some r' => Pipeline.ret r'
                                                  | None => Pipeline.raise XHook
                                                  end)))
  end.

Lemma for_on_error : forall {R} m x (body : nat * mw -> res -> stm eff rt_exn R res) st i r,
  (forall j w r', body (j, w) r' = on_error_step m x j w r') ->
  for_ (indexed_from i st) body r = lift (of_M (res_hook_loop HOnError h_on_error (Some x) i st m r)).
Proof.
  intros R m x body st. induction st as [|w st IH]; intros i r H; [reflexivity|].
  cbn [indexed_from for_ res_hook_loop]. rewrite H. unfold on_error_step. destruct (h_on_error w) as [f|].
  - rewrite sbind_lift. rewrite !of_M_bind. rewrite lift_bind, bind_assoc. apply bind_ext. intros _.
    rewrite lift_bind. apply bind_ext. intros r'. apply IH. exact H.
  - rewrite sbind_next_l. apply IH. exact H.
Qed.

(* ------------------------------------------------------------------------------------------ the awaited body *)
(* the part of Pipeline.try_block that is the awaited target: its events and what it leaves in returned /
   found_exception (try_block = the dependency's opening in front of it) *)
Definition body_part (c : pcfg) (m : msg) : list eff * bout :=
  match body_run c m with
  | BodyFull => ([FTaskStart; FTaskEnd (BEnded (c_out c))], c_out c)
  | BodyNever => ([], BRaise E_TIMEOUT)
  | BodyCancelled => ([FTaskStart; FTaskEnd BCancelled], BRaise E_TIMEOUT)
  | BodyDetached => ([FTaskStart], BRaise E_TIMEOUT)
  end.

Lemma try_block_split : forall c m,
  try_block c m =
  match c_dep c with
  | DFail => ([FDepOpen], BRaise E_DEP)
  | DOk => (FDepOpen :: fst (body_part c m), snd (body_part c m))
  | DNone => body_part c m
  end.
Proof. intros c m. unfold try_block, body_part. destruct (c_dep c), (body_run c m); reflexivity. Qed.

(* ... read as the run of `await target_future`: the events, then the value or the exception *)
Definition run_body (p : list eff * bout) : RM nat :=
  (fst p, match snd p with BRet v => Ok v | BRaise e => Exc (UserExc e) end).

Ltac await_cases :=
  intros c o1 o2 m; unfold await_future, body_full, in_time, run_body, body_part, body_run;
  intros; repeat match goal with H : _ = _ |- _ => rewrite H end; cbn [fn_cfg negb];
  repeat match goal with |- context [if ?b then _ else _] => destruct b end;
  cbn; try destruct (c_out c); reflexivity.

(* the four awaitables run_task can build, by what the function is and whether the message has a timeout label *)
Lemma await_coro : forall c o1 o2 m, c_async c = true -> m_tmo m = None ->
  await_future (FutCoro (mkfunc c o1 o2)) = run_body (body_part c m).
Proof. await_cases. Qed.
Lemma await_exec : forall c o1 o2 m, c_async c = false -> m_tmo m = None ->
  await_future (FutExec (mkfunc c o1 o2)) = run_body (body_part c m).
Proof. await_cases. Qed.
Lemma await_wait_coro : forall c o1 o2 m t, c_async c = true -> m_tmo m = Some t ->
  await_future (FutWaitFor (FutCoro (mkfunc c o1 o2)) t) = run_body (body_part c m).
Proof. await_cases. Qed.
Lemma await_wait_exec : forall c o1 o2 m t, c_async c = false -> m_tmo m = Some t ->
  await_future (FutWaitFor (FutExec (mkfunc c o1 o2)) t) = run_body (body_part c m).
Proof. await_cases. Qed.
