(* C03_saturable: no execution slot is ever lost.  From every reachable state of the receiver LTS in which no stop
   was requested and the broker stream has not ended (limit A > 0, no max-tasks budget), a continuation exists that
   ends no running callback, takes only fresh messages from the broker and reaches a state with A callbacks running
   at once.  The continuation is built explicitly:
     (1) [drain]     the done-callbacks of the callbacks that already ended are run (ECbDone is always enabled);
     (2) [start_one] the runner is driven to its queue.get() ([to_get]: the slot invariant gives a free permit), and if
                     the hand-over queue is empty the prefetcher is driven through EPfCheck / EPfAcquire / ETake / EPfGot
                     ([to_poll], [poll_to_has], [has_to_queue]: the permit invariant InvQ gives a free prefetch permit
                     because the runner released one), then ERnGet spawns the callback;
     (3) [fill]      (2) is repeated until |live| = A. *)
From Coq Require Import List Arith Bool Lia Permutation.
Import ListNotations.
From TQ Require Import RecvLTS RecvLTSProofs RecvLTSFlow RecvLTSThms.

(* events the continuation may use, [tk] = ids already taken from the broker: no stop request, no end of the broker
   stream, no callback coroutine ending, only fresh message ids *)
Definition sat_event (tk : list nat) (e : ev) : Prop :=
  match e with
  | ETake id => ~ In id tk
  | EStop | EEnd | ECbEnd _ => False
  | _ => True
  end.

Lemma sat_event_mono tk tk' e : incl tk tk' -> sat_event tk' e -> sat_event tk e.
Proof. destruct e; simpl; auto. Qed.

Lemma step_taken_incl c s e s' : step c s e = Some s' -> incl (taken s) (taken s').
Proof. intros Hs. stepcases Hs; try apply incl_refl; apply incl_tl, incl_refl. Qed.

Lemma run_taken_incl c : forall tr s s', run c s tr = Some s' -> incl (taken s) (taken s').
Proof.
  unfold run. induction tr as [|e t IH]; simpl; intros s s' H.
  - inversion H. apply incl_refl.
  - destruct (gstep false c s e) eqn:E; [|discriminate].
    eapply incl_tran; [eapply step_taken_incl; exact E | eapply IH; exact H].
Qed.

Lemma run_app c : forall tr1 s s1 tr2 s2,
  run c s tr1 = Some s1 -> run c s1 tr2 = Some s2 -> run c s (tr1 ++ tr2) = Some s2.
Proof.
  unfold run. induction tr1 as [|e t IH]; simpl; intros s s1 tr2 s2 H1 H2.
  - inversion H1; subst. exact H2.
  - destruct (gstep false c s e); [eapply IH; eauto | discriminate].
Qed.

Definition drives (c : cfg) (s s' : st) : Prop :=
  exists tr, run c s tr = Some s' /\ Forall (sat_event (taken s)) tr.

Lemma drives_refl c s : drives c s s.
Proof. exists []. split; [reflexivity | constructor]. Qed.

Lemma drives_trans c s s1 s2 : drives c s s1 -> drives c s1 s2 -> drives c s s2.
Proof.
  intros (t1 & R1 & F1) (t2 & R2 & F2). exists (t1 ++ t2). split; [eapply run_app; eauto|].
  apply Forall_app. split; [exact F1|]. eapply Forall_impl; [|exact F2].
  intros e. apply sat_event_mono. eapply run_taken_incl; eauto.
Qed.

Lemma drives_step c s e s' : step c s e = Some s' -> sat_event (taken s) e -> drives c s s'.
Proof.
  intros Hs Ho. exists [e]. split; [|constructor; [exact Ho | constructor]].
  unfold run. simpl. unfold step in Hs. rewrite Hs. reflexivity.
Qed.

(* the states the construction moves through *)
Definition Good (c : cfg) (s : st) : Prop :=
  Inv c s /\ fin s = false /\ look s <> LAEnded /\ limited c = true /\ (forall f, reachedN c f = false).

Lemma good_step c tk s e s' : Good c s -> step c s e = Some s' -> sat_event tk e -> Good c s'.
Proof.
  intros (Hi & Hf & Hl & L & NB) Hs Ho. split; [eapply gstep_inv; eauto|]. clear Hi.
  stepcases Hs; simpl in Ho; try contradiction; repeat split; auto; try discriminate; try congruence.
Qed.

Lemma good_run c tk : forall tr s s', Good c s -> run c s tr = Some s' -> Forall (sat_event tk) tr -> Good c s'.
Proof.
  unfold run. induction tr as [|e t IH]; simpl; intros s s' G H F.
  - inversion H; subst. exact G.
  - destruct (gstep false c s e) eqn:E; [|discriminate]. inversion F; subst.
    eapply IH; [eapply good_step; eauto | exact H | assumption].
Qed.

Lemma drives_good c s s' : Good c s -> drives c s s' -> Good c s'.
Proof. intros G (t & R & F). eapply good_run; eauto. Qed.

(* no callback ends along such a continuation: the running ones keep running *)
Lemma live_step c tk s e s' : step c s e = Some s' -> sat_event tk e -> incl (live s) (live s').
Proof.
  intros Hs Ho. stepcases Hs; simpl in Ho; try contradiction; try apply incl_refl. apply incl_tl, incl_refl.
Qed.
Lemma live_run c tk : forall tr s s', run c s tr = Some s' -> Forall (sat_event tk) tr -> incl (live s) (live s').
Proof.
  unfold run. induction tr as [|e t IH]; simpl; intros s s' H F.
  - inversion H. apply incl_refl.
  - destruct (gstep false c s e) eqn:E; [|discriminate]. inversion F; subst.
    eapply incl_tran; [eapply live_step; eauto | eapply IH; eauto].
Qed.

(* shape of a good state: the prefetcher is in its loop, the runner before the sentinel, no sentinel queued,
   a look-ahead task exists *)
Lemma good_loop c s : Good c s ->
  (pf s = PFTop \/ pf s = PFAcq \/ pf s = PFPoll) /\ (rn s = RNAcq \/ rn s = RNGet)
  /\ wfq false (queue s) = true /\ look s <> LANone.
Proof.
  intros (Hi & Hf & Hl & L & NB).
  destruct (i_n _ _ Hi) as [_ N2]. pose proof (i_shape _ _ Hi) as Sh. destruct (i_pc _ _ Hi) as [_ P2].
  unfold InvShape in Sh.
  assert (Hpf : pf s <> PFExit /\ pf s <> PFDone).
  { destruct (why s) as [[]|]; [| | |exact N2]; destruct N2 as [_ N2]; try congruence;
      try (rewrite NB in N2; discriminate). }
  destruct Hpf as [Hx Hd].
  assert (Hn : look s <> LANone). { intro E. specialize (P2 E). rewrite NB in P2. discriminate. }
  destruct (pf s) eqn:Ep; try congruence; destruct (rn s) eqn:Er; try contradiction; auto 10.
Qed.

(* fresh message id *)
Lemma list_max_ge x l : In x l -> x <= list_max l.
Proof. induction l as [|y t IH]; simpl; [tauto|]. intros [->|H]; [lia | specialize (IH H); lia]. Qed.
Lemma fresh_id l : ~ In (S (list_max l)) l.
Proof. intro H. apply list_max_ge in H. lia. Qed.

Definition keeps (s s' : st) : Prop :=
  rn s' = rn s /\ queue s' = queue s /\ live s' = live s /\ ending s' = ending s.
Lemma keeps_refl s : keeps s s.
Proof. repeat split. Qed.
Lemma keeps_trans s s1 s2 : keeps s s1 -> keeps s1 s2 -> keeps s s2.
Proof. unfold keeps. intros (A1 & A2 & A3 & A4) (B1 & B2 & B3 & B4). repeat split; congruence. Qed.

Ltac fields :=
  cbn [sem semp queue pf look fetched rn live ending fin taken started finished lost tas timedout why ret
       set_sem set_semp set_queue set_pf set_look set_fetched set_rn set_live set_ending set_fin set_taken
       set_started set_finished set_lost set_tas set_timedout set_why set_ret].

(* ---- prefetcher: reach the poll with a permit *)
Lemma acq_to_poll c s : Good c s -> pf s = PFAcq -> rn s = RNGet -> queue s = [] ->
  exists s', drives c s s' /\ keeps s s' /\ pf s' = PFPoll.
Proof.
  intros G Ep Er Eq. destruct G as (Hi & Hf & Hl & L & NB).
  pose proof (i_q _ _ Hi) as Q. unfold InvQ in Q. rewrite Ep, Er, Eq in Q. cbn in Q.
  destruct (semp s) as [|p] eqn:Esp; [lia|].
  exists (set_pf (set_semp s p) PFPoll). split; [|split; [repeat split | reflexivity]].
  apply drives_step with (e := EPfAcquire); [|exact I].
  unfold step, gstep. rewrite Ep, Esp, NB. reflexivity.
Qed.

Lemma to_poll c s : Good c s -> rn s = RNGet -> queue s = [] ->
  exists s', drives c s s' /\ keeps s s' /\ pf s' = PFPoll.
Proof.
  intros G Er Eq. destruct (good_loop c s G) as ([Ep|[Ep|Ep]] & _).
  - assert (Hs : step c s (EPfCheck false)
                 = Some (set_look (set_pf s PFAcq) (match look s with LANew => LAPending | l => l end))).
    { destruct G as (_ & Hf & _). unfold step, gstep. rewrite Ep, Hf. reflexivity. }
    pose proof (good_step c (taken s) _ _ _ G Hs I) as G1.
    destruct (acq_to_poll c _ G1 eq_refl Er Eq) as (s2 & D & K & E2).
    exists s2. split; [|split; [|exact E2]].
    + eapply drives_trans; [eapply drives_step; [exact Hs | exact I] | exact D].
    + eapply keeps_trans; [|exact K]. repeat split.
  - apply acq_to_poll; assumption.
  - exists s. split; [apply drives_refl | split; [apply keeps_refl | exact Ep]].
Qed.

(* ---- broker: the pending look-ahead receives a fresh message *)
Lemma poll_to_has c s : Good c s -> pf s = PFPoll ->
  exists s' id, drives c s s' /\ keeps s s' /\ pf s' = PFPoll /\ look s' = LAHas id.
Proof.
  intros G Ep. destruct G as (Hi & Hf & Hl & L & NB).
  destruct (i_pc _ _ Hi) as [P1 _]. rewrite Ep in P1.
  destruct (look s) eqn:El; try contradiction; try congruence.
  - set (m := S (list_max (taken s))).
    assert (Hm : mem m (taken s) = false).
    { destruct (mem m (taken s)) eqn:E; [|reflexivity]. apply mem_In in E. exfalso. exact (fresh_id _ E). }
    eexists. exists m. split; [|split; [|split]].
    + apply drives_step with (e := ETake m); [|apply fresh_id].
      unfold step, gstep. rewrite El, Ep, Hm. reflexivity.
    + repeat split.
    + exact Ep.
    + reflexivity.
  - exists s, id. split; [apply drives_refl | split; [apply keeps_refl | split; assumption]].
Qed.

(* ---- prefetcher: hand the message over *)
Lemma has_to_queue c s id : Good c s -> pf s = PFPoll -> look s = LAHas id ->
  exists s', drives c s s' /\ rn s' = rn s /\ queue s' = queue s ++ [IMsg id] /\ live s' = live s /\ ending s' = ending s.
Proof.
  intros (Hi & Hf & Hl & L & NB) Ep El.
  eexists. split; [apply drives_step with (e := EPfGot id true); [|exact I]|].
  - unfold step, gstep. rewrite Ep, El, Nat.eqb_refl, NB. reflexivity.
  - repeat split.
Qed.

(* ---- runner: spawn the callback of the first queued message *)
Lemma get_msg c s id q : Good c s -> rn s = RNGet -> queue s = IMsg id :: q ->
  exists s', drives c s s' /\ live s' = id :: live s /\ ending s' = ending s.
Proof.
  intros _ Er Eq. eexists. split; [apply drives_step with (e := ERnGet (IMsg id)); [|exact I]|].
  - unfold step, gstep. rewrite Er, Eq, Nat.eqb_refl. reflexivity.
  - split; reflexivity.
Qed.

(* ---- runner: a slot is free, so it reaches queue.get() *)
Lemma to_get c s : Good c s -> busy s < slots c ->
  exists s', drives c s s' /\ rn s' = RNGet /\ live s' = live s /\ ending s' = ending s.
Proof.
  intros G Hb. destruct (good_loop c s G) as (_ & [Er|Er] & _).
  - destruct G as (Hi & Hf & Hl & L & NB). pose proof (i_slots _ _ Hi L) as S. rewrite Er in S. cbn in S.
    destruct (sem s) as [|k] eqn:Es; [lia|].
    eexists. split; [apply drives_step with (e := ERnAcquire); [|exact I]|].
    + unfold step, gstep. rewrite Er, L, Es. reflexivity.
    + repeat split.
  - exists s. split; [apply drives_refl | repeat split; assumption].
Qed.

(* ---- one more callback is started *)
Lemma start_one c s : Good c s -> busy s < slots c ->
  exists s' id, drives c s s' /\ live s' = id :: live s /\ ending s' = ending s.
Proof.
  intros G Hb. destruct (to_get c s G Hb) as (s1 & D1 & Er1 & L1 & E1).
  pose proof (drives_good _ _ _ G D1) as G1.
  destruct (queue s1) as [|[id|] q] eqn:Eq.
  - destruct (to_poll c s1 G1 Er1 Eq) as (s2 & D2 & (K1 & K2 & K3 & K4) & Ep2).
    pose proof (drives_good _ _ _ G1 D2) as G2.
    destruct (poll_to_has c s2 G2 Ep2) as (s3 & id & D3 & (J1 & J2 & J3 & J4) & Ep3 & El3).
    pose proof (drives_good _ _ _ G2 D3) as G3.
    destruct (has_to_queue c s3 id G3 Ep3 El3) as (s4 & D4 & M1 & M2 & M3 & M4).
    pose proof (drives_good _ _ _ G3 D4) as G4.
    assert (Er4 : rn s4 = RNGet) by congruence.
    assert (Eq4 : queue s4 = IMsg id :: []). { rewrite M2, J2, K2, Eq. reflexivity. }
    destruct (get_msg c s4 id [] G4 Er4 Eq4) as (s5 & D5 & L5 & E5).
    exists s5, id. split; [|split; congruence].
    eapply drives_trans; [exact D1|]. eapply drives_trans; [exact D2|]. eapply drives_trans; [exact D3|].
    eapply drives_trans; [exact D4 | exact D5].
  - destruct (get_msg c s1 id q G1 Er1 Eq) as (s2 & D2 & L2 & E2).
    exists s2, id. split; [eapply drives_trans; eauto | split; congruence].
  - destruct (good_loop c s1 G1) as (_ & _ & W & _). rewrite Eq in W. discriminate.
Qed.

(* ---- (3) repeat until all slots are taken by running callbacks *)
Lemma fill c : forall k s, Good c s -> ending s = [] -> length (live s) + k = slots c ->
  exists s', drives c s s' /\ ending s' = [] /\ length (live s') = slots c.
Proof.
  induction k as [|k IH]; intros s G He Hk.
  - exists s. split; [apply drives_refl | split; [exact He | lia]].
  - assert (Hb : busy s < slots c). { unfold busy. rewrite He. simpl. lia. }
    destruct (start_one c s G Hb) as (s1 & id & D1 & L1 & E1).
    pose proof (drives_good _ _ _ G D1) as G1.
    destruct (IH s1 G1) as (s2 & D2 & E2 & L2).
    + congruence.
    + rewrite L1. simpl. lia.
    + exists s2. split; [eapply drives_trans; eauto | split; assumption].
Qed.

(* ---- (1) run the done-callbacks of the callbacks that have ended *)
Lemma drain c : forall n s, Good c s -> length (ending s) = n ->
  exists s', drives c s s' /\ ending s' = [] /\ live s' = live s.
Proof.
  induction n as [|n IH]; intros s G Hn.
  - exists s. split; [apply drives_refl | split; [|reflexivity]]. destruct (ending s); [reflexivity | discriminate].
  - destruct (ending s) as [|id t] eqn:Ee; [discriminate|].
    assert (Hs : step c s (ECbDone id true) = Some (set_sem (set_ending s t) (S (sem s)))).
    { destruct G as (_ & _ & _ & L & _). unfold step, gstep. rewrite Ee, L. simpl. rewrite Nat.eqb_refl. reflexivity. }
    pose proof (good_step c (taken s) _ _ _ G Hs I) as G1.
    destruct (IH _ G1) as (s2 & D2 & E2 & L2).
    + simpl in Hn. fields. lia.
    + exists s2. split; [|split; [exact E2 | exact L2]].
      eapply drives_trans; [eapply drives_step; [exact Hs | exact I] | exact D2].
Qed.

Lemma nobudget_reached c : cN c = None \/ cN c = Some 0 -> forall f, reachedN c f = false.
Proof. unfold reachedN. intros [->| ->] f; reflexivity. Qed.

(* under the hypotheses of the theorem the prefetcher is still in its loop and the runner has not met the sentinel *)
Lemma sat_not_past_sentinel c a tr s :
  cA c = Some a -> 0 < a -> cN c = None \/ cN c = Some 0 ->
  run c (init c) tr = Some s -> fin s = false -> look s <> LAEnded ->
  (pf s = PFTop \/ pf s = PFAcq \/ pf s = PFPoll) /\ (rn s = RNAcq \/ rn s = RNGet).
Proof.
  intros Ha Hp Hn Hr Hf Hl.
  assert (G : Good c s).
  { split; [eapply reach_inv; exact Hr|]. repeat split; auto using nobudget_reached. eapply limited_pos; eauto. }
  destruct (good_loop c s G) as (H1 & H2 & _). split; assumption.
Qed.

Theorem saturable c a tr s :
  cA c = Some a -> 0 < a -> cN c = None \/ cN c = Some 0 ->
  run c (init c) tr = Some s -> fin s = false -> look s <> LAEnded ->
  exists tr' s', run c s tr' = Some s'
    /\ busy s' = a /\ length (live s') = a /\ incl (live s) (live s')
    /\ (forall e, In e tr' -> sat_event (taken s) e).
Proof.
  intros Ha Hp Hn Hr Hf Hl.
  assert (G : Good c s).
  { split; [eapply reach_inv; exact Hr|]. repeat split; auto using nobudget_reached. eapply limited_pos; eauto. }
  assert (Sa : slots c = a). { unfold slots. rewrite Ha. reflexivity. }
  destruct (drain c _ s G eq_refl) as (s1 & D1 & E1 & L1).
  pose proof (drives_good _ _ _ G D1) as G1.
  assert (Hle : length (live s1) <= slots c).
  { destruct G1 as (Hi & _ & _ & L & _). pose proof (i_slots _ _ Hi L) as S. unfold busy in S. lia. }
  destruct (fill c (slots c - length (live s1)) s1 G1 E1) as (s2 & D2 & E2 & L2); [lia|].
  destruct (drives_trans _ _ _ _ D1 D2) as (tr' & R & F).
  exists tr', s2. split; [exact R|]. split; [|split; [|split]].
  - unfold busy. rewrite E2, L2, Sa. simpl. lia.
  - congruence.
  - eapply live_run; eauto.
  - apply Forall_forall. exact F.
Qed.
