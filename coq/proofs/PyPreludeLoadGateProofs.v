(* Facts that the source tie of taskiq/serialization.py's load side needs and that do not depend on any generated text:
   the `for name in path: cls = getattr(cls, name)` loop IS LoadGate.walk; what Python's call expression does on a
   target that passed the gate.  Used by coq/srcproofs/Src_load_gate_C20.v (re-checked against the freshly generated
   Gen_load_gate.v on every run). *)
From Coq Require Import List NArith Bool.
From TQ Require Import LoadGate LoadGateProofs PyStm PyPreludeLoadGate.
Import ListNotations.

(* a `for_` loop over a list of names whose body is one getattr step, started on an object of the environment,
   is the model's walk: the object reached, or AttributeError at the first missing name; no effect either way *)
Lemma for_getattr_walk : forall {R} (body : name -> target -> stm effect lexc R target) pth o,
  (forall n t, body n t = lift (py_getattr t n)) ->
  for_ pth body (TEnv o) =
  match walk o pth with Some o' => next (TEnv o') | None => raise_ XAttributeError end.
Proof.
  intros R body pth. induction pth as [|s pth IH]; intros o H; [reflexivity|].
  cbn [for_ walk]. rewrite H. unfold py_getattr. destruct (assoc s (oattrs o)) as [o'|].
  - rewrite <- (IH o' H). unfold lift, sbind, bind, ret.
    destruct (for_ pth body (TEnv o')) as [es r]. reflexivity.
  - reflexivity.
Qed.

(* a target that is a class and a subclass of BaseException never hands back a non-exception when called *)
Lemma pycall_exception_class : forall t args es,
  is_type t = true -> is_exc_subclass t = true -> pycall t args <> (CROther, es).
Proof.
  intros t args es Ht Hs. destruct t as [o| |]; cbn; try discriminate.
  unfold is_type, is_exc_subclass in *. destruct (okind o) as [c| | | | |]; try discriminate.
  destruct c as [|n| | |tb]; try discriminate.
  - destruct (Nat.eqb (length args) n); discriminate.
  - destruct (assoc_nat (length args) tb); discriminate.
Qed.

(* the short-circuit test of line 378 in terms of its two halves *)
Lemma gate_rejects_cases : forall t,
  gate_rejects t = if is_type t then negb (is_exc_subclass t) else true.
Proof. intros t. unfold gate_rejects. destruct (is_type t); reflexivity. Qed.

(* Exception(<text>) : builtins.Exception is instantiated, nothing else happens *)
Lemma new_fallback_exception_run : forall u,
  new_fallback_exception u = ([Instantiate TFallback], Ok (VExn (XNew CFallback [] None None false))).
Proof. reflexivity. Qed.

(* `p is not None` on a payload whose two non-None arms do the same thing *)
Definition is_pnone (p : payload) : bool := match p with PNone => true | _ => false end.

Lemma payload_match_merge : forall {T} (p : payload) (a b : T),
  match p with PNone => a | PInst _ => b | PRepr _ _ _ _ _ _ => b end = if is_pnone p then a else b.
Proof. intros T [| |]; reflexivity. Qed.

Lemma is_pnone_true : forall p, is_pnone p = true -> p = PNone.
Proof. intros [| |]; cbn; congruence. Qed.

(* the model hands back None for the None payload only *)
Lemma conv_ok_none : forall e p ec, conv e p = (COk None, ec) -> is_pnone p = true.
Proof.
  intros e p ec H. pose proof (conv_outcome e p) as HO. unfold conv_outcome_spec in HO. rewrite H in HO. cbn in HO.
  subst p. reflexivity.
Qed.
