(* Lemmas about the primitives of PyPreludeLabels.v, independent of any generated text; used by
   coq/srcproofs/Src_labels_C09.v (the source tie of taskiq/labels.py + TaskiqMessage.parse_labels, property C09). *)
From Coq Require Import ZArith NArith List Bool String Ascii Lia.
From Coq.Strings Require Import Byte.
From TQ Require Import Base64 Base64Proofs Labels LabelsProofs PyStm PyPreludeLabels.
Import ListNotations.
Open Scope N_scope.
Open Scope list_scope.

(* ---------------------------------------------------------------- base64 text is ASCII: .decode() is the identity on it *)
Lemma b64encode_ascii : forall bs, forallb (fun c => c <? 128) (b64encode bs) = true.
Proof.
  assert (E : forall n, n < 64 -> (enc6 n <? 128) = true) by (intros n H; apply N.ltb_lt, enc6_ascii, H).
  induction bs as [|a|a b|a b c r IH] using list3_ind.
  - reflexivity.
  - pose proof (group1 (bN a) (bN_bound a)) as [G1 [G2 _]].
    cbn [b64encode forallb]. rewrite !E by assumption. reflexivity.
  - pose proof (group2 (bN a) (bN b) (bN_bound a) (bN_bound b)) as [G1 [G2 [G3 _]]].
    cbn [b64encode forallb]. rewrite !E by assumption. reflexivity.
  - pose proof (group3 (bN a) (bN b) (bN c) (bN_bound a) (bN_bound b) (bN_bound c)) as [G1 [G2 [G3 [G4 _]]]].
    cbn [b64encode]. cbv zeta. cbn [forallb]. rewrite !E by assumption. rewrite IH. reflexivity.
Qed.

Lemma bytes_decode_b64 : forall W bs, bytes_decode W (b64encode bs) = Some (b64encode bs).
Proof. intros W bs. unfold bytes_decode. now rewrite b64encode_ascii. Qed.

(* ---------------------------------------------------------------- == on str is symmetric *)
Lemma pstr_eqb_sym : forall a b, pstr_eqb a b = pstr_eqb b a.
Proof.
  induction a as [|x a IH]; destruct b as [|y b]; try reflexivity.
  cbn [pstr_eqb]. rewrite IH, (N.eqb_sym x y). reflexivity.
Qed.

(* ---------------------------------------------------------------- enum lookups *)
Lemma enum_call_none : forall (E : enum) v, ~ In v (map snd E) -> enum_call E v = None.
Proof.
  intros E v H. unfold enum_call.
  destruct (find (fun m => snd m =? v) E) as [m|] eqn:F; [|reflexivity].
  apply find_some in F. destruct F as [I Q]. apply N.eqb_eq in Q. exfalso. apply H. rewrite <- Q. now apply in_map.
Qed.

Lemma enum_call_some : forall (E : enum) v m, enum_call E v = Some m -> m = v /\ In v (map snd E).
Proof.
  intros E v m H. unfold enum_call in H.
  destruct (find (fun m => snd m =? v) E) as [x|] eqn:F; [|discriminate].
  apply find_some in F. destruct F as [I Q]. apply N.eqb_eq in Q. cbn in H. injection H as <-. split; [exact Q|].
  rewrite <- Q. now apply in_map.
Qed.

(* ---------------------------------------------------------------- the statement monad *)
Section Monad.
  Context {E X R A B : Type}.
  Lemma sbind_next : forall (a : A) (f : A -> stm E X R B), sbind (next a) f = f a.
  Proof. intros a f. unfold sbind, next, ret, bind. destruct (f a) as [es o]. reflexivity. Qed.
  Lemma sbind_raise : forall (x : X) (f : A -> stm E X R B), sbind (raise_ x) f = raise_ x.
  Proof. reflexivity. Qed.
End Monad.

(* ---------------------------------------------------------------- TaskiqMessage.parse_labels: the loop *)
Lemma dget_map_LStr : forall k (raw : dict pstr),
  dget k (map (fun kv => (fst kv, LStr (snd kv))) raw) = option_map LStr (dget k raw).
Proof.
  intros k raw. induction raw as [|[k' s] r IH]; [reflexivity|].
  cbn [map fst snd dget]. destruct (k =? k'); [reflexivity|exact IH].
Qed.

Section Loop.
  Variable fos : pstr -> option Z.
  Variable pl : lval -> option N -> option lval.          (* the generated parse_label *)
  Hypothesis pl_ok : forall s t, pl (LStr s) (Some t) = Labels.parse_label fos s t.

  (* one iteration of
       for label, label_type in self.labels_types.items():
           if label in self.labels: self.labels[label] = parse_label(self.labels[label], label_type) *)
  Definition parse_step (kt : key * N) (m : tmsg) : stm Empty_set unit tmsg tmsg :=
    match dget (fst kt) (tm_labels m) with
    | None => next m
    | Some x =>
        match pl x (Some (snd kt)) with
        | Some v => next (tmsg_setitem_labels m (fst kt) v)
        | None => raise_ tt
        end
    end.

  Variable body : key * N -> tmsg -> stm Empty_set unit tmsg tmsg.
  Hypothesis body_ok : forall kt m, body kt m = parse_step kt m.

  (* labels_types is a Python dict: its keys are pairwise different.  While a key is still to come, the message holds
     the wire string for it; the already parsed entries are exactly the model's accumulator. *)
  Lemma for_parse_loop : forall (ts : dict N) (raw : dict pstr) (acc : dict lval) (tys : option (dict N)),
    NoDup (keys ts) ->
    (forall k, In k (keys ts) -> dget k acc = option_map LStr (dget k raw)) ->
    for_ ts body (mkTMsg acc tys)
    = match parse_loop fos ts raw acc with
      | Some L => next (mkTMsg L tys)
      | None => raise_ tt
      end.
  Proof.
    induction ts as [|[k t] ts IH]; intros raw acc tys ND INV.
    - reflexivity.
    - cbn [for_ parse_loop]. rewrite body_ok. unfold parse_step. cbn [fst snd tm_labels].
      rewrite (INV k) by (left; reflexivity).
      inversion ND as [|? ? Hk ND']; subst.
      destruct (dget k raw) as [s|] eqn:D; cbn [option_map].
      + rewrite pl_ok. destruct (Labels.parse_label fos s t) as [v|]; [|apply (sbind_raise tt)].
        rewrite sbind_next. unfold tmsg_setitem_labels. cbn [tm_labels tm_types].
        apply IH; [exact ND'|].
        intros k' I. rewrite dget_dset_other; [apply INV; right; exact I|].
        intro Q. subst k'. exact (Hk I).
      + rewrite sbind_next. apply IH; [exact ND'|]. intros k' I. apply INV. right. exact I.
  Qed.
End Loop.

(* keys of the type dictionary _prepare_message builds *)
Lemma keys_map_snd {A B} : forall (f : key * A -> B) (d : dict A), keys (map (fun kv => (fst kv, f kv)) d) = keys d.
Proof. intros f d. unfold keys. rewrite map_map. reflexivity. Qed.

(* ---------------------------------------------------------------- the send side: for label, val in d.items():
   labels[label], labels_types[label] = prepare_label(val) *)
Definition rawd (sof : Z -> pstr) (d : dict lval) : dict pstr := map (fun kv => (fst kv, fst (prepare_label sof (snd kv)))) d.
Definition typd (sof : Z -> pstr) (d : dict lval) : dict N := map (fun kv => (fst kv, snd (prepare_label sof (snd kv)))) d.

Lemma prepare_labels_rawd_typd : forall sof d, prepare_labels sof d = mkWire (rawd sof d) (Some (typd sof d)).
Proof. reflexivity. Qed.

Section PrepLoop.
  Context {E X R : Type}.
  Variable sof : Z -> pstr.
  (* one iteration; the loop state is the pair (labels, labels_types) *)
  Definition prep_step (kv : key * lval) (st : dict pstr * dict N) : stm E X R (dict pstr * dict N) :=
    next (dset (fst kv) (fst (prepare_label sof (snd kv))) (fst st), dset (fst kv) (snd (prepare_label sof (snd kv))) (snd st)).
  Variable body : key * lval -> dict pstr * dict N -> stm E X R (dict pstr * dict N).
  Hypothesis body_ok : forall kv st, body kv st = prep_step kv st.

  (* the source dict is a Python dict: keys pairwise different, so every store appends *)
  Lemma for_prep_loop : forall (d d1 : dict lval), NoDup (keys (d1 ++ d)) ->
    for_ d body (rawd sof d1, typd sof d1) = next (rawd sof (d1 ++ d), typd sof (d1 ++ d)).
  Proof.
    induction d as [|[k v] d IH]; intros d1 ND.
    - cbn [for_]. now rewrite app_nil_r.
    - assert (Hk : ~ In k (keys d1)).
      { unfold keys in ND. rewrite map_app in ND. apply NoDup_remove_2 in ND.
        intro I. apply ND. apply in_or_app. now left. }
      cbn [for_]. rewrite body_ok. unfold prep_step. cbn [fst snd]. rewrite sbind_next.
      assert (A1 : dset k (fst (prepare_label sof v)) (rawd sof d1) = rawd sof (d1 ++ [(k, v)])).
      { rewrite <- (app_nil_r (rawd sof d1)). rewrite dset_app_notin by (unfold rawd; rewrite keys_map_snd; exact Hk).
        unfold rawd. rewrite map_app. reflexivity. }
      assert (A2 : dset k (snd (prepare_label sof v)) (typd sof d1) = typd sof (d1 ++ [(k, v)])).
      { rewrite <- (app_nil_r (typd sof d1)). rewrite dset_app_notin by (unfold typd; rewrite keys_map_snd; exact Hk).
        unfold typd. rewrite map_app. reflexivity. }
      rewrite A1, A2. specialize (IH (d1 ++ [(k, v)])). rewrite <- app_assoc in IH. cbn [app] in IH. exact (IH ND).
  Qed.

  Corollary for_prep_loop_nil : forall d, NoDup (keys d) -> for_ d body ([], []) = next (rawd sof d, typd sof d).
  Proof. intros d ND. exact (for_prep_loop d [] ND). Qed.
End PrepLoop.

(* the same loop when the two local names sort the other way round: the state is (labels_types, labels) *)
Section PrepLoopSw.
  Context {E X R : Type}.
  Variable sof : Z -> pstr.
  Definition prep_step_sw (kv : key * lval) (st : dict N * dict pstr) : stm E X R (dict N * dict pstr) :=
    next (dset (fst kv) (snd (prepare_label sof (snd kv))) (fst st), dset (fst kv) (fst (prepare_label sof (snd kv))) (snd st)).
  Variable body : key * lval -> dict N * dict pstr -> stm E X R (dict N * dict pstr).
  Hypothesis body_ok : forall kv st, body kv st = prep_step_sw kv st.

  Lemma for_prep_loop_sw : forall (d d1 : dict lval), NoDup (keys (d1 ++ d)) ->
    for_ d body (typd sof d1, rawd sof d1) = next (typd sof (d1 ++ d), rawd sof (d1 ++ d)).
  Proof.
    induction d as [|[k v] d IH]; intros d1 ND.
    - cbn [for_]. now rewrite app_nil_r.
    - assert (Hk : ~ In k (keys d1)).
      { unfold keys in ND. rewrite map_app in ND. apply NoDup_remove_2 in ND.
        intro I. apply ND. apply in_or_app. now left. }
      cbn [for_]. rewrite body_ok. unfold prep_step_sw. cbn [fst snd]. rewrite sbind_next.
      assert (A1 : dset k (fst (prepare_label sof v)) (rawd sof d1) = rawd sof (d1 ++ [(k, v)])).
      { rewrite <- (app_nil_r (rawd sof d1)). rewrite dset_app_notin by (unfold rawd; rewrite keys_map_snd; exact Hk).
        unfold rawd. rewrite map_app. reflexivity. }
      assert (A2 : dset k (snd (prepare_label sof v)) (typd sof d1) = typd sof (d1 ++ [(k, v)])).
      { rewrite <- (app_nil_r (typd sof d1)). rewrite dset_app_notin by (unfold typd; rewrite keys_map_snd; exact Hk).
        unfold typd. rewrite map_app. reflexivity. }
      rewrite A1, A2. specialize (IH (d1 ++ [(k, v)])). rewrite <- app_assoc in IH. cbn [app] in IH. exact (IH ND).
  Qed.

  Corollary for_prep_loop_sw_nil : forall d, NoDup (keys d) -> for_ d body ([], []) = next (typd sof d, rawd sof d).
  Proof. intros d ND. exact (for_prep_loop_sw d [] ND). Qed.
End PrepLoopSw.
