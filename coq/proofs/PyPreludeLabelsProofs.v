(* Lemmas about the primitives of PyPreludeLabels.v, independent of any generated text; used by
   coq/srcproofs/Src_labels_C09.v (the source tie of taskiq/labels.py + TaskiqMessage.parse_labels, property C09). *)
From Coq Require Import ZArith NArith List Bool String Ascii Lia.
From Coq.Strings Require Import Byte.
From TQ Require Import Base64 Base64Proofs Labels LabelsProofs PyStm PyPreludeLabels.
Import ListNotations.
Open Scope N_scope.

(* ---------------------------------------------------------------- base64 text is ASCII: .decode() is the identity on it *)
Lemma b64encode_ascii : forall bs, forallb (fun c => c <? 128) (b64encode bs) = true.
Proof.
  assert (E : forall n, n < 64 -> (enc6 n <? 128) = true) by (intros n H; apply N.ltb_lt, enc6_ascii, H).
  induction bs as [|a|a b|a b c r IH] using list3_ind.
  - reflexivity.
  - pose proof (group1 (bN a) (bN_bound a)) as [G1 [G2 _]].
    cbn [b64encode forallb]. rewrite !E by assumption. reflexivity.
  - pose proof (group2 (bN a) (bN b) (bN_bound a) (bN_bound b)) as [G1 [G2 [G3 _]]].
    cbn [b64encode forallb]. rewrite !E by assumption. reflexivity.
  - pose proof (group3 (bN a) (bN b) (bN c) (bN_bound a) (bN_bound b) (bN_bound c)) as [G1 [G2 [G3 [G4 _]]]].
    cbn [b64encode]. cbv zeta. cbn [forallb]. rewrite !E by assumption. rewrite IH. reflexivity.
Qed.

Lemma bytes_decode_b64 : forall W bs, bytes_decode W (b64encode bs) = Some (b64encode bs).
Proof. intros W bs. unfold bytes_decode. now rewrite b64encode_ascii. Qed.

(* ---------------------------------------------------------------- == on str is symmetric *)
Lemma pstr_eqb_sym : forall a b, pstr_eqb a b = pstr_eqb b a.
Proof.
  induction a as [|x a IH]; destruct b as [|y b]; try reflexivity.
  cbn [pstr_eqb]. rewrite IH, (N.eqb_sym x y). reflexivity.
Qed.

(* ---------------------------------------------------------------- enum lookups *)
Lemma enum_call_none : forall (E : enum) v, ~ In v (map snd E) -> enum_call E v = None.
Proof.
  intros E v H. unfold enum_call.
  destruct (find (fun m => snd m =? v) E) as [m|] eqn:F; [|reflexivity].
  apply find_some in F. destruct F as [I Q]. apply N.eqb_eq in Q. exfalso. apply H. rewrite <- Q. now apply in_map.
Qed.

Lemma enum_call_some : forall (E : enum) v m, enum_call E v = Some m -> m = v /\ In v (map snd E).
Proof.
  intros E v m H. unfold enum_call in H.
  destruct (find (fun m => snd m =? v) E) as [x|] eqn:F; [|discriminate].
  apply find_some in F. destruct F as [I Q]. apply N.eqb_eq in Q. cbn in H. injection H as <-. split; [exact Q|].
  rewrite <- Q. now apply in_map.
Qed.

(* ---------------------------------------------------------------- the statement monad without effects *)
Section Monad.
  Context {R A B : Type}.
  Lemma sbind_next : forall (a : A) (f : A -> stm Empty_set unit R B), sbind (next a) f = f a.
  Proof. intros a f. unfold sbind, next, ret, bind. destruct (f a) as [es o]. reflexivity. Qed.
  Lemma sbind_raise : forall (f : A -> stm Empty_set unit R B), sbind (raise_ tt) f = raise_ tt.
  Proof. reflexivity. Qed.
End Monad.

(* ---------------------------------------------------------------- TaskiqMessage.parse_labels: the loop *)
Lemma dget_map_LStr : forall k (raw : dict pstr),
  dget k (map (fun kv => (fst kv, LStr (snd kv))) raw) = option_map LStr (dget k raw).
Proof.
  intros k raw. induction raw as [|[k' s] r IH]; [reflexivity|].
  cbn [map fst snd dget]. destruct (k =? k'); [reflexivity|exact IH].
Qed.

Section Loop.
  Variable fos : pstr -> option Z.
  Variable pl : lval -> option N -> option lval.          (* the generated parse_label *)
  Hypothesis pl_ok : forall s t, pl (LStr s) (Some t) = Labels.parse_label fos s t.

  (* one iteration of
       for label, label_type in self.labels_types.items():
           if label in self.labels: self.labels[label] = parse_label(self.labels[label], label_type) *)
  Definition parse_step (kt : key * N) (m : tmsg) : stm Empty_set unit tmsg tmsg :=
    match dget (fst kt) (tm_labels m) with
    | None => next m
    | Some x =>
        match pl x (Some (snd kt)) with
        | Some v => next (tmsg_setitem_labels m (fst kt) v)
        | None => raise_ tt
        end
    end.

  Variable body : key * N -> tmsg -> stm Empty_set unit tmsg tmsg.
  Hypothesis body_ok : forall kt m, body kt m = parse_step kt m.

  (* labels_types is a Python dict: its keys are pairwise different.  While a key is still to come, the message holds
     the wire string for it; the already parsed entries are exactly the model's accumulator. *)
  Lemma for_parse_loop : forall (ts : dict N) (raw : dict pstr) (acc : dict lval) (tys : option (dict N)),
    NoDup (keys ts) ->
    (forall k, In k (keys ts) -> dget k acc = option_map LStr (dget k raw)) ->
    for_ ts body (mkTMsg acc tys)
    = match parse_loop fos ts raw acc with
      | Some L => next (mkTMsg L tys)
      | None => raise_ tt
      end.
  Proof.
    induction ts as [|[k t] ts IH]; intros raw acc tys ND INV.
    - reflexivity.
    - cbn [for_ parse_loop]. rewrite body_ok. unfold parse_step. cbn [fst snd tm_labels].
      rewrite (INV k) by (left; reflexivity).
      inversion ND as [|? ? Hk ND']; subst.
      destruct (dget k raw) as [s|] eqn:D; cbn [option_map].
      + rewrite pl_ok. destruct (Labels.parse_label fos s t) as [v|]; [|apply sbind_raise].
        rewrite sbind_next. unfold tmsg_setitem_labels. cbn [tm_labels tm_types].
        apply IH; [exact ND'|].
        intros k' I. rewrite dget_dset_other; [apply INV; right; exact I|].
        intro Q. subst k'. exact (Hk I).
      + rewrite sbind_next. apply IH; [exact ND'|]. intros k' I. apply INV. right. exact I.
  Qed.
End Loop.

(* keys of the type dictionary _prepare_message builds *)
Lemma keys_map_snd {A B} : forall (f : key * A -> B) (d : dict A), keys (map (fun kv => (fst kv, f kv)) d) = keys d.
Proof. intros f d. unfold keys. rewrite map_map. reflexivity. Qed.
