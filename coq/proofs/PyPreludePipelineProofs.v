(* Facts about the statement monad of PyPreludePipeline.v that do not depend on any generated text: monad laws, the
   `for_` loop over the indexed middleware stack with a body of the hook shape IS the hand-written hook loop of
   Pipeline.v (one induction per loop shape), and which exceptions a hook loop can raise.  Used by coq/srcproofs/
   Src_callback_*.v (the proofs that are re-checked against the freshly generated Gen_callback.v on every run). *)
From Coq Require Import List Arith Bool ZArith.
From TQ Require Import Base Pipeline PyPreludePipeline.
Import ListNotations.

(* ------------------------------------------------------------------------------------------ monad laws *)
Lemma bind_ret_l : forall {A B} (v : A) (f : A -> M B), bind (ret v) f = f v.
Proof. intros. unfold bind, ret. destruct (f v). reflexivity. Qed.

Lemma bind_ret_r : forall {A} (a : M A), bind a (fun v => ret v) = a.
Proof. intros A [es [v|x]]; cbn; [rewrite app_nil_r|]; reflexivity. Qed.

Lemma bind_assoc : forall {A B C} (a : M A) (f : A -> M B) (g : B -> M C),
  bind (bind a f) g = bind a (fun v => bind (f v) g).
Proof.
  intros A B C [es [v|x]] f g; cbn; [|reflexivity].
  destruct (f v) as [es1 [v1|x1]]; cbn; [|reflexivity].
  destruct (g v1) as [es2 o2]. rewrite app_assoc. reflexivity.
Qed.

Lemma bind_ext : forall {A B} (a : M A) (f g : A -> M B), (forall v, f v = g v) -> bind a f = bind a g.
Proof. intros A B [es [v|x]] f g H; cbn; [rewrite H|]; reflexivity. Qed.

Lemma sbind_lift : forall {R A B} (a : M A) (f : A -> stm R B), sbind (lift a) f = bind a f.
Proof.
  intros. unfold sbind, lift. rewrite bind_assoc. apply bind_ext. intros v. rewrite bind_ret_l. reflexivity.
Qed.

Lemma lift_bind : forall {R A B} (a : M A) (f : A -> M B), @lift R _ (bind a f) = bind a (fun v => lift (f v)).
Proof. intros. unfold lift. apply bind_assoc. Qed.

Lemma sbind_next_l : forall {R A B} (v : A) (f : A -> stm R B), sbind (next v) f = f v.
Proof. intros. unfold sbind, next. rewrite bind_ret_l. reflexivity. Qed.

(* ------------------------------------------------------------------------------------------ loops *)
Lemma indexed_from_cons : forall i w st, indexed_from i (w :: st) = (i, w) :: indexed_from (S i) st.
Proof. reflexivity. Qed.

(* one iteration of a message-hook loop / of a result-hook loop, as the model performs it *)
Definition msg_step {R} (k : hookk) (sel : mw -> option (msg -> option msg)) (j : nat) (w : mw) (m : msg) : stm R msg :=
  match sel w with
  | None => next m
  | Some f => lift (emit (FHookM k j m) ;;; match f m with Some m' => ret m' | None => raise XHook end)
  end.
Definition res_step {R} (k : hookk) (sel : mw -> option (res -> option res)) (x : option nat) (m : msg)
           (j : nat) (w : mw) (r : res) : stm R res :=
  match sel w with
  | None => next r
  | Some f => lift (emit (FHookR k j m r x) ;;; match f r with Some r' => ret r' | None => raise XHook end)
  end.

Lemma for_msg_hook : forall {R} k sel (body : nat * mw -> msg -> stm R msg) st i m,
  (forall j w m', body (j, w) m' = msg_step k sel j w m') ->
  for_ (indexed_from i st) body m = lift (msg_hook_loop k sel i st m).
Proof.
  intros R k sel body st. induction st as [|w st IH]; intros i m H; [reflexivity|].
  cbn [indexed_from for_ msg_hook_loop]. rewrite H. unfold msg_step. destruct (sel w) as [f|].
  - rewrite sbind_lift, lift_bind, bind_assoc. apply bind_ext. intros _.
    rewrite lift_bind. apply bind_ext. intros m'. apply IH. exact H.
  - rewrite sbind_next_l. apply IH. exact H.
Qed.

Lemma for_res_hook : forall {R} k sel x m (body : nat * mw -> res -> stm R res) st i r,
  (forall j w r', body (j, w) r' = res_step k sel x m j w r') ->
  for_ (indexed_from i st) body r = lift (res_hook_loop k sel x i st m r).
Proof.
  intros R k sel x m body st. induction st as [|w st IH]; intros i r H; [reflexivity|].
  cbn [indexed_from for_ res_hook_loop]. rewrite H. unfold res_step. destruct (sel w) as [f|].
  - rewrite sbind_lift, lift_bind, bind_assoc. apply bind_ext. intros _.
    rewrite lift_bind. apply bind_ext. intros r'. apply IH. exact H.
  - rewrite sbind_next_l. apply IH. exact H.
Qed.

(* ------------------------------------------------------------------------------------------ exceptions of loops *)
Lemma snd_bind' : forall {A B} (a : M A) (f : A -> M B),
  snd (bind a f) = match snd a with Ok v => snd (f v) | Exc x => Exc x end.
Proof. intros A B [es [v|x]] f; simpl; [destruct (f v)|]; reflexivity. Qed.

Lemma msg_loop_exc : forall k sel st i m es x, msg_hook_loop k sel i st m = (es, Exc x) -> x = XHook.
Proof.
  intros k sel st. induction st as [|w st IH]; intros i m es x H; [discriminate|].
  cbn [msg_hook_loop] in H. destruct (sel w) as [f|]; [|eapply IH; exact H].
  apply (f_equal snd) in H. rewrite snd_bind' in H. cbn [emit snd] in H. rewrite snd_bind' in H.
  destruct (f m) as [m'|]; cbn [ret raise snd] in H; [|congruence].
  destruct (msg_hook_loop k sel (S i) st m') as [es' o'] eqn:E. cbn [snd] in H. subst o'. eapply IH. exact E.
Qed.

Lemma res_loop_exc : forall k sel y st i m r es x, res_hook_loop k sel y i st m r = (es, Exc x) -> x = XHook.
Proof.
  intros k sel y st. induction st as [|w st IH]; intros i m r es x H; [discriminate|].
  cbn [res_hook_loop] in H. destruct (sel w) as [f|]; [|eapply IH; exact H].
  apply (f_equal snd) in H. rewrite snd_bind' in H. cbn [emit snd] in H. rewrite snd_bind' in H.
  destruct (f r) as [r'|]; cbn [ret raise snd] in H; [|congruence].
  destruct (res_hook_loop k sel y (S i) st m r') as [es' o'] eqn:E. cbn [snd] in H. subst o'. eapply IH. exact E.
Qed.
