(* C17: one live process per slot (trace checker, its meaning, the model satisfies it) and replacement of
   dead workers within two ticks - lemmas over the model of ProcMan.v *)
From Coq Require Import ZArith List Bool Arith Lia.
Import ListNotations.
From TQ Require Import ProcMan ProcManInv ProcManC18.

(* ------------------------------------------------------------------ the trace checker's state *)
Definition occ_after (occ : list (nat * nat)) (tr : list effect) := fold_left occ_step tr occ.
Definition last_after (last : list (nat * nat)) (tr : list effect) := fold_left last_step tr last.
(* processes started and not yet joined / every start, newest first, after the effects `pre` *)
Definition unjoined (pre : list effect) := occ_after [] pre.
Definition starts (pre : list effect) := last_after [] pre.

Lemma slot_occ_cons s s' p occ :
  slot_occ s ((s', p) :: occ) = if s' =? s then p :: slot_occ s occ else slot_occ s occ.
Proof. unfold slot_occ; simpl. destruct (s' =? s); reflexivity. Qed.

Lemma slot_occ_drop s q occ :
  slot_occ s (drop_pid q occ) = filter (fun p => negb (p =? q)) (slot_occ s occ).
Proof.
  unfold slot_occ, drop_pid. induction occ as [|[s' p] occ IH]; simpl; auto.
  destruct (p =? q) eqn:PQ; destruct (s' =? s) eqn:SS; simpl; rewrite ?SS, ?PQ; simpl; rewrite ?IH; auto.
Qed.

Lemma filter_length_le A (f : A -> bool) l : length (filter f l) <= length l.
Proof. induction l; simpl; auto. destruct (f a); simpl; lia. Qed.

Lemma olps_go_app a : forall occ last rpre b,
  olps_go occ last rpre (a ++ b) =
  olps_go occ last rpre a && olps_go (occ_after occ a) (last_after last a) (rev a ++ rpre) b.
Proof.
  induction a as [|e a IH]; intros; simpl; auto.
  rewrite IH, <- app_assoc. simpl. rewrite andb_assoc. reflexivity.
Qed.

Lemma occ_after_app occ a b : occ_after occ (a ++ b) = occ_after (occ_after occ a) b.
Proof. apply fold_left_app. Qed.
Lemma last_after_app l a b : last_after l (a ++ b) = last_after (last_after l a) b.
Proof. apply fold_left_app. Qed.

(* ------------------------------------------------------------------ what the checker establishes *)
Definition one_live_per_slot (tr : list effect) : Prop :=
  forall pre suf, tr = pre ++ suf ->
    (forall s, length (slot_occ s (unjoined pre)) <= 1) /\
    (forall s p suf', suf = Start s p :: suf' ->
       slot_occ s (unjoined pre) = [] /\
       forall q, last_started s (starts pre) = Some q -> exists pre', pre = pre' ++ [Terminate q; Join q]).

Lemma olps_sound_gen tr : forall occ last rpre,
  olps_go occ last rpre tr = true -> (forall s, length (slot_occ s occ) <= 1) ->
  forall pre suf, tr = pre ++ suf ->
    (forall s, length (slot_occ s (occ_after occ pre)) <= 1) /\
    (forall s p suf', suf = Start s p :: suf' ->
       slot_occ s (occ_after occ pre) = [] /\
       forall q, last_started s (last_after last pre) = Some q ->
                 exists r, rev pre ++ rpre = Join q :: Terminate q :: r).
Proof.
  induction tr as [|e t IH]; intros occ last rpre HG HL pre suf EQ.
  - destruct pre; [|discriminate]. simpl in EQ. subst suf. simpl. split; auto. intros; discriminate.
  - destruct pre as [|e' pre].
    + simpl in EQ. subst suf. simpl. split; auto.
      intros s p suf' E. inversion E; subst. simpl in HG. apply andb_prop in HG. destruct HG as [SO _].
      unfold start_ok in SO. apply andb_prop in SO. destruct SO as [S1 S2].
      split; [destruct (slot_occ s occ); [auto|discriminate]|].
      intros q LQ. rewrite LQ in S2. destruct rpre as [|[] [|[] r]]; try discriminate.
      apply andb_prop in S2. destruct S2 as [A B]. apply Nat.eqb_eq in A, B. subst. eauto.
    + simpl in EQ. inversion EQ; subst e' t. simpl in HG. apply andb_prop in HG. destruct HG as [SO HG].
      assert (HL' : forall s, length (slot_occ s (occ_step occ e)) <= 1).
      { intro s. destruct e; simpl; auto.
        - rewrite slot_occ_cons. destruct (slot =? s) eqn:E; auto. apply Nat.eqb_eq in E; subst.
          unfold start_ok in SO. apply andb_prop in SO. destruct SO as [S1 _].
          destruct (slot_occ s occ); [simpl; lia | discriminate].
        - rewrite slot_occ_drop. eapply Nat.le_trans; [apply filter_length_le | auto]. }
      destruct (IH _ _ (e :: rpre) HG HL' pre suf eq_refl) as [A B].
      simpl. split; auto. intros s p suf' E. destruct (B s p suf' E) as [B1 B2]. split; auto.
      intros q LQ. destruct (B2 q LQ) as [r R]. exists r. rewrite <- app_assoc. simpl. exact R.
Qed.

Lemma olps_sound tr : olps_check tr = true -> one_live_per_slot tr.
Proof.
  intros H pre suf EQ.
  destruct (olps_sound_gen tr [] [] [] H (fun _ => Nat.le_0_l _) pre suf EQ) as [A B].
  split; auto. intros s p suf' E. destruct (B s p suf' E) as [B1 B2]. split; auto.
  intros q LQ. destruct (B2 q LQ) as [r R]. rewrite app_nil_r in R.
  exists (rev r). rewrite <- (rev_involutive pre), R. simpl. rewrite <- app_assoc. reflexivity.
Qed.

(* ------------------------------------------------------------------ the model satisfies the checker *)
Record Rel (n : nat) (st : state) (occ last : list (nat * nat)) : Prop := mkRel {
  rel_occ : forall s, s < n -> slot_occ s occ = [pid (nth s (workers st) dummy)];
  rel_out : forall s, n <= s -> slot_occ s occ = [];
  rel_last : forall s, s < n -> last_started s last = Some (pid (nth s (workers st) dummy)) }.

Lemma Rel_pids n st st' occ last :
  Rel n st occ last -> map pid (workers st') = map pid (workers st) -> Rel n st' occ last.
Proof.
  intros [A B C] E.
  assert (P : forall s, pid (nth s (workers st') dummy) = pid (nth s (workers st) dummy)).
  { intro s. change (pid dummy) with 0. rewrite <- !(map_nth pid). rewrite E. reflexivity. }
  constructor; intros; rewrite ?P; auto.
Qed.

Lemma Rel_evolves n st st' occ last :
  Rel n st occ last -> evolves (workers st) (workers st') -> Rel n st' occ last.
Proof. intros R E. eapply Rel_pids; eauto. symmetry. apply evolves_pids; auto. Qed.

Definition quiet (e : effect) : bool :=
  match e with Start _ _ | Join _ => false | _ => true end.

Lemma olps_quiet tr : forall occ last rpre,
  forallb quiet tr = true ->
  olps_go occ last rpre tr = true /\ occ_after occ tr = occ /\ last_after last tr = last.
Proof.
  induction tr as [|e t IH]; intros occ last rpre H; simpl in *; auto.
  apply andb_prop in H. destruct H as [Q H].
  destruct e; try discriminate; simpl; apply IH; auto.
Qed.

(* the reload block of slot i *)
Lemma olps_block n st occ last rpre i :
  Inv n st -> Rel n st occ last -> i < n ->
  let q := pid (nth i (workers st) dummy) in
  let blk := [Terminate q; Join q; Start i (next_pid st)] in
  forall st', workers st' = set_nth i (mkProc (next_pid st) Live) (workers st) ->
  olps_go occ last rpre blk = true /\ Rel n st' (occ_after occ blk) (last_after last blk).
Proof.
  intros I [RO RX RL] Hi q blk st' W.
  assert (Q : slot_occ i (drop_pid q occ) = []).
  { rewrite slot_occ_drop, (RO i Hi). fold q. simpl. rewrite Nat.eqb_refl. reflexivity. }
  split.
  - unfold blk. simpl. unfold start_ok. rewrite Q, (RL i Hi). fold q. rewrite Nat.eqb_refl. reflexivity.
  - unfold blk, occ_after, last_after. simpl.
    assert (L : length (workers st) = n) by apply I.
    constructor; intros s Hs.
    + rewrite slot_occ_cons, W. destruct (i =? s) eqn:E.
      * apply Nat.eqb_eq in E; subst s. rewrite Q, nth_set_nth_eq; [reflexivity | lia].
      * apply Nat.eqb_neq in E. rewrite nth_set_nth_neq; auto.
        rewrite slot_occ_drop, (RO s Hs). simpl.
        destruct (pid (nth s (workers st) dummy) =? q) eqn:PQ; auto.
        exfalso. apply Nat.eqb_eq in PQ. unfold q in PQ.
        pose proof (inv_nodup _ _ I) as ND.
        change (pid dummy) with 0 in PQ. rewrite <- !(map_nth pid) in PQ.
        apply NoDup_nth in PQ; auto; rewrite map_length; lia.
    + rewrite slot_occ_cons. destruct (i =? s) eqn:E; [apply Nat.eqb_eq in E; lia|].
      rewrite slot_occ_drop, (RX s Hs). reflexivity.
    + rewrite W. cbn [last_started]. destruct (i =? s) eqn:E.
      * apply Nat.eqb_eq in E; subst s. rewrite nth_set_nth_eq; [reflexivity | lia].
      * apply Nat.eqb_neq in E. rewrite nth_set_nth_neq; auto.
Qed.

Definition olps_G (n : nat) (occ last : list (nat * nat)) (rpre : list effect) (acc : list effect) (ls : loop_state) : Prop :=
  Inv n (ls_state ls) /\ olps_go occ last rpre acc = true /\
  Rel n (ls_state ls) (occ_after occ acc) (last_after last acc).
Definition olps_R (n : nat) (occ last : list (nat * nat)) (rpre : list effect) (r : state * list effect * outcome) : Prop :=
  let '(s, effs, _) := r in
  olps_go occ last rpre effs = true /\ Rel n s (occ_after occ effs) (last_after last effs).

Lemma shutdown_effs_quiet idxs : forall st aevs s e o,
  shutdown_live idxs st aevs = (s, e, o) -> forallb quiet e = true.
Proof.
  induction idxs as [|k ks IH]; intros st aevs s e o; simpl.
  - intro H; inversion H; subst. reflexivity.
  - destruct (_ =? 0); [apply IH|]. destruct (pop aevs) as [ev aevs'].
    destruct (is_alive _) as [al w']. destruct al; [|apply IH].
    destruct (pst w').
    + destruct (shutdown_live ks _ aevs') as [[s0 e0] o0] eqn:R. intro H; inversion H; subst. simpl. eapply IH; eauto.
    + destruct (shutdown_live ks _ aevs') as [[s0 e0] o0] eqn:R. intro H; inversion H; subst. simpl. eapply IH; eauto.
    + intro H; inversion H; subst. reflexivity.
Qed.

Lemma olps_extend n occ last rpre acc st st' e :
  olps_go occ last rpre acc = true -> Rel n st (occ_after occ acc) (last_after last acc) ->
  forallb quiet e = true -> map pid (workers st') = map pid (workers st) ->
  olps_go occ last rpre (acc ++ e) = true /\ Rel n st' (occ_after occ (acc ++ e)) (last_after last (acc ++ e)).
Proof.
  intros G R Q E.
  destruct (olps_quiet e (occ_after occ acc) (last_after last acc) (rev acc ++ rpre) Q) as (A & B & C).
  rewrite olps_go_app, G, A, occ_after_app, last_after_app, B, C. split; auto. eapply Rel_pids; eauto.
Qed.

Lemma drain_olps n c aevs fuel st devs s e o occ last rpre :
  Inv n st -> Rel n st occ last -> drain fuel c aevs (st, devs, []) = (s, e, o) -> o <> OutOfFuel ->
  olps_R n occ last rpre (s, e, o).
Proof.
  intros I R0 D O.
  apply (drain_ind c aevs (olps_G n occ last rpre) (olps_R n occ last rpre)) with (acc := []) in D; auto.
  - intros acc [[st0 devs0] rl] ls' e0 (I0 & G & R) B. unfold ls_state in *. cbn [fst] in *.
    pose proof (body_Inv n c aevs (st0, devs0, rl) I0) as I'. rewrite B in I'.
    pose proof (Inv_deliver n st0 (fst (pop devs0)) I0) as I1.
    destruct (deliver_spec (fst (pop devs0)) st0) as (EV & _ & _ & _).
    pose proof (Rel_evolves _ _ _ _ _ R EV) as R1.
    unfold olps_G. split; [exact I'|].
    body_inv B; unfold ls_state; cbn [fst].
    + eapply olps_extend; eauto.
    + eapply olps_extend; eauto.
    + match goal with H : queue _ = ReloadOne i ra :: q |- _ => rename H into Q end.
      assert (Hi : i < n). { destruct I1 as [_ _ _ W]. apply (W i ra). rewrite Q; simpl; auto. }
      pose proof (Inv_st3 n _ _ _ (counted_of c ra) I1 Q) as I3.
      destruct (handle_reload_spec n i _ I3 Hi) as (st4 & E & W4 & _).
      rewrite E. cbn [fst snd].
      change (Got (ReloadOne i ra) :: ?x) with ([Got (ReloadOne i ra)] ++ x).
      rewrite app_assoc.
      destruct (olps_extend n occ last rpre acc st0 (st3_of (deliver st0 (fst (pop devs0))) q (counted_of c ra))
                  [Got (ReloadOne i ra)] G R eq_refl) as [G2 R2].
      { simpl. symmetry. apply evolves_pids; auto. }
      destruct (olps_block n _ _ _ (rev (acc ++ [Got (ReloadOne i ra)]) ++ rpre) i I3 R2 Hi st4 W4) as [G3 R3].
      rewrite olps_go_app, G2, (occ_after_app occ (acc ++ [Got (ReloadOne i ra)])), (last_after_app last (acc ++ [Got (ReloadOne i ra)])).
      cbn [andb]. split; [exact G3 | exact R3].
  - intros acc [[st0 devs0] rl] s0 e0 o0 (I0 & G & R) B. unfold ls_state in *. cbn [fst] in *.
    destruct (deliver_spec (fst (pop devs0)) st0) as (EV & _ & _ & _).
    unfold olps_R.
    body_inv B.
    + rewrite app_nil_r. split; auto. eapply Rel_evolves; eauto.
    + eapply olps_extend; eauto. simpl. symmetry. apply evolves_pids; auto.
    + match goal with H : shutdown_live _ _ _ = _ |- _ => rename H into SD end.
      pose proof (shutdown_effs_quiet _ _ _ _ _ _ SD) as QT.
      apply shutdown_live_basic in SD. destruct SD as (EV2 & _).
      eapply olps_extend; eauto. symmetry. apply evolves_pids. eapply evolves_trans; eauto.
  - unfold olps_G, ls_state. simpl. auto.
Qed.

Lemma tick_olps n c st te st' effs o occ last rpre :
  Inv n st -> Rel n st occ last -> tick c st te = (st', effs, o) ->
  olps_go occ last rpre effs = true /\ Rel n st' (occ_after occ effs) (last_after last effs).
Proof.
  intros I R. rewrite tick_unfold. cbv zeta.
  destruct (drain _ c (te_alive te) _) as [[s e] o1] eqn:D.
  pose proof (tick_drain_ok _ _ _ _ _ _ D) as [NF _].
  destruct (deliver_spec (te_sleep te) st) as (EV & _ & _ & _).
  apply (drain_olps n) with (occ := occ) (last := last) (rpre := rpre) in D; auto using Inv_deliver.
  2:{ eapply Rel_evolves; eauto. }
  destruct D as [G R2].
  destruct o1; intro H; inversion H; subst; split; auto.
  eapply Rel_evolves; eauto. apply scan_spec.
Qed.

(* prepare_workers *)
Lemma prep_olps p0 m : forall k occ last rpre,
  (forall s, k <= s -> slot_occ s occ = [] /\ last_started s last = None) ->
  let tr := map (fun i => Start i (p0 + i)) (seq k m) in
  olps_go occ last rpre tr = true /\
  (forall s, k <= s < k + m ->
     slot_occ s (occ_after occ tr) = [p0 + s] /\ last_started s (last_after last tr) = Some (p0 + s)) /\
  (forall s, ~ (k <= s < k + m) ->
     slot_occ s (occ_after occ tr) = slot_occ s occ /\ last_started s (last_after last tr) = last_started s last).
Proof.
  induction m as [|m IH]; intros k occ last rpre H.
  - simpl. repeat split; auto; intros; lia.
  - change (seq k (S m)) with (k :: seq (S k) m). cbn [map].
    destruct (H k (Nat.le_refl k)) as [HO HL].
    destruct (IH (S k) ((k, p0 + k) :: occ) ((k, p0 + k) :: last) (Start k (p0 + k) :: rpre)) as (A & B & C).
    { intros s Hs. destruct (H s) as [X Y]; [lia|]. rewrite slot_occ_cons. cbn [last_started].
      destruct (k =? s) eqn:E; [apply Nat.eqb_eq in E; lia|]. auto. }
    cbv zeta in *.
    set (tr := map (fun i => Start i (p0 + i)) (seq (S k) m)) in *.
    cbn [olps_go]. unfold start_ok. rewrite HO, HL. cbn [andb].
    change (occ_after occ (Start k (p0 + k) :: tr)) with (occ_after ((k, p0 + k) :: occ) tr).
    change (last_after last (Start k (p0 + k) :: tr)) with (last_after ((k, p0 + k) :: last) tr).
    cbn [occ_step last_step].
    split; [exact A|]. split; intros s Hs.
    + destruct (Nat.eq_dec k s) as [<-|NE].
      * destruct (C k) as [C1 C2]; [lia|]. rewrite C1, C2, slot_occ_cons. cbn [last_started].
        rewrite Nat.eqb_refl, HO. auto.
      * apply B. lia.
    + destruct (C s) as [C1 C2]; [lia|]. rewrite C1, C2, slot_occ_cons. cbn [last_started].
      destruct (k =? s) eqn:E; [apply Nat.eqb_eq in E; lia|]. auto.
Qed.

Lemma init_olps c p0 :
  olps_go [] [] [] (snd (init c p0)) = true /\
  Rel (nworkers c) (fst (init c p0)) (occ_after [] (snd (init c p0))) (last_after [] (snd (init c p0))).
Proof.
  destruct (prep_olps p0 (nworkers c) 0 [] [] []) as (A & B & C); [intros; split; reflexivity|].
  cbv zeta in *. unfold init; cbn [fst snd workers].
  split; [exact A|].
  assert (N : forall s, s < nworkers c ->
              pid (nth s (map (fun i => mkProc (p0 + i) Live) (seq 0 (nworkers c))) dummy) = p0 + s).
  { intros s Hs.
    rewrite (nth_indep _ dummy (mkProc (p0 + 0) Live)) by (rewrite map_length, seq_length; lia).
    rewrite (map_nth (fun i => mkProc (p0 + i) Live)). rewrite seq_nth; auto. }
  constructor; intros s Hs.
  - destruct (B s) as [X _]; [lia|]. rewrite X, N; auto.
  - destruct (C s) as [X _]; [lia|]. rewrite X. reflexivity.
  - destruct (B s) as [_ X]; [lia|]. rewrite X, N; auto.
Qed.

Definition olps_J (n : nat) (acc : list (list effect)) (st : state) : Prop :=
  Inv n st /\ olps_go [] [] [] (concat acc) = true /\
  Rel n st (occ_after [] (concat acc)) (last_after [] (concat acc)).

Lemma olps_J_step n c acc st te st' effs o :
  olps_J n acc st -> tick c st te = (st', effs, o) ->
  olps_go [] [] [] (concat (acc ++ [effs])) = true /\
  Rel n st' (occ_after [] (concat (acc ++ [effs]))) (last_after [] (concat (acc ++ [effs]))).
Proof.
  intros (I & G & R) T.
  rewrite concat_app. change (concat [effs]) with (effs ++ []). rewrite app_nil_r.
  destruct (tick_olps n c st te st' effs o _ _ (rev (concat acc) ++ []) I R T) as [G2 R2].
  rewrite olps_go_app, G, occ_after_app, last_after_app. split; auto.
Qed.

Lemma run_olps c p0 hist l o s : 1 <= p0 -> run c p0 hist = (l, o, s) -> olps_check (concat l) = true.
Proof.
  intros Hp. rewrite run_unfold.
  destruct (run_from c (fst (init c p0)) hist) as [[l1 o1] s1] eqn:R. intro H; inversion H; subst. clear H.
  change (map (fun i => Start i (p0 + i)) (seq 0 (nworkers c))) with (snd (init c p0)) in *.
  set (n := nworkers c).
  assert (J0 : olps_J n [snd (init c p0)] (fst (init c p0))).
  { unfold olps_J. change (concat [snd (init c p0)]) with (snd (init c p0) ++ []). rewrite app_nil_r.
    destruct (init_olps c p0) as [A B]. split; [apply Inv_init; auto | auto]. }
  assert (STEP : forall acc st te st' effs, olps_J n acc st -> tick c st te = (st', effs, Cont) -> olps_J n (acc ++ [effs]) st').
  { intros acc st te st' effs J T. destruct (olps_J_step n c acc st te st' effs Cont J T) as [A B].
    split; [|split; auto]. destruct J as (I & _). eapply tick_Inv; eauto. }
  destruct (run_from_ind c (olps_J n) STEP hist [snd (init c p0)] _ _ _ _ J0 R)
    as [[-> (_ & G & _)]|(l0 & st0 & te & effs & -> & J & T & NC)].
  - exact G.
  - destruct (olps_J_step n c _ st0 te s effs o J T) as [A _].
    rewrite <- app_assoc in A. exact A.
Qed.

(* ------------------------------------------------------------------ replacement of dead workers *)
Lemma pev_not_live a b : pev a b -> pst a <> Live -> pst b <> Live.
Proof. intros [_ P] H. destruct (pst a), (pst b); simpl in *; auto; congruence. Qed.

Lemma evolves_not_live ws ws' i :
  evolves ws ws' -> pst (nth i ws dummy) <> Live -> pst (nth i ws' dummy) <> Live.
Proof. intros E. apply pev_not_live. apply evolves_nth; auto. Qed.

Lemma scan_detects idxs : forall st aevs i,
  In i idxs -> i < length (workers st) -> pst (nth i (workers st) dummy) <> Live ->
  In (ReloadOne i false) (queue (scan idxs st aevs)).
Proof.
  induction idxs as [|k ks IH]; intros st aevs i HI Hlen NL; [destruct HI|].
  simpl. destruct (pop aevs) as [ev aevs'].
  destruct (deliver_np_spec ev st) as (EV & _ & _ & _). set (st1 := deliver_np st ev) in *.
  pose proof (evolves_not_live _ _ i EV NL) as NL1.
  pose proof (evolves_length _ _ EV) as L1.
  destruct (is_alive (nth k (workers st1) dummy)) as [al w'] eqn:EA.
  apply is_alive_spec in EA. destruct EA as (PV & T & F).
  set (st2 := set_workers st1 (set_nth k w' (workers st1))).
  assert (E12 : evolves (workers st1) (workers st2)) by (simpl; apply evolves_set_nth; auto).
  pose proof (evolves_not_live _ _ i E12 NL1) as NL2.
  pose proof (evolves_length _ _ E12) as L2.
  destruct (Nat.eq_dec k i) as [->|NE].
  - destruct al; [destruct (T eq_refl); congruence|].
    destruct (scan_spec ks (enq st2 [ReloadOne i false]) aevs') as (_ & _ & _ & q' & -> & _).
    apply in_or_app. left. simpl. apply in_or_app. right. simpl; auto.
  - destruct HI as [HI|HI]; [congruence|].
    destruct al; apply IH; auto; simpl in *; try lia.
Qed.

(* a pending reload of slot i is served by the next drain (unless the manager exits) *)
Definition rp_G (n i : nat) (acc : list effect) (ls : loop_state) : Prop :=
  let '(st, _, rl) := ls in
  Inv n st /\ (forall j, mem j rl = true -> j < n -> exists p, In (Start j p) acc) /\
  ((exists b, In (ReloadOne i b) (queue st)) \/ exists p, In (Start i p) acc).
Definition rp_R (i : nat) (r : state * list effect * outcome) : Prop :=
  let '(_, effs, o) := r in o = Cont -> exists p, In (Start i p) effs.

Lemma drain_pending n c aevs fuel st devs s e o i :
  Inv n st -> (exists b, In (ReloadOne i b) (queue st)) ->
  drain fuel c aevs (st, devs, []) = (s, e, o) -> o <> OutOfFuel -> rp_R i (s, e, o).
Proof.
  intros I P D O.
  apply (drain_ind c aevs (rp_G n i) (rp_R i)) with (acc := []) in D; auto.
  - intros acc [[st0 devs0] rl] ls' e0 (I0 & ST & PD) B.
    pose proof (body_Inv n c aevs (st0, devs0, rl) I0) as I'. rewrite B in I'.
    pose proof (Inv_deliver n st0 (fst (pop devs0)) I0) as I1.
    destruct (deliver_spec (fst (pop devs0)) st0) as (_ & DQ & _ & _).
    assert (PD1 : (exists b, In (ReloadOne i b) (queue (deliver st0 (fst (pop devs0))))) \/ exists p, In (Start i p) acc).
    { destruct PD as [[b X]|X]; auto. left. exists b. rewrite DQ. apply in_or_app; auto. }
    clear PD DQ.
    assert (ST' : forall e1 j, mem j rl = true -> j < n -> exists p, In (Start j p) (acc ++ e1)).
    { intros e1 j M Hj. destruct (ST j M Hj) as [p X]. exists p. apply in_or_app; auto. }
    body_inv B; unfold rp_G; (split; [exact I'|]).
    + split; [apply ST'|].
      destruct PD1 as [[b X]|[p X]]; [left | right; exists p; apply in_or_app; auto].
      rwq_in X. destruct X as [X|X]; [discriminate|]. exists b. simpl. apply in_or_app; auto.
    + split; [apply ST'|].
      destruct PD1 as [[b X]|[p X]]; [| right; exists p; apply in_or_app; auto].
      rwq_in X. destruct X as [X|X]; [| left; exists b; exact X].
      inversion X; subst. right.
      match goal with H : queue _ = ReloadOne i b :: q |- _ => rename H into Q end.
      assert (Hi : i < n). { destruct I1 as [_ _ _ W]. apply (W i b). rewrite Q; simpl; auto. }
      apply ST'; auto.
    + match goal with H : queue _ = ReloadOne i0 ra :: q |- _ => rename H into Q end.
      assert (Hi : i0 < n). { destruct I1 as [_ _ _ W]. apply (W i0 ra). rewrite Q; simpl; auto. }
      destruct (handle_reload_spec n i0 _ (Inv_st3 n _ _ _ (counted_of c ra) I1 Q) Hi) as (st4 & E & _ & QE & _).
      rewrite E. cbn [fst snd]. rewrite QE. cbn [queue st3_of]. split.
      * intros j M Hj. rewrite mem_sym in M. apply orb_prop in M. destruct M as [M|M]; [|apply ST'; auto].
        apply Nat.eqb_eq in M; subst j. eexists. apply in_or_app. right. simpl. eauto.
      * destruct PD1 as [[b X]|[p X]]; [| right; exists p; apply in_or_app; auto].
        rewrite Q in X. destruct X as [X|X]; [| left; exists b; exact X].
        inversion X; subst. right. eexists. apply in_or_app. right. simpl. eauto.
  - intros acc [[st0 devs0] rl] s0 e0 o0 (I0 & ST & PD) B.
    destruct (deliver_spec (fst (pop devs0)) st0) as (_ & DQ & _ & _).
    body_inv B; unfold rp_R; try (intro; discriminate).
    intros _. rewrite app_nil_r. destruct PD as [[b X]|X]; auto.
    exfalso. assert (IN : In (ReloadOne i b) (queue (deliver st0 (fst (pop devs0))))).
    { rewrite DQ. apply in_or_app; auto. }
    match goal with HE : queue _ = [] |- _ => rewrite HE in IN end. destruct IN.
    match goal with H : shutdown_live _ _ _ = _ |- _ => apply shutdown_live_basic in H; destruct H as (_ & _ & _ & _ & ->) end.
    intro; discriminate.
  - unfold rp_G. split; [exact I|]. split; [intros j M; discriminate | left; exact P].
Qed.

Lemma tick_pending n c st te st' effs i :
  Inv n st -> (exists b, In (ReloadOne i b) (queue st)) -> tick c st te = (st', effs, Cont) ->
  exists p, In (Start i p) effs.
Proof.
  intros I [b P]. rewrite tick_unfold. cbv zeta.
  destruct (drain _ c (te_alive te) _) as [[s e] o1] eqn:D.
  pose proof (tick_drain_ok _ _ _ _ _ _ D) as [NF _].
  destruct (deliver_spec (te_sleep te) st) as (_ & DQ & _ & _).
  apply (drain_pending n) with (i := i) in D; auto using Inv_deliver.
  2:{ exists b. rewrite DQ. apply in_or_app; auto. }
  destruct o1; intro H; inversion H; subst. apply D. reflexivity.
Qed.

(* a worker that is not Live is either replaced by this drain or still not Live after it *)
Definition dd_G (n i : nat) (acc : list effect) (ls : loop_state) : Prop :=
  Inv n (ls_state ls) /\
  ((exists p, In (Start i p) acc) \/ pst (nth i (workers (ls_state ls)) dummy) <> Live).
Definition dd_R (i : nat) (r : state * list effect * outcome) : Prop :=
  let '(s, effs, _) := r in (exists p, In (Start i p) effs) \/ pst (nth i (workers s) dummy) <> Live.

Lemma drain_dead n c aevs fuel st devs s e o i :
  Inv n st -> pst (nth i (workers st) dummy) <> Live ->
  drain fuel c aevs (st, devs, []) = (s, e, o) -> o <> OutOfFuel -> dd_R i (s, e, o).
Proof.
  intros I NL D O.
  apply (drain_ind c aevs (dd_G n i) (dd_R i)) with (acc := []) in D; auto.
  - intros acc [[st0 devs0] rl] ls' e0 (I0 & DD) B. unfold ls_state in *. cbn [fst] in *.
    pose proof (body_Inv n c aevs (st0, devs0, rl) I0) as I'. rewrite B in I'.
    pose proof (Inv_deliver n st0 (fst (pop devs0)) I0) as I1.
    destruct (deliver_spec (fst (pop devs0)) st0) as (EV & _ & _ & _).
    unfold dd_G. split; [exact I'|]. unfold ls_state.
    destruct DD as [[p X]|X]; [left; exists p; apply in_or_app; auto|].
    pose proof (evolves_not_live _ _ i EV X) as X1.
    body_inv B; cbn [fst workers enq set_queue st3_of]; auto.
    match goal with H : queue _ = ReloadOne i0 ra :: q |- _ => rename H into Q end.
    assert (Hi : i0 < n). { destruct I1 as [_ _ _ W]. apply (W i0 ra). rewrite Q; simpl; auto. }
    destruct (handle_reload_spec n i0 _ (Inv_st3 n _ _ _ (counted_of c ra) I1 Q) Hi) as (st4 & E & W4 & _).
    rewrite E. cbn [fst snd]. rewrite W4. cbn [workers st3_of].
    destruct (Nat.eq_dec i0 i) as [->|NE].
    + left. eexists. apply in_or_app. right. simpl. eauto.
    + right. rewrite nth_set_nth_neq; auto.
  - intros acc [[st0 devs0] rl] s0 e0 o0 (I0 & DD) B. unfold ls_state in *. cbn [fst] in *.
    destruct (deliver_spec (fst (pop devs0)) st0) as (EV & _ & _ & _).
    unfold dd_R.
    destruct DD as [[p X]|X]; [left; exists p; apply in_or_app; auto|].
    pose proof (evolves_not_live _ _ i EV X) as X1.
    body_inv B; cbn [workers st3_of]; auto.
    match goal with H : shutdown_live _ _ _ = _ |- _ => apply shutdown_live_basic in H; destruct H as (EV2 & _) end.
    right. eapply evolves_not_live; eauto.
  - unfold dd_G, ls_state. simpl. auto.
Qed.

Lemma tick_dead n c st te st' effs i :
  Inv n st -> i < n -> pst (nth i (workers st) dummy) <> Live -> tick c st te = (st', effs, Cont) ->
  (exists p, In (Start i p) effs) \/ In (ReloadOne i false) (queue st').
Proof.
  intros I Hi NL. rewrite tick_unfold. cbv zeta.
  destruct (drain _ c (te_alive te) _) as [[s e] o1] eqn:D.
  pose proof (tick_drain_ok _ _ _ _ _ _ D) as [NF _].
  destruct (deliver_spec (te_sleep te) st) as (EV & _ & _ & _).
  assert (I2 : Inv n s). { eapply drain_Inv; eauto. simpl. apply Inv_deliver; auto. }
  apply (drain_dead n) with (i := i) in D; auto using Inv_deliver.
  2:{ eapply evolves_not_live; eauto. }
  destruct o1; intro H; inversion H; subst.
  destruct D as [X|X]; [left; exact X | right].
  apply scan_detects; auto; rewrite (inv_len _ _ I2); auto. apply in_seq. lia.
Qed.

Lemma replaced_within_two n c st te1 st1 e1 te2 st2 e2 i :
  Inv n st -> i < n -> pst (nth i (workers st) dummy) <> Live ->
  tick c st te1 = (st1, e1, Cont) -> tick c st1 te2 = (st2, e2, Cont) ->
  exists p, In (Start i p) (e1 ++ e2).
Proof.
  intros I Hi NL T1 T2.
  destruct (tick_dead n c st te1 st1 e1 i I Hi NL T1) as [[p X]|X].
  - exists p. apply in_or_app; auto.
  - assert (I1 : Inv n st1) by (eapply tick_Inv; eauto).
    destruct (tick_pending n c st1 te2 st2 e2 i I1 (ex_intro _ false X) T2) as [p Y].
    exists p. apply in_or_app; auto.
Qed.

(* ---- startup windows (non-vacuity of the DieS histories).  Worker 1 exits inside prepare_workers before the poll
   of its startup wait: Reaped at the first boundary without any scan, slot kept, found by scan 1, replaced in tick 2 *)
Example startup_death_replaced :
  run (mkCfg 2 (-1)) 100 [mkTE [DieS 1] [] []; mkTE [] [] []] =
  ([[Start 0 100; Start 1 101]; []; [Got (ReloadOne 1 false); Terminate 101; Join 101; Start 1 102]], Cont,
   mkState [mkProc 100 Live; mkProc 102 Live] [] 0 103).
Proof. vm_compute. reflexivity. Qed.
(* the only worker crashes at startup, and its replacement again inside the startup window of the reload *)
Example startup_death_of_a_replacement :
  fst (fst (run (mkCfg 1 (-1)) 100 [mkTE [DieS 0] [] []; mkTE [] [[]; [DieS 0]] []; mkTE [] [] []])) =
  [[Start 0 100]; []; [Got (ReloadOne 0 false); Terminate 100; Join 100; Start 0 101];
   [Got (ReloadOne 0 false); Terminate 101; Join 101; Start 0 102]].
Proof. vm_compute. reflexivity. Qed.
(* no startup window inside the scan / the shutdown branch: a DieS listed there does not happen *)
Example no_polled_death_inside_the_scan :
  snd (run (mkCfg 1 (-1)) 100 [mkTE [] [] [[DieS 0]]]) = mkState [mkProc 100 Live] [] 0 101.
Proof. vm_compute. reflexivity. Qed.
