(* C09_no_leak: for every history of kicker operations the declared label dicts are unchanged and every send
   carries the declared labels overlaid with that kicker's own with_labels (and its own task id / broker) only. *)
From Coq Require Import ZArith NArith List Bool Lia PeanoNat.
From TQ Require Import Base64 Labels.
Import ListNotations.
Open Scope nat_scope.

(* what kicker k looks like through the heap *)
Definition kview (st : kstate) (k : nat) : option sent :=
  match nth_error (kickers st) k with
  | Some kk => match nth_error (heap st) (k_ref kk) with
               | Some d => Some (mkSent (k_task kk) (k_tid kk) (k_broker kk) d)
               | None => None
               end
  | None => None
  end.

Record Inv (decl : list (dict lval)) (tb : list N) (pre : list kop) (st : kstate) : Prop := {
  inv_heap : exists extra, heap st = decl ++ extra;
  inv_len : length (kickers st) = length (kicker_tasks pre);
  inv_view : forall k, k < length (kickers st) -> kview st k = Some (spec_msg decl tb pre k);
  inv_fresh : forall k, length (kickers st) <= k ->
              own_labels k pre = [] /\ own_tid k pre = None /\ forall b, own_broker k pre b = b;
  inv_out : rev (out st) = spec_sent decl tb [] pre
}.

Lemma spec_sent_snoc : forall decl tb a p o,
  spec_sent decl tb p (a ++ [o]) =
  spec_sent decl tb p a ++ match o with OKiq k => [spec_msg decl tb (p ++ a) k] | _ => [] end.
Proof.
  induction a as [|x a IH]; intros p o.
  - cbn. rewrite app_nil_r. destruct o; reflexivity.
  - cbn [app spec_sent].
    assert (E : (p ++ [x]) ++ a = p ++ x :: a) by (rewrite <- app_assoc; reflexivity).
    destruct x; rewrite IH, E; reflexivity.
Qed.

Lemma kicker_tasks_snoc : forall pre o,
  kicker_tasks (pre ++ [o]) = kicker_tasks pre ++ match o with OKicker t => [t] | _ => [] end.
Proof. intros. unfold kicker_tasks. rewrite flat_map_app. cbn. now rewrite app_nil_r. Qed.

Lemma own_labels_snoc : forall k pre o,
  own_labels k (pre ++ [o]) =
  own_labels k pre ++ match o with OWithLabels k' l => if k =? k' then [l] else [] | _ => [] end.
Proof. intros. unfold own_labels. rewrite flat_map_app. cbn. now rewrite app_nil_r. Qed.

Lemma own_tid_snoc : forall k pre o,
  own_tid k (pre ++ [o]) =
  match o with OWithTaskId k' i => if k =? k' then Some i else own_tid k pre | _ => own_tid k pre end.
Proof. intros. unfold own_tid. rewrite fold_left_app. reflexivity. Qed.

Lemma own_broker_snoc : forall k pre o b0,
  own_broker k (pre ++ [o]) b0 =
  match o with OWithBroker k' b => if k =? k' then b else own_broker k pre b0 | _ => own_broker k pre b0 end.
Proof. intros. unfold own_broker. rewrite fold_left_app. reflexivity. Qed.

Lemma nth_error_set_nth_same {A} : forall (l : list A) n x, n < length l -> nth_error (set_nth n x l) n = Some x.
Proof.
  induction l as [|y l IH]; intros n x H; cbn in H; [lia|].
  destruct n; cbn; [reflexivity|]. apply IH. lia.
Qed.

Lemma nth_error_set_nth_other {A} : forall (l : list A) n m x, n <> m -> nth_error (set_nth n x l) m = nth_error l m.
Proof.
  induction l as [|y l IH]; intros n m x H.
  - destruct n; reflexivity.
  - destruct n, m; cbn; try reflexivity; try lia. apply IH. lia.
Qed.

Lemma length_set_nth {A} : forall (l : list A) n x, length (set_nth n x l) = length l.
Proof. induction l as [|y l IH]; intros [|n] x; cbn; auto. Qed.

Lemma nth_error_app_l {A} : forall (l l' : list A) n x, nth_error l n = Some x -> nth_error (l ++ l') n = Some x.
Proof.
  intros l l' n x H. rewrite nth_error_app1; [exact H|]. apply nth_error_Some. congruence.
Qed.

(* the specification of kicker k does not look at operations on other kickers *)
Lemma spec_msg_snoc_other : forall decl tb pre k o,
  k < length (kicker_tasks pre) ->
  match o with
  | OKicker _ | OKiq _ => True
  | OWithLabels k' _ | OWithTaskId k' _ | OWithBroker k' _ => k <> k'
  end ->
  spec_msg decl tb (pre ++ [o]) k = spec_msg decl tb pre k.
Proof.
  intros decl tb pre k o Hk Ho. unfold spec_msg.
  rewrite kicker_tasks_snoc, own_labels_snoc, own_tid_snoc, own_broker_snoc.
  rewrite app_nth1 by exact Hk.
  destruct o as [t|k' l|k' i|k' b|k']; try (apply Nat.eqb_neq in Ho; rewrite Ho);
    rewrite ?app_nil_r; reflexivity.
Qed.

Ltac view_eqs Hvk :=
  match type of Hvk with
  | Some ?a = Some ?b =>
      let E := fresh "E" in
      assert (E : a = b) by congruence; unfold spec_msg in E;
      pose proof (f_equal s_task E) as E1; pose proof (f_equal s_tid E) as E2;
      pose proof (f_equal s_broker E) as E3; pose proof (f_equal s_labels E) as E4;
      cbn [s_task s_tid s_broker s_labels] in E1, E2, E3, E4; clear E
  end.

Lemma kstep_inv : forall decl tb pre st o st',
  length tb = length decl ->
  Inv decl tb pre st -> kstep tb (length decl) st o = Some st' -> Inv decl tb (pre ++ [o]) st'.
Proof.
  intros decl tb pre st o st' Htb [[extra Hh] Hl Hv Hf Ho] Hs.
  destruct o as [t|k l|k i|k b|k]; cbn [kstep] in Hs.
  - (* OKicker t *)
    destruct (nth_error tb t) as [b|] eqn:Eb; [|discriminate].
    destruct (t <? length decl) eqn:Et; [|discriminate]. apply Nat.ltb_lt in Et.
    inversion Hs; subst st'; clear Hs. constructor; cbn [heap kickers out].
    + eauto.
    + rewrite kicker_tasks_snoc, !app_length, Hl. reflexivity.
    + intros k Hk. rewrite app_length in Hk. cbn in Hk.
      destruct (Nat.eq_dec k (length (kickers st))) as [->|Hne].
      * unfold kview. cbn [kickers heap]. rewrite nth_error_app2 by lia. rewrite Nat.sub_diag. cbn [nth_error k_ref k_task k_tid k_broker].
        destruct (Hf (length (kickers st)) (le_n _)) as (F1 & F2 & F3).
        unfold spec_msg. rewrite kicker_tasks_snoc, own_labels_snoc, own_tid_snoc, own_broker_snoc.
        rewrite app_nth2 by lia. rewrite <- Hl, Nat.sub_diag. cbn [nth]. rewrite F1, F2, F3. cbn [app fold_left].
        rewrite Hh. rewrite nth_error_app1 by exact Et.
        rewrite (nth_error_nth' decl [] Et). rewrite (nth_error_nth tb t 0%N Eb). reflexivity.
      * assert (Hk' : k < length (kickers st)) by lia.
        rewrite spec_msg_snoc_other by (rewrite <- ?Hl; auto). rewrite <- (Hv k Hk').
        unfold kview. cbn [kickers heap]. rewrite nth_error_app1 by exact Hk'. reflexivity.
    + intros k Hk. rewrite app_length in Hk. cbn in Hk.
      destruct (Hf k ltac:(lia)) as (F1 & F2 & F3).
      rewrite own_labels_snoc, own_tid_snoc. rewrite F1. repeat split; auto.
      intro b0. rewrite own_broker_snoc. apply F3.
    + rewrite spec_sent_snoc, <- Ho. now rewrite app_nil_r.
  - (* OWithLabels k l *)
    destruct (nth_error (kickers st) k) as [kk|] eqn:Ek; [|discriminate].
    destruct (nth_error (heap st) (k_ref kk)) as [d|] eqn:Ed; [|discriminate].
    inversion Hs; subst st'; clear Hs.
    assert (Hk : k < length (kickers st)) by (apply nth_error_Some; congruence).
    pose proof (Hv k Hk) as Hvk. unfold kview in Hvk. rewrite Ek, Ed in Hvk. view_eqs Hvk.
    constructor; cbn [heap kickers out].
    + exists (extra ++ [dmerge d l]). rewrite Hh, <- app_assoc. reflexivity.
    + rewrite length_set_nth, kicker_tasks_snoc, app_nil_r. exact Hl.
    + intros k2 Hk2. rewrite length_set_nth in Hk2.
      destruct (Nat.eq_dec k k2) as [<-|Hne].
      * unfold kview. cbn [kickers heap]. rewrite nth_error_set_nth_same by exact Hk.
        cbn [k_ref k_task k_tid k_broker]. rewrite nth_error_app2 by lia. rewrite Nat.sub_diag. cbn [nth_error].
        unfold spec_msg. rewrite kicker_tasks_snoc, own_labels_snoc, own_tid_snoc, own_broker_snoc.
        rewrite Nat.eqb_refl, app_nil_r, fold_left_app. cbn [fold_left].
        rewrite E2, E3, E4, E1. reflexivity.
      * rewrite spec_msg_snoc_other by (rewrite <- ?Hl; auto). rewrite <- (Hv k2 Hk2).
        unfold kview. cbn [kickers heap]. rewrite nth_error_set_nth_other by exact Hne.
        destruct (nth_error (kickers st) k2) as [kk2|] eqn:Ek2; [|reflexivity].
        destruct (nth_error (heap st) (k_ref kk2)) as [d2|] eqn:Ed2.
        -- now rewrite (nth_error_app_l _ _ _ _ Ed2).
        -- specialize (Hv k2 Hk2). unfold kview in Hv. rewrite Ek2, Ed2 in Hv. discriminate.
    + intros k2 Hk2. rewrite length_set_nth in Hk2.
      destruct (Hf k2 Hk2) as (F1 & F2 & F3).
      rewrite own_labels_snoc, own_tid_snoc.
      assert (Hne : k2 =? k = false) by (apply Nat.eqb_neq; lia). rewrite Hne, app_nil_r.
      repeat split; auto. intro b0. rewrite own_broker_snoc. apply F3.
    + rewrite spec_sent_snoc, <- Ho. now rewrite app_nil_r.
  - (* OWithTaskId k i *)
    destruct (nth_error (kickers st) k) as [kk|] eqn:Ek; [|discriminate].
    inversion Hs; subst st'; clear Hs.
    assert (Hk : k < length (kickers st)) by (apply nth_error_Some; congruence).
    pose proof (Hv k Hk) as Hvk. unfold kview in Hvk. rewrite Ek in Hvk.
    destruct (nth_error (heap st) (k_ref kk)) as [d|] eqn:Ed; [|discriminate]. view_eqs Hvk.
    constructor; cbn [heap kickers out].
    + eauto.
    + rewrite length_set_nth, kicker_tasks_snoc, app_nil_r. exact Hl.
    + intros k2 Hk2. rewrite length_set_nth in Hk2.
      destruct (Nat.eq_dec k k2) as [<-|Hne].
      * unfold kview. cbn [kickers heap]. rewrite nth_error_set_nth_same by exact Hk.
        cbn [k_ref k_task k_tid k_broker]. rewrite Ed.
        unfold spec_msg. rewrite kicker_tasks_snoc, own_labels_snoc, own_tid_snoc, own_broker_snoc.
        rewrite Nat.eqb_refl, !app_nil_r.
        rewrite E3, E4, E1. reflexivity.
      * rewrite spec_msg_snoc_other by (rewrite <- ?Hl; auto). rewrite <- (Hv k2 Hk2).
        unfold kview. cbn [kickers heap]. rewrite nth_error_set_nth_other by exact Hne. reflexivity.
    + intros k2 Hk2. rewrite length_set_nth in Hk2.
      destruct (Hf k2 Hk2) as (F1 & F2 & F3).
      rewrite own_labels_snoc, own_tid_snoc, app_nil_r.
      assert (Hne : k2 =? k = false) by (apply Nat.eqb_neq; lia). rewrite Hne.
      repeat split; auto. intro b0. rewrite own_broker_snoc. apply F3.
    + rewrite spec_sent_snoc, <- Ho. now rewrite app_nil_r.
  - (* OWithBroker k b *)
    destruct (nth_error (kickers st) k) as [kk|] eqn:Ek; [|discriminate].
    inversion Hs; subst st'; clear Hs.
    assert (Hk : k < length (kickers st)) by (apply nth_error_Some; congruence).
    pose proof (Hv k Hk) as Hvk. unfold kview in Hvk. rewrite Ek in Hvk.
    destruct (nth_error (heap st) (k_ref kk)) as [d|] eqn:Ed; [|discriminate]. view_eqs Hvk.
    constructor; cbn [heap kickers out].
    + eauto.
    + rewrite length_set_nth, kicker_tasks_snoc, app_nil_r. exact Hl.
    + intros k2 Hk2. rewrite length_set_nth in Hk2.
      destruct (Nat.eq_dec k k2) as [<-|Hne].
      * unfold kview. cbn [kickers heap]. rewrite nth_error_set_nth_same by exact Hk.
        cbn [k_ref k_task k_tid k_broker]. rewrite Ed.
        unfold spec_msg. rewrite kicker_tasks_snoc, own_labels_snoc, own_tid_snoc, own_broker_snoc.
        rewrite Nat.eqb_refl, !app_nil_r.
        rewrite E2, E4, E1. reflexivity.
      * rewrite spec_msg_snoc_other by (rewrite <- ?Hl; auto). rewrite <- (Hv k2 Hk2).
        unfold kview. cbn [kickers heap]. rewrite nth_error_set_nth_other by exact Hne. reflexivity.
    + intros k2 Hk2. rewrite length_set_nth in Hk2.
      destruct (Hf k2 Hk2) as (F1 & F2 & F3).
      rewrite own_labels_snoc, own_tid_snoc, app_nil_r.
      repeat split; auto. intro b0. rewrite own_broker_snoc.
      assert (Hne : k2 =? k = false) by (apply Nat.eqb_neq; lia). rewrite Hne. apply F3.
    + rewrite spec_sent_snoc, <- Ho. now rewrite app_nil_r.
  - (* OKiq k *)
    destruct (nth_error (kickers st) k) as [kk|] eqn:Ek; [|discriminate].
    destruct (nth_error (heap st) (k_ref kk)) as [d|] eqn:Ed; [|discriminate].
    inversion Hs; subst st'; clear Hs.
    assert (Hk : k < length (kickers st)) by (apply nth_error_Some; congruence).
    pose proof (Hv k Hk) as Hvk. unfold kview in Hvk. rewrite Ek, Ed in Hvk. view_eqs Hvk.
    constructor; cbn [heap kickers out].
    + eauto.
    + rewrite kicker_tasks_snoc, app_nil_r. exact Hl.
    + intros k2 Hk2. rewrite spec_msg_snoc_other by (rewrite <- ?Hl; auto). rewrite <- (Hv k2 Hk2). reflexivity.
    + intros k2 Hk2. destruct (Hf k2 Hk2) as (F1 & F2 & F3).
      rewrite own_labels_snoc, own_tid_snoc, app_nil_r. repeat split; auto.
      intro b0. rewrite own_broker_snoc. apply F3.
    + rewrite spec_sent_snoc. cbn [rev]. rewrite Ho, app_nil_l. unfold spec_msg. rewrite E1, E2, E3, E4. rewrite <- E1. reflexivity.
Qed.

Lemma krun_inv : forall decl tb ops pre st st',
  length tb = length decl ->
  Inv decl tb pre st -> krun tb (length decl) st ops = Some st' -> Inv decl tb (pre ++ ops) st'.
Proof.
  induction ops as [|o ops IH]; intros pre st st' Htb HI Hr; cbn [krun] in Hr.
  - inversion Hr; subst. now rewrite app_nil_r.
  - destruct (kstep tb (length decl) st o) as [st1|] eqn:Es; [|discriminate].
    replace (pre ++ o :: ops) with ((pre ++ [o]) ++ ops) by (rewrite <- app_assoc; reflexivity).
    eapply IH; eauto using kstep_inv.
Qed.

Lemma inv_init : forall decl tb, Inv decl tb [] (kinit decl).
Proof.
  intros. constructor; cbn.
  - exists []. now rewrite app_nil_r.
  - reflexivity.
  - intros k H. lia.
  - intros k _. repeat split.
  - reflexivity.
Qed.

(* C09_no_leak *)
Theorem no_leak : forall decl tb ops st,
  length tb = length decl ->
  run_history decl tb ops = Some st ->
  (forall t, t < length decl -> nth_error (heap st) t = nth_error decl t)
  /\ rev (out st) = spec_sent decl tb [] ops.
Proof.
  intros decl tb ops st Htb Hr. unfold run_history in Hr.
  pose proof (krun_inv decl tb ops [] (kinit decl) st Htb (inv_init decl tb) Hr) as [[extra Hh] _ _ _ Ho].
  split.
  - intros t Ht. rewrite Hh. now rewrite nth_error_app1.
  - exact Ho.
Qed.

(* the same at every intermediate point of the history *)
Corollary no_leak_prefix : forall decl tb ops1 ops2 st,
  length tb = length decl ->
  run_history decl tb (ops1 ++ ops2) = Some st ->
  exists st1, run_history decl tb ops1 = Some st1
    /\ (forall t, t < length decl -> nth_error (heap st1) t = nth_error decl t).
Proof.
  intros decl tb ops1 ops2 st Htb Hr. unfold run_history in *.
  assert (H : forall ops1 s0, krun tb (length decl) s0 (ops1 ++ ops2) = Some st ->
              exists s1, krun tb (length decl) s0 ops1 = Some s1).
  { induction ops0 as [|o r IH]; intros s0 H; cbn in *; [eauto|].
    destruct (kstep tb (length decl) s0 o); [eauto|discriminate]. }
  destruct (H ops1 _ Hr) as [s1 H1]. exists s1. split; [exact H1|].
  apply (no_leak decl tb ops1 s1 Htb H1).
Qed.
