(* C08 - the hypothesis "parse_obj_as raises only ValueError / RuntimeError" made local to the pairs the call really
   consults, and what happens otherwise (the task function is not invoked). stdlib only. *)
From Coq Require Import List Bool Arith Lia.
From TQ Require Import Params ParamsProofs.
Import ListNotations.

Lemma nth_error_set_nth_other : forall V (l : list V) i j v, i <> j -> nth_error (set_nth l i v) j = nth_error l j.
Proof.
  induction l as [|a l IH]; intros [|i] [|j] v H; simpl; auto; try congruence; try (apply IH; congruence).
Qed.

Section Local.
  Variable value : Type.
  Variable is_none : value -> bool.
  Variable ty : Type.
  Variable is_any : ty -> bool.
  Variable conv : ty -> value -> cres value.
  Hypothesis conv_any : forall t v, is_any t = true -> conv t v = CVal v.

  (* conv with a foreign exception turned into a swallowed one *)
  Definition soften (r : cres value) : cres value := match r with CRaise => CSwallowed | x => x end.
  Definition sconv (t : ty) (v : value) : cres value := soften (conv t v).

  Lemma sconv_any : forall t v, is_any t = true -> sconv t v = CVal v.
  Proof. intros. unfold sconv. now rewrite conv_any. Qed.
  Lemma sconv_no_raise : forall t v, sconv t v <> CRaise.
  Proof. intros. unfold sconv. destruct (conv t v); discriminate. Qed.

  Lemma expect_soft : forall h n v,
    expect value is_none ty is_any sconv h n v = expect value is_none ty is_any conv h n v.
  Proof.
    intros. unfold expect, sconv. destruct (dget h n); auto.
    destruct (is_any t || is_none v); auto. now destruct (conv t v).
  Qed.

  Lemma expected_rcv_soft : forall h kw p r,
    expected_rcv value is_none ty is_any sconv h kw p r = expected_rcv value is_none ty is_any conv h kw p r.
  Proof. intros. unfold expected_rcv. destruct r; auto; now rewrite expect_soft. Qed.

  (* the (annotation, value) pairs the loop hands to parse_obj_as when it is at parameter list ps, index k *)
  Definition consulted (ps : list (param value)) (k : nat) (h : list (nat * ty)) (args : list value)
             (kw : list (nat * value)) (t : ty) (v : value) : Prop :=
    exists i p, nth_error ps i = Some p /\ dget h (pname p) = Some t /\
                (nth_error args (k + i) = Some v \/ (nth_error args (k + i) = None /\ dget kw (pname p) = Some v)) /\
                is_none v = false.

  Lemma consulted_head : forall p ps k h args kw t v,
    dget h (pname p) = Some t ->
    (nth_error args k = Some v \/ (nth_error args k = None /\ dget kw (pname p) = Some v)) ->
    is_none v = false -> consulted (p :: ps) k h args kw t v.
  Proof. intros. exists 0, p. rewrite Nat.add_0_r. auto. Qed.

  (* the state after one iteration agrees with the state before on everything the remaining parameters look at *)
  Definition agree (ps : list (param value)) (k : nat) (args args' : list value) (kw kw' : list (nat * value)) :=
    (forall j, k < j -> nth_error args' j = nth_error args j) /\
    (forall q, In q ps -> dget kw' (pname q) = dget kw (pname q)).

  Lemma consulted_up : forall p ps k h args args' kw kw' t v, agree ps k args args' kw kw' ->
    consulted ps (S k) h args' kw' t v -> consulted (p :: ps) k h args kw t v.
  Proof.
    intros p ps k h args args' kw kw' t v [Ha Hk] (i & q & Hq & Hh & Hv & Hn).
    exists (S i), q. simpl. repeat split; auto.
    assert (Hin : In q ps) by (eapply nth_error_In; eauto).
    replace (k + S i) with (S k + i) by lia.
    rewrite <- (Ha (S k + i)) by lia. rewrite <- (Hk q Hin). exact Hv.
  Qed.

  Lemma consulted_down : forall ps k h args args' kw kw' t v i q, agree ps k args args' kw kw' ->
    nth_error ps i = Some q -> dget h (pname q) = Some t ->
    (nth_error args (k + S i) = Some v \/ (nth_error args (k + S i) = None /\ dget kw (pname q) = Some v)) ->
    is_none v = false ->
    consulted ps (S k) h args' kw' t v.
  Proof.
    intros ps k h args args' kw kw' t v i q [Ha Hk] Hq Hh Hv Hn.
    exists i, q. repeat split; auto.
    assert (Hin : In q ps) by (eapply nth_error_In; eauto).
    replace (k + S i) with (S k + i) in Hv by lia.
    rewrite (Ha (S k + i)) by lia. rewrite (Hk q Hin). exact Hv.
  Qed.

  Lemma agree_refl : forall ps k args kw, agree ps k args args kw kw.
  Proof. split; auto. Qed.

  Lemma agree_set_nth : forall ps k args kw w, agree ps k args (set_nth args k w) kw kw.
  Proof. split; auto. intros j Hj. apply nth_error_set_nth_other. lia. Qed.

  Lemma agree_dset : forall p ps k args kw w, NoDup (map pname (p :: ps)) ->
    agree ps k args args kw (dset kw (pname p) w).
  Proof.
    intros p ps k args kw w ND. split; auto. intros q Hq. apply dget_dset_other.
    inversion ND as [|? ? Hni _]; subst. intros E. apply Hni. rewrite E. now apply in_map.
  Qed.

  Notation ploop c := (parse_loop value is_none ty c).

  Lemma parse_loop_soft : forall h ps k args kw, NoDup (map pname ps) ->
    (forall t v, consulted ps k h args kw t v -> conv t v <> CRaise) ->
    ploop conv ps k h args kw = ploop sconv ps k h args kw.
  Proof.
    intros h. induction ps as [|p ps IH]; intros k args kw ND Hc; simpl; auto.
    assert (ND' : NoDup (map pname ps)) by now inversion ND.
    assert (Hup : forall args' kw', agree ps k args args' kw kw' ->
              ploop conv ps (S k) h args' kw' = ploop sconv ps (S k) h args' kw').
    { intros args' kw' Hag. apply IH; auto. intros t v Hcv. apply Hc. eapply consulted_up; eauto. }
    destruct (dget h (pname p)) as [t|] eqn:Hh; [|apply Hup, agree_refl].
    destruct (nth_error args k) as [v|] eqn:Hn.
    - destruct (is_none v) eqn:En; [apply Hup, agree_refl|].
      assert (Hnr : conv t v <> CRaise) by (apply Hc; eapply consulted_head; eauto).
      unfold sconv at 1. destruct (conv t v) eqn:Ec; simpl.
      + apply Hup, agree_set_nth.
      + apply Hup, agree_refl.
      + contradiction.
    - destruct (dget kw (pname p)) as [v|] eqn:Hg; [|apply Hup, agree_refl].
      destruct (is_none v) eqn:En; [apply Hup, agree_refl|].
      assert (Hnr : conv t v <> CRaise) by (apply Hc; eapply consulted_head; eauto).
      unfold sconv at 1. destruct (conv t v) eqn:Ec; simpl.
      + apply Hup. now apply agree_dset.
      + apply Hup, agree_refl.
      + contradiction.
  Qed.

  Lemma parse_loop_raise : forall h ps k args kw, NoDup (map pname ps) ->
    (exists t v, consulted ps k h args kw t v /\ conv t v = CRaise) ->
    ploop conv ps k h args kw = PRaise.
  Proof.
    intros h. induction ps as [|p ps IH]; intros k args kw ND (t & v & (i & q & Hq & Hh & Hv & Hn) & Hr).
    - destruct i; discriminate.
    - assert (ND' : NoDup (map pname ps)) by now inversion ND.
      destruct i as [|i].
      + (* the head parameter is the one whose conversion raises *)
        simpl in Hq. inversion Hq; subst q. rewrite Nat.add_0_r in Hv. simpl. rewrite Hh.
        destruct Hv as [Hv|[Hv Hg]].
        * now rewrite Hv, Hn, Hr.
        * now rewrite Hv, Hg, Hn, Hr.
      + (* a later one: whatever the head does, the loop either raises now or reaches it unchanged *)
        simpl in Hq.
        assert (Hdown : forall args' kw', agree ps k args args' kw kw' -> ploop conv ps (S k) h args' kw' = PRaise).
        { intros args' kw' Hag. apply IH; auto. exists t, v. split; auto.
          eapply consulted_down; eauto. }
        simpl. destruct (dget h (pname p)) as [t0|]; [|apply Hdown, agree_refl].
        destruct (nth_error args k) as [v0|].
        * destruct (is_none v0); [apply Hdown, agree_refl|].
          destruct (conv t0 v0); auto; [apply Hdown, agree_set_nth | apply Hdown, agree_refl].
        * destruct (dget kw (pname p)) as [v0|]; [|apply Hdown, agree_refl].
          destruct (is_none v0); [apply Hdown, agree_refl|].
          destruct (conv t0 v0); auto; [apply Hdown; now apply agree_dset | apply Hdown, agree_refl].
  Qed.

  Notation rtask c := (run_task value is_none ty c).

  (* C08_binding with the no-foreign-exception hypothesis restricted to the pairs this very call consults *)
  Theorem binding_local : forall (sg : list (param value)) h args kw b,
    pos_then_kw value sg = true -> NoDup (map pname sg) -> NoDup (map fst kw) ->
    (forall t v, consulted sg 0 h args kw t v -> conv t v <> CRaise) ->
    pycall value sg args (dupdate (dep_kwargs value sg) kw) = Some b ->
    rtask conv true sg h args kw = Invoked (map2 (expected_rcv value is_none ty is_any conv h kw) sg b).
  Proof.
    intros sg h args kw b Hw ND NK Hc Hb.
    assert (E : rtask conv true sg h args kw = rtask sconv true sg h args kw).
    { unfold run_task, parse_params. now rewrite parse_loop_soft. }
    rewrite E. rewrite (binding value is_none ty is_any sconv sconv_any sconv_no_raise sg h args kw b Hw ND NK Hb).
    f_equal. unfold map2. apply map_ext. intros [p r]. apply expected_rcv_soft.
  Qed.

  (* ... and if one of them does raise, the exception leaves parse_params and run_task: the function is not invoked *)
  Theorem raise_not_invoked : forall (sg : list (param value)) h args kw,
    NoDup (map pname sg) ->
    (exists t v, consulted sg 0 h args kw t v /\ conv t v = CRaise) ->
    rtask conv true sg h args kw = ParseRaised.
  Proof.
    intros sg h args kw ND Hex. unfold run_task, parse_params. now rewrite parse_loop_raise.
  Qed.

  (* the Boolean test used by C08_check covers every consulted pair *)
  Lemma conv_raises_covers : forall (sg : list (param value)) h args kw,
    conv_raises value ty conv h (args ++ map snd kw) = false ->
    forall t v, consulted sg 0 h args kw t v -> conv t v <> CRaise.
  Proof.
    intros sg h args kw Hf t v (i & p & Hp & Hh & Hv & Hn) Hr.
    assert (Hin_h : In (pname p, t) h).
    { clear -Hh. induction h as [|[n0 t0] h IH]; simpl in *; [discriminate|].
      destruct (n0 =? pname p) eqn:E.
      - apply Nat.eqb_eq in E. inversion Hh; subst. now left.
      - right. now apply IH. }
    assert (Hin_v : In v (args ++ map snd kw)).
    { apply in_or_app. destruct Hv as [Hv|[_ Hg]].
      - left. eapply nth_error_In; eauto.
      - right. clear -Hg. induction kw as [|[n0 v0] kw IH]; simpl in *; [discriminate|].
        destruct (n0 =? pname p); [inversion Hg; now left | right; now apply IH]. }
    assert (conv_raises value ty conv h (args ++ map snd kw) = true); [|congruence].
    unfold conv_raises. apply existsb_exists. exists (pname p, t). split; auto.
    apply existsb_exists. exists v. split; auto. simpl. now rewrite Hr.
  Qed.
End Local.

(* model_meets_check without the global no-raise hypothesis *)
Theorem model_meets_check_local : forall value (is_none : value -> bool) ty (is_any : ty -> bool) conv veqb,
  (forall t v, is_any t = true -> conv t v = CVal v) ->
  (forall v, veqb v v = true) ->
  forall validate sg h args kw,
    C08_check value is_none ty is_any conv veqb validate sg h args kw
              (erase value (run_task value is_none ty conv validate sg h args kw)) = true.
Proof.
  intros value is_none ty is_any conv veqb conv_any veqb_refl validate sg h args kw. unfold C08_check.
  destruct (in_scope value sg kw) eqn:Es; simpl; auto.
  unfold in_scope in Es. apply andb_true_iff in Es as [Es NK]. apply andb_true_iff in Es as [Hw ND].
  apply nodupb_NoDup in ND. apply nodupb_NoDup in NK.
  destruct (pycall value sg args (dupdate (dep_kwargs value sg) kw)) as [b|] eqn:Hc; auto.
  destruct validate.
  - destruct (conv_raises value ty conv h (args ++ map snd kw)) eqn:Er; auto.
    rewrite (binding_local value is_none ty is_any conv conv_any sg h args kw b Hw ND NK
               (conv_raises_covers value is_none ty conv sg h args kw Er) Hc).
    now apply obs_eqb_refl.
  - rewrite no_parse, Hc. now apply obs_eqb_refl.
Qed.
