(* Proofs about coq/theories/Deps.v (C06, C12). stdlib + lia only. *)
From Coq Require Import List Bool Arith PeanoNat Lia Permutation.
From TQ Require Import Deps.
Import ListNotations.

(* ------------------------------------------------------------------ induction over context trees *)
Section ItemInd.
  Variable P : item -> Prop.
  Hypothesis Hown : forall d s, P (Own d s).
  Hypothesis Hsub : forall c, Forall P c -> P (Sub c).
  Fixpoint item_ind' (it : item) : P it :=
    match it with
    | Own d s => Hown d s
    | Sub c => Hsub c ((fix go (l : list item) : Forall P l :=
                          match l with
                          | [] => Forall_nil P
                          | x :: t => Forall_cons x (item_ind' x) (go t)
                          end) c)
    end.
End ItemInd.

Lemma rctx_all : forall (P : item -> Prop),
  (forall d s, P (Own d s)) -> (forall c, Forall P c -> P (Sub c)) -> forall c : rctx, Forall P c.
Proof.
  intros P H1 H2 c. induction c; constructor; auto. apply item_ind'; auto.
Qed.

Lemma Forall_app_i : forall {A} (P : A -> Prop) a b, Forall P a -> Forall P b -> Forall P (a ++ b).
Proof. intros. apply Forall_app. split; assumption. Qed.

(* ------------------------------------------------------------------ C12: exactly once *)
Lemma map_fst_close_dep : forall pe a l, map fst (map (close_dep pe a) l) = map fst l.
Proof.
  intros. rewrite map_map. apply map_ext. intros [d s]. unfold close_dep. destruct s; reflexivity.
Qed.

Definition item_perm (a : bool) (it : item) : Prop :=
  Permutation (open_order_item it) (map fst (close_item a it) ++ map fst (own_of it)).

Lemma list_perm : forall a (c : rctx), Forall (item_perm a) c ->
  Permutation (flat_map open_order_item c) (map fst (flat_map (close_item a) c) ++ map fst (owns c)).
Proof.
  intros a c H. induction H as [|x t Hx _ IH]; simpl.
  - constructor.
  - unfold owns in *. simpl. rewrite !map_app.
    unfold item_perm in Hx.
    eapply Permutation_trans. { apply Permutation_app; [exact Hx | exact IH]. }
    rewrite <- !app_assoc. apply Permutation_app_head.
    rewrite !app_assoc. apply Permutation_app_tail. apply Permutation_app_comm.
Qed.

Lemma item_perm_all : forall a it, item_perm a it.
Proof.
  intros a. apply item_ind'.
  - intros d s. unfold item_perm. simpl. constructor. constructor.
  - intros c H. unfold item_perm. simpl. rewrite app_nil_r, map_app, map_fst_close_dep.
    eapply Permutation_trans. { apply list_perm. exact H. }
    apply Permutation_app_head. rewrite map_rev. apply Permutation_rev.
Qed.

Lemma close_ctx_perm : forall pe a (c : rctx), Permutation (open_order c) (map fst (close_ctx pe a c)).
Proof.
  intros pe a c. unfold open_order, close_ctx. rewrite map_app, map_fst_close_dep.
  eapply Permutation_trans.
  { apply list_perm. apply rctx_all; intros; apply item_perm_all. }
  apply Permutation_app_head. rewrite map_rev. apply Permutation_rev.
Qed.

(* ------------------------------------------------------------------ C12: reverse order without sub-contexts *)
Lemma no_sub_flat : forall a (c : rctx), has_sub c = false ->
  flat_map (close_item a) c = [] /\ open_order c = map fst (owns c).
Proof.
  induction c as [|x t IH]; simpl; intros H; [split; reflexivity|].
  destruct x as [d s|c']; [|discriminate].
  destruct (IH H) as [E1 E2]. split; simpl; [exact E1|].
  unfold open_order in *. unfold owns in *. simpl. now rewrite E2.
Qed.

Lemma close_ctx_reverse : forall pe a (c : rctx), has_sub c = false ->
  map fst (close_ctx pe a c) = rev (open_order c).
Proof.
  intros pe a c H. destruct (no_sub_flat a c H) as [E1 E2].
  unfold close_ctx. rewrite E1, E2. simpl. rewrite map_fst_close_dep. apply map_rev.
Qed.

(* ------------------------------------------------------------------ C12: what each dependency sees *)
Lemma close_dep_true : forall a p, close_dep true a p = (fst p, a).
Proof. intros a [d s]. unfold close_dep. destruct s; reflexivity. Qed.

Lemma saw_item : forall a it, Forall (fun p => snd p = a) (close_item a it).
Proof.
  intros a. apply item_ind'.
  - intros. constructor.
  - intros c H. simpl. apply Forall_app_i.
    + apply Forall_forall. intros p Hp. apply in_flat_map in Hp. destruct Hp as [x [Hx Hp]].
      rewrite Forall_forall in H. specialize (H x Hx). rewrite Forall_forall in H. auto.
    + apply Forall_forall. intros p Hp. apply in_map_iff in Hp. destruct Hp as [q [Hq _]].
      rewrite close_dep_true in Hq. subst p. reflexivity.
Qed.

Lemma saw_ctx : forall a (c : rctx), Forall (fun p => snd p = a) (close_ctx true a c).
Proof.
  intros a c. unfold close_ctx. apply Forall_app_i.
  - apply Forall_forall. intros p Hp. apply in_flat_map in Hp. destruct Hp as [x [_ Hp]].
    pose proof (saw_item a x) as H. rewrite Forall_forall in H. auto.
  - apply Forall_forall. intros p Hp. apply in_map_iff in Hp. destruct Hp as [q [Hq _]].
    rewrite close_dep_true in Hq. subst p. reflexivity.
Qed.

(* the general shape, for a context created with another propagate_excs flag *)
Lemma saw_dep_styles : forall pe a d s,
  snd (close_dep pe a (d, s)) = match s with SGen | SAGen => pe && a | SCm | SACm => a end.
Proof. intros. unfold close_dep. destruct s; reflexivity. Qed.

(* ------------------------------------------------------------------ shape of one execution's effects *)
Definition pre_effs (cf : cfg) (c : rctx) (r : resolution) : list eff :=
  ack_at cf AReceived ++ [FBegin] ++ map FOpen (open_order c) ++
  match r with RFail => [FDepFail] | RDone o => [FTaskStart; FTaskEnd o] end.
Definition post_effs (cf : cfg) (r : resolution) : list eff :=
  (if found_exception r && has_mw cf then [FOnError] else []) ++
  ack_at cf AExecuted ++ save_effs cf r ++ ack_at cf ASaved.

Lemma callback_shape : forall cf c r,
  callback_effs cf c r = pre_effs cf c r ++ close_effs cf c r ++ post_effs cf r.
Proof.
  intros. unfold callback_effs, run_task_effs, pre_effs, post_effs. now rewrite <- !app_assoc.
Qed.

Lemma ack_at_cases : forall cf p, ack_at cf p = [] \/ ack_at cf p = [FAck p].
Proof. intros. unfold ack_at. destruct (ackable cf && ackpoint_eqb (ack cf) p); auto. Qed.

Lemma pre_no_close : forall cf c r, Forall (fun y => is_close y = false) (pre_effs cf c r).
Proof.
  intros. unfold pre_effs. apply Forall_app_i; [|apply Forall_app_i; [|apply Forall_app_i]].
  - destruct (ack_at_cases cf AReceived) as [E|E]; rewrite E; repeat constructor.
  - repeat constructor.
  - apply Forall_forall. intros y Hy. apply in_map_iff in Hy. destruct Hy as [d [<- _]]. reflexivity.
  - destruct r; repeat constructor.
Qed.

Lemma pre_no_visible : forall cf c r, Forall (fun y => is_visible y = false) (pre_effs cf c r).
Proof.
  intros. unfold pre_effs. apply Forall_app_i; [|apply Forall_app_i; [|apply Forall_app_i]].
  - destruct (ack_at_cases cf AReceived) as [E|E]; rewrite E; repeat constructor.
  - repeat constructor.
  - apply Forall_forall. intros y Hy. apply in_map_iff in Hy. destruct Hy as [d [<- _]]. reflexivity.
  - destruct r; repeat constructor.
Qed.

Lemma pre_has_finish : forall cf c r, exists y, In y (pre_effs cf c r) /\ is_finish y = true.
Proof.
  intros. unfold pre_effs. destruct r as [|o].
  - exists FDepFail. split; [|reflexivity]. rewrite !in_app_iff. right. right. right. now left.
  - exists (FTaskEnd o). split; [|reflexivity]. rewrite !in_app_iff. right. right. right. right. now left.
Qed.

Lemma post_no_close : forall cf r, Forall (fun y => is_close y = false) (post_effs cf r).
Proof.
  intros. unfold post_effs, save_effs. apply Forall_app_i; [|apply Forall_app_i; [|apply Forall_app_i]].
  - destruct (found_exception r && has_mw cf); repeat constructor.
  - destruct (ack_at_cases cf AExecuted) as [E|E]; rewrite E; repeat constructor.
  - destruct (no_result r); [|destruct (save_ok cf)]; repeat constructor.
  - destruct (ack_at_cases cf ASaved) as [E|E]; rewrite E; repeat constructor.
Qed.

Lemma closes_no_visible : forall cf c r, Forall (fun y => is_visible y = false) (close_effs cf c r).
Proof.
  intros. unfold close_effs. apply Forall_forall. intros y Hy. apply in_map_iff in Hy.
  destruct Hy as [p [<- _]]. reflexivity.
Qed.

Lemma closes_all_close : forall cf c r, Forall (fun y => is_close y = true) (close_effs cf c r).
Proof.
  intros. unfold close_effs. apply Forall_forall. intros y Hy. apply in_map_iff in Hy.
  destruct Hy as [p [<- _]]. reflexivity.
Qed.

(* list surgery *)
Lemma split_skip : forall (A B l1 : list eff) x l2,
  Forall (fun y => is_close y = false) A -> is_close x = true ->
  A ++ B = l1 ++ x :: l2 -> exists l1', l1 = A ++ l1' /\ B = l1' ++ x :: l2.
Proof.
  induction A as [|a A IH]; intros B l1 x l2 HA Hx E.
  - exists l1. split; auto.
  - inversion HA as [|? ? Ha HA']; subst. destruct l1 as [|b l1].
    + simpl in E. inversion E; subst. congruence.
    + simpl in E. inversion E; subst. destruct (IH B l1 x l2 HA' Hx H1) as [l1' [E1 E2]].
      exists l1'. split; [now rewrite E1 | exact E2].
Qed.

Lemma split_in_first : forall (B C l1 : list eff) x l2,
  Forall (fun y => is_close y = false) C -> is_close x = true ->
  B ++ C = l1 ++ x :: l2 -> exists l2', B = l1 ++ x :: l2'.
Proof.
  induction B as [|b B IH]; intros C l1 x l2 HC Hx E.
  - simpl in E. subst C. rewrite Forall_forall in HC. specialize (HC x).
    rewrite HC in Hx; [discriminate|]. apply in_or_app. right. now left.
  - destruct l1 as [|a l1].
    + simpl in E. inversion E; subst. exists B. reflexivity.
    + simpl in E. inversion E; subst. destruct (IH C l1 x l2 HC Hx H1) as [l2' E2].
      exists l2'. now rewrite E2.
Qed.

Lemma before_visible_one : forall cf c r l1 x l2,
  callback_effs cf c r = l1 ++ x :: l2 -> is_close x = true ->
  (forall y, In y l1 -> is_visible y = false) /\ (exists y, In y l1 /\ is_finish y = true).
Proof.
  intros cf c r l1 x l2 E Hx. rewrite callback_shape in E.
  destruct (split_skip _ _ _ _ _ (pre_no_close cf c r) Hx E) as [l1' [E1 E2]].
  destruct (split_in_first _ _ _ _ _ (post_no_close cf r) Hx E2) as [l2' E3].
  split.
  - intros y Hy. subst l1. apply in_app_or in Hy. destruct Hy as [Hy|Hy].
    + pose proof (pre_no_visible cf c r) as H. rewrite Forall_forall in H. auto.
    + pose proof (closes_no_visible cf c r) as H. rewrite Forall_forall in H. apply H.
      rewrite E3. apply in_or_app. now left.
  - destruct (pre_has_finish cf c r) as [y [Hy Hf]]. exists y. split; auto.
    subst l1. apply in_or_app. now left.
Qed.

(* closes are exactly the FClose effects of the execution, opens exactly the FOpen ones *)
Lemma closed_ids_app : forall a b, closed_ids (a ++ b) = closed_ids a ++ closed_ids b.
Proof. intros. unfold closed_ids. apply flat_map_app. Qed.
Lemma opened_ids_app : forall a b, opened_ids (a ++ b) = opened_ids a ++ opened_ids b.
Proof. intros. unfold opened_ids. apply flat_map_app. Qed.
Lemma saw_flags_app : forall a b, saw_flags (a ++ b) = saw_flags a ++ saw_flags b.
Proof. intros. unfold saw_flags. apply flat_map_app. Qed.

Lemma closed_ids_none : forall l, Forall (fun y => is_close y = false) l -> closed_ids l = [].
Proof.
  induction l as [|x t IH]; intros H; [reflexivity|]. inversion H; subst.
  unfold closed_ids in *. simpl. rewrite IH by assumption. destruct x; simpl in *; try reflexivity; discriminate.
Qed.
Lemma saw_flags_none : forall l, Forall (fun y => is_close y = false) l -> saw_flags l = [].
Proof.
  induction l as [|x t IH]; intros H; [reflexivity|]. inversion H; subst.
  unfold saw_flags in *. simpl. rewrite IH by assumption. destruct x; simpl in *; try reflexivity; discriminate.
Qed.
Lemma closed_ids_closes : forall l, closed_ids (map (fun p : nat * bool => FClose (fst p) (snd p)) l) = map fst l.
Proof. induction l as [|x t IH]; [reflexivity|]. unfold closed_ids in *. simpl. now rewrite IH. Qed.
Lemma saw_flags_closes : forall l, saw_flags (map (fun p : nat * bool => FClose (fst p) (snd p)) l) = map snd l.
Proof. induction l as [|x t IH]; [reflexivity|]. unfold saw_flags in *. simpl. now rewrite IH. Qed.
Lemma opened_ids_opens : forall l, opened_ids (map FOpen l) = l.
Proof. induction l as [|x t IH]; [reflexivity|]. unfold opened_ids in *. simpl. now rewrite IH. Qed.

Lemma closed_ids_callback : forall cf c r,
  closed_ids (callback_effs cf c r) = map fst (close_ctx true (found_exception r && propagate cf) c).
Proof.
  intros. rewrite callback_shape, !closed_ids_app.
  rewrite (closed_ids_none _ (pre_no_close cf c r)), (closed_ids_none _ (post_no_close cf r)).
  simpl. rewrite app_nil_r. unfold close_effs. apply closed_ids_closes.
Qed.

Lemma saw_flags_callback : forall cf c r,
  saw_flags (callback_effs cf c r) = map snd (close_ctx true (found_exception r && propagate cf) c).
Proof.
  intros. rewrite callback_shape, !saw_flags_app.
  rewrite (saw_flags_none _ (pre_no_close cf c r)), (saw_flags_none _ (post_no_close cf r)).
  simpl. rewrite app_nil_r. unfold close_effs. apply saw_flags_closes.
Qed.

Lemma opened_ids_none : forall l, (forall d, ~ In (FOpen d) l) -> opened_ids l = [].
Proof.
  induction l as [|x t IH]; intros H; [reflexivity|].
  unfold opened_ids in *. simpl. rewrite IH.
  - destruct x; try reflexivity. exfalso. apply (H d). now left.
  - intros d Hd. apply (H d). now right.
Qed.

Lemma opened_ids_callback : forall cf c r, opened_ids (callback_effs cf c r) = open_order c.
Proof.
  intros. unfold callback_effs, run_task_effs. rewrite !opened_ids_app, opened_ids_opens.
  assert (Hack : forall p, opened_ids (ack_at cf p) = []).
  { intros p. destruct (ack_at_cases cf p) as [E|E]; rewrite E; reflexivity. }
  rewrite !Hack. simpl.
  assert (H1 : opened_ids (match r with RFail => [FDepFail] | RDone o => [FTaskStart; FTaskEnd o] end) = []).
  { destruct r; reflexivity. }
  assert (H2 : opened_ids (close_effs cf c r) = []).
  { apply opened_ids_none. intros d Hd. unfold close_effs in Hd. apply in_map_iff in Hd.
    destruct Hd as [p [Hp _]]. discriminate. }
  assert (H3 : opened_ids (if found_exception r && has_mw cf then [FOnError] else []) = []).
  { destruct (found_exception r && has_mw cf); reflexivity. }
  assert (H4 : opened_ids (save_effs cf r) = []).
  { unfold save_effs. destruct (no_result r); [|destruct (save_ok cf)]; reflexivity. }
  rewrite H1, H2, H3, H4. simpl. now rewrite !app_nil_r.
Qed.

Lemma exactly_once_callback : forall cf c r,
  Permutation (opened_ids (callback_effs cf c r)) (closed_ids (callback_effs cf c r)).
Proof. intros. rewrite opened_ids_callback, closed_ids_callback. apply close_ctx_perm. Qed.

Lemma propagation_callback : forall cf c r d s,
  In (FClose d s) (callback_effs cf c r) -> s = found_exception r && propagate cf.
Proof.
  intros cf c r d s H. rewrite callback_shape in H. apply in_app_or in H. destruct H as [H|H].
  { pose proof (pre_no_close cf c r) as F. rewrite Forall_forall in F. specialize (F _ H). discriminate. }
  apply in_app_or in H. destruct H as [H|H].
  - unfold close_effs in H. apply in_map_iff in H. destruct H as [p [Hp Hin]].
    pose proof (saw_ctx (found_exception r && propagate cf) c) as F. rewrite Forall_forall in F.
    specialize (F p Hin). inversion Hp; subst. exact F.
  - pose proof (post_no_close cf r) as F. rewrite Forall_forall in F. specialize (F _ H). discriminate.
Qed.

(* ------------------------------------------------------------------ interleavings *)
Lemma nth_upd_nth_eq : forall {A} (l : list A) i x d, i < length l -> nth i (upd_nth i x l) d = x.
Proof.
  induction l as [|h t IH]; intros i x d H; simpl in *; [lia|].
  destruct i; simpl; [reflexivity|]. apply IH. lia.
Qed.
Lemma nth_upd_nth_neq : forall {A} (l : list A) i j x d, i <> j -> nth i (upd_nth j x l) d = nth i l d.
Proof.
  induction l as [|h t IH]; intros i j x d H; simpl.
  - destruct j; reflexivity.
  - destruct j; destruct i; simpl; try reflexivity; try congruence. apply IH. congruence.
Qed.

Lemma project_cons : forall {A} i j (x : A) g,
  project i ((j, x) :: g) = if j =? i then x :: project i g else project i g.
Proof. intros. unfold project. simpl. destruct (j =? i); reflexivity. Qed.

Lemma interleave_project : forall {A} (ts : list (list A)) g,
  Interleave ts g -> forall i, project i g = nth i ts [].
Proof.
  intros A ts g H. induction H as [ts Hn | ts j x t g Hj _ IH]; intros i.
  - unfold project. simpl. destruct (nth_in_or_default i ts []) as [Hin|E]; [|now rewrite E].
    rewrite Forall_forall in Hn. symmetry. now apply Hn.
  - rewrite project_cons. destruct (Nat.eqb_spec j i) as [->|Hne].
    + rewrite IH. assert (Hlt : i < length ts) by (apply nth_error_Some; congruence).
      rewrite nth_upd_nth_eq by exact Hlt.
      symmetry. apply nth_error_nth with (d := []) in Hj. exact Hj.
    + rewrite IH. apply nth_upd_nth_neq. congruence.
Qed.

Lemma project_app : forall {A} i (a b : list (nat * A)), project i (a ++ b) = project i a ++ project i b.
Proof. intros. unfold project. now rewrite filter_app, map_app. Qed.

Lemma in_project : forall {A} i (y : A) l, In (i, y) l <-> In y (project i l).
Proof.
  intros. unfold project. split.
  - intros H. apply in_map_iff. exists (i, y). split; [reflexivity|]. apply filter_In. split; [exact H|].
    simpl. apply Nat.eqb_refl.
  - intros H. apply in_map_iff in H. destruct H as [[j z] [E Hin]]. simpl in E. subst z.
    apply filter_In in Hin. destruct Hin as [Hin Hj]. simpl in Hj. apply Nat.eqb_eq in Hj. now subst j.
Qed.

Definition all_effs (n : nat) (cf : nat -> cfg) (c : nat -> rctx) (r : nat -> resolution) : list (list eff) :=
  map (fun i => callback_effs (cf i) (c i) (r i)) (seq 0 n).

Lemma nth_all_effs : forall n cf c r i, i < n -> nth i (all_effs n cf c r) [] = callback_effs (cf i) (c i) (r i).
Proof.
  intros n cf c r i H. unfold all_effs.
  set (f := fun i => callback_effs (cf i) (c i) (r i)).
  change (nth i (map f (seq 0 n)) [] = f i).
  rewrite nth_indep with (d' := f 0) by (now rewrite map_length, seq_length).
  rewrite map_nth. now rewrite seq_nth.
Qed.

Lemma project_concurrent : forall n cf c r g i, Interleave (all_effs n cf c r) g ->
  project i g = if i <? n then callback_effs (cf i) (c i) (r i) else [].
Proof.
  intros. rewrite (interleave_project _ _ H). destruct (Nat.ltb_spec i n).
  - now apply nth_all_effs.
  - apply nth_overflow. unfold all_effs. rewrite map_length, seq_length. lia.
Qed.

Lemma before_visible_concurrent : forall n cf c r g, Interleave (all_effs n cf c r) g ->
  forall l1 i d s l2, g = l1 ++ (i, FClose d s) :: l2 ->
  (forall y, In (i, y) l1 -> is_visible y = false) /\ (exists y, In (i, y) l1 /\ is_finish y = true).
Proof.
  intros n cf c r g H l1 i d s l2 E.
  pose proof (project_concurrent n cf c r g i H) as P. rewrite E in P.
  rewrite project_app, project_cons, Nat.eqb_refl in P.
  destruct (i <? n).
  - symmetry in P. destruct (before_visible_one _ _ _ _ _ _ P eq_refl) as [H1 [y [Hy Hf]]]. split.
    + intros y0 Hy0. apply H1. now apply in_project.
    + exists y. split; auto. now apply in_project.
  - destruct (project i l1); discriminate.
Qed.

Lemma exactly_once_concurrent : forall n cf c r g, Interleave (all_effs n cf c r) g ->
  forall i, Permutation (opened_ids (project i g)) (closed_ids (project i g)).
Proof.
  intros. rewrite (project_concurrent _ _ _ _ _ i H). destruct (i <? n).
  - apply exactly_once_callback.
  - constructor.
Qed.

Lemma propagation_concurrent : forall n cf c r g, Interleave (all_effs n cf c r) g ->
  forall i d s, In (i, FClose d s) g -> s = found_exception (r i) && propagate (cf i).
Proof.
  intros n cf c r g H i d s Hin. apply in_project in Hin.
  rewrite (project_concurrent _ _ _ _ _ i H) in Hin. destruct (i <? n).
  - eapply propagation_callback; eauto.
  - destruct Hin.
Qed.

(* ------------------------------------------------------------------ the Boolean form holds on the model *)
Lemma count_notin : forall x l, ~ In x l -> count x l = 0.
Proof.
  induction l as [|y t IH]; intros H; [reflexivity|]. simpl.
  destruct (Nat.eqb_spec x y) as [->|_]; [exfalso; apply H; now left|]. apply IH. intros Hc. apply H. now right.
Qed.
Lemma count_nodup : forall x l, NoDup l -> In x l -> count x l = 1.
Proof.
  induction l as [|y t IH]; intros Hn Hi; [destruct Hi|]. inversion Hn; subst. simpl.
  destruct (Nat.eqb_spec x y) as [->|Hne].
  - now rewrite count_notin.
  - destruct Hi as [->|Hi]; [congruence|]. now rewrite IH.
Qed.
Lemma eqb_list_refl : forall l, eqb_list l l = true.
Proof. induction l; simpl; [reflexivity|]. now rewrite Nat.eqb_refl. Qed.

Lemma order_ok_app_noclose : forall A B fin,
  Forall (fun y => is_close y = false) A -> Forall (fun y => is_visible y = false) A ->
  order_ok fin (A ++ B) = order_ok (fin || existsb is_finish A) B.
Proof.
  induction A as [|a A IH]; intros B fin H1 H2; simpl.
  - now rewrite orb_false_r.
  - inversion H1; subst. inversion H2; subst. rewrite H3, H5. rewrite IH by assumption.
    now rewrite orb_assoc.
Qed.
Lemma order_ok_closes : forall A B, Forall (fun y => is_close y = true) A ->
  order_ok true (A ++ B) = order_ok true B.
Proof.
  induction A as [|a A IH]; intros B H; simpl; [reflexivity|]. inversion H; subst. rewrite H2. simpl. now apply IH.
Qed.
Lemma order_ok_noclose : forall A fin, Forall (fun y => is_close y = false) A -> order_ok fin A = true.
Proof.
  induction A as [|a A IH]; intros fin H; simpl; [reflexivity|]. inversion H; subst. rewrite H2.
  destruct (is_visible a).
  - rewrite IH by assumption. rewrite andb_true_r. apply negb_true_iff.
    clear -H3. induction A as [|b A IH]; simpl; [reflexivity|]. inversion H3; subst. rewrite H1. simpl. now apply IH.
  - now apply IH.
Qed.

Lemma existsb_finish_pre : forall cf c r, existsb is_finish (pre_effs cf c r) = true.
Proof.
  intros. apply existsb_exists. destruct (pre_has_finish cf c r) as [y [H1 H2]]. exists y. auto.
Qed.

Lemma check_model : forall cf c r, NoDup (open_order c) -> C12_check cf c r (callback_effs cf c r) = true.
Proof.
  intros cf c r Hnd. unfold C12_check.
  rewrite opened_ids_callback, closed_ids_callback, saw_flags_callback.
  set (a := found_exception r && propagate cf).
  pose proof (close_ctx_perm true a c) as P.
  repeat (apply andb_true_iff; split).
  - apply Nat.eqb_eq. now apply Permutation_length.
  - apply forallb_forall. intros d Hd. apply Nat.eqb_eq. apply count_nodup.
    + eapply Permutation_NoDup; eauto.
    + eapply Permutation_in; eauto.
  - rewrite callback_shape.
    rewrite order_ok_app_noclose by (apply pre_no_close || apply pre_no_visible).
    rewrite existsb_finish_pre. simpl.
    rewrite order_ok_closes by apply closes_all_close.
    apply order_ok_noclose. apply post_no_close.
  - apply forallb_forall. intros s Hs. apply in_map_iff in Hs. destruct Hs as [p [<- Hp]].
    pose proof (saw_ctx a c) as F. rewrite Forall_forall in F. rewrite (F p Hp). apply eqb_reflx.
  - destruct (has_sub c) eqn:Hs; [reflexivity|]. simpl.
    rewrite close_ctx_reverse by exact Hs. apply eqb_list_refl.
Qed.

(* ------------------------------------------------------------------ C06 *)
Lemma length_upd_nth : forall {A} (l : list A) i x, length (upd_nth i x l) = length l.
Proof. induction l as [|h t IH]; intros i x; [destruct i; reflexivity|]. destruct i; simpl; auto. Qed.

Local Arguments upd_nth : simpl never.

Definition cell_ok (h : list dict) (i : nat) (a : addr) : Prop := 1 <= a < length h /\ hget h a = Some i.
Definition inv (st : state) : Prop :=
  1 <= length (heap st) /\
  forall i e, execs st i = Some e ->
    cell_ok (heap st) i (ex_ic e) /\
    (forall c a, ex_cache e c = Some a -> cell_ok (heap st) i a) /\
    (forall m, ex_ret e = Some m -> m = i).

Lemma inv_init : inv init.
Proof. split; [simpl; lia|]. intros i e H. discriminate. Qed.

Lemma hget_app_old : forall h x a, a < length h -> hget (h ++ [x]) a = hget h a.
Proof. intros. unfold hget. now apply app_nth1. Qed.
Lemma hget_app_new : forall h x, hget (h ++ [x]) (length h) = x.
Proof. intros. unfold hget. rewrite app_nth2 by lia. now rewrite Nat.sub_diag. Qed.
Lemma hget_upd0 : forall h v a, 1 <= a -> hget (upd_nth 0 v h) a = hget h a.
Proof. intros. unfold hget. apply nth_upd_nth_neq. lia. Qed.
Lemma hget_upd0_0 : forall h v, 1 <= length h -> hget (upd_nth 0 v h) 0 = v.
Proof. intros. unfold hget. apply nth_upd_nth_eq. lia. Qed.

Lemma cell_ok_grow : forall h i a x, cell_ok h i a -> cell_ok (h ++ [x]) i a.
Proof.
  intros h i a x [H1 H2]. split.
  - rewrite app_length. simpl. lia.
  - rewrite hget_app_old by lia. exact H2.
Qed.
Lemma cell_ok_upd0 : forall h i a v, cell_ok h i a -> cell_ok (upd_nth 0 v h) i a.
Proof.
  intros h i a v [H1 H2]. split.
  - now rewrite length_upd_nth.
  - rewrite hget_upd0 by lia. exact H2.
Qed.

Lemma step_inv : forall st a st' v, inv st -> step begin_copy st a = Some (st', v) -> inv st'.
Proof.
  intros st a st' v [Hlen Hinv] Hs. destruct a as [i|i c|i c|i|i|i]; simpl in Hs.
  - (* ABegin *)
    destruct (execs st i) eqn:Ei; [discriminate|]. inversion Hs; subst; clear Hs. split.
    + simpl. rewrite app_length, length_upd_nth. lia.
    + intros j e. simpl. unfold fupd. destruct (Nat.eqb_spec j i) as [->|Hne].
      * intros E. inversion E; subst; clear E. simpl. split; [|split].
        -- split.
           ++ rewrite app_length, length_upd_nth. simpl. lia.
           ++ rewrite hget_app_new. now apply hget_upd0_0.
        -- intros c a Hc. discriminate.
        -- intros m Hm. discriminate.
      * intros E. destruct (Hinv j e E) as [H1 [H2 H3]]. split; [|split].
        -- apply cell_ok_grow, cell_ok_upd0, H1.
        -- intros c a Hc. apply cell_ok_grow, cell_ok_upd0. eapply H2; eauto.
        -- exact H3.
  - (* ATraverse *)
    destruct (execs st i) as [e|] eqn:Ei; [|discriminate].
    destruct (ex_cache e c) eqn:Ec; [discriminate|]. inversion Hs; subst; clear Hs.
    destruct (Hinv i e Ei) as [H1 [H2 H3]]. split.
    + simpl. rewrite app_length. lia.
    + intros j e'. simpl. unfold fupd at 1. destruct (Nat.eqb_spec j i) as [->|Hne].
      * intros E. inversion E; subst; clear E. simpl. split; [|split].
        -- apply cell_ok_grow, H1.
        -- intros c' a'. unfold fupd. destruct (Nat.eqb_spec c' c) as [->|_].
           ++ intros E. inversion E; subst; clear E. split.
              ** rewrite app_length. simpl. lia.
              ** rewrite hget_app_new. apply H1.
           ++ intros Hc. apply cell_ok_grow. eapply H2; eauto.
        -- exact H3.
      * intros E. destruct (Hinv j e' E) as [G1 [G2 G3]]. split; [|split].
        -- apply cell_ok_grow, G1.
        -- intros c' a' Hc. apply cell_ok_grow. eapply G2; eauto.
        -- exact G3.
  - (* ARead *)
    destruct (execs st i) as [e|]; [|discriminate]. destruct (ex_cache e c); [|discriminate].
    inversion Hs; subst. split; assumption.
  - (* ABody *)
    destruct (execs st i) as [e|]; [|discriminate]. inversion Hs; subst. split; assumption.
  - (* AResult *)
    destruct (execs st i) as [e|] eqn:Ei; [|discriminate]. inversion Hs; subst; clear Hs.
    destruct (Hinv i e Ei) as [H1 [H2 H3]]. split; [exact Hlen|].
    intros j e'. simpl. unfold fupd. destruct (Nat.eqb_spec j i) as [->|Hne].
    + intros E. inversion E; subst; clear E. simpl. split; [|split]; auto.
      intros m Hm. now inversion Hm.
    + intros E. exact (Hinv j e' E).
  - (* ASave *)
    destruct (execs st i) as [e|]; [|discriminate]. inversion Hs; subst. split; assumption.
Qed.

Lemma step_own : forall st a st' v, inv st -> step begin_copy st a = Some (st', v) -> own_value a v = true.
Proof.
  intros st a st' v [Hlen Hinv] Hs. destruct a as [i|i c|i c|i|i|i]; simpl in Hs.
  - destruct (execs st i); [discriminate|]. inversion Hs; subst. reflexivity.
  - destruct (execs st i) as [e|]; [|discriminate]. destruct (ex_cache e c); [discriminate|].
    inversion Hs; subst. reflexivity.
  - destruct (execs st i) as [e|] eqn:Ei; [|discriminate]. destruct (ex_cache e c) as [a|] eqn:Ec; [|discriminate].
    inversion Hs; subst. destruct (Hinv i e Ei) as [_ [H2 _]]. destruct (H2 c a Ec) as [_ Hg].
    rewrite Hg. simpl. apply Nat.eqb_refl.
  - destruct (execs st i) as [e|]; [|discriminate]. inversion Hs; subst. simpl. apply Nat.eqb_refl.
  - destruct (execs st i) as [e|]; [|discriminate]. inversion Hs; subst. reflexivity.
  - destruct (execs st i) as [e|] eqn:Ei; [|discriminate]. inversion Hs; subst.
    destruct (Hinv i e Ei) as [_ [_ H3]]. simpl. destruct (ex_ret e) as [m|].
    + rewrite (H3 m eq_refl). now rewrite Nat.eqb_refl.
    + apply Nat.eqb_refl.
Qed.

Lemma run_own : forall acts st vals, inv st -> run begin_copy st acts = Some vals -> C06_check acts vals = true.
Proof.
  induction acts as [|a t IH]; intros st vals Hi Hr; simpl in Hr.
  - inversion Hr; subst. reflexivity.
  - destruct (step begin_copy st a) as [[st' v]|] eqn:Es; [|discriminate].
    destruct (run begin_copy st' t) as [vs|] eqn:Er; [|discriminate]. inversion Hr; subst. simpl.
    rewrite (step_own _ _ _ _ Hi Es). simpl. eapply IH; [|exact Er]. eapply step_inv; eauto.
Qed.

Lemma check_nth : forall acts vals, C06_check acts vals = true ->
  forall k a, nth_error acts k = Some a -> exists v, nth_error vals k = Some v /\ own_value a v = true.
Proof.
  induction acts as [|x t IH]; intros vals H k a Hk.
  - destruct k; discriminate.
  - destruct vals as [|v vs]; [discriminate|]. simpl in H. apply andb_true_iff in H. destruct H as [H1 H2].
    destruct k; simpl in *.
    + inversion Hk; subst. exists v. auto.
    + eapply IH; eauto.
Qed.

Lemma isolated : forall acts vals, run begin_copy init acts = Some vals ->
  forall k,
    (forall i c, nth_error acts k = Some (ARead i c) -> nth_error vals k = Some (VCtx (Some i))) /\
    (forall i, nth_error acts k = Some (ABody i) -> nth_error vals k = Some (VMsg i)) /\
    (forall i, nth_error acts k = Some (ASave i) ->
       nth_error vals k = Some (VSaved i None) \/ nth_error vals k = Some (VSaved i (Some i))).
Proof.
  intros acts vals Hr k. pose proof (run_own _ _ _ inv_init Hr) as Hc. repeat split.
  - intros i c Hk. destruct (check_nth _ _ Hc _ _ Hk) as [v [Hv Ho]]. rewrite Hv.
    destruct v as [|[j|]|m|tid r]; simpl in Ho; try discriminate. apply Nat.eqb_eq in Ho. now subst.
  - intros i Hk. destruct (check_nth _ _ Hc _ _ Hk) as [v [Hv Ho]]. rewrite Hv.
    destruct v as [|o|m|tid r]; simpl in Ho; try discriminate. apply Nat.eqb_eq in Ho. now subst.
  - intros i Hk. destruct (check_nth _ _ Hc _ _ Hk) as [v [Hv Ho]]. rewrite Hv.
    destruct v as [|o|m|tid [m|]]; simpl in Ho; try discriminate.
    + apply andb_true_iff in Ho. destruct Ho as [H1 H2]. apply Nat.eqb_eq in H1, H2. subst. now right.
    + apply Nat.eqb_eq in Ho. subst. now left.
Qed.

(* nothing blocks: in every reachable state a begun execution can start a new traversal, and a traversed
   context can be read - so every interleaving of well-formed executions is a run of the model *)
Inductive reachable : state -> Prop :=
| reach_init : reachable init
| reach_step : forall st a st' v, reachable st -> step begin_copy st a = Some (st', v) -> reachable st'.

Lemma reachable_inv : forall st, reachable st -> inv st.
Proof. induction 1; [apply inv_init | eapply step_inv; eauto]. Qed.

Lemma enabled : forall st, reachable st ->
  (forall i, execs st i = None -> exists st', step begin_copy st (ABegin i) = Some (st', VUnit)) /\
  (forall i e c, execs st i = Some e -> ex_cache e c = None ->
     exists st', step begin_copy st (ATraverse i c) = Some (st', VUnit)) /\
  (forall i e c a, execs st i = Some e -> ex_cache e c = Some a ->
     step begin_copy st (ARead i c) = Some (st, VCtx (Some i))) /\
  (forall i e, execs st i = Some e -> step begin_copy st (ABody i) = Some (st, VMsg i)) /\
  (forall i e, execs st i = Some e -> exists st', step begin_copy st (AResult i) = Some (st', VUnit)) /\
  (forall i e, execs st i = Some e -> step begin_copy st (ASave i) = Some (st, VSaved i (ex_ret e))).
Proof.
  intros st Hr. pose proof (reachable_inv _ Hr) as [Hlen Hinv]. repeat split.
  - intros i Hi. simpl. rewrite Hi. eexists. reflexivity.
  - intros i e c Hi Hc. simpl. rewrite Hi, Hc. eexists. reflexivity.
  - intros i e c a Hi Hc. simpl. rewrite Hi, Hc. destruct (Hinv i e Hi) as [_ [H2 _]].
    destruct (H2 c a Hc) as [_ Hg]. now rewrite Hg.
  - intros i e Hi. simpl. now rewrite Hi.
  - intros i e Hi. simpl. rewrite Hi. eexists. reflexivity.
  - intros i e Hi. simpl. now rewrite Hi.
Qed.

(* ------------------------------------------------------------------ the known finding (D6) on the faithful model *)
Definition d6_witness : rctx := [Sub [Own 0 SGen]; Own 1 SGen].   (* U = 1 (use_cache=False) depends on V = 0 *)

Lemma reverse_refuted : exists c : rctx,
  NoDup (open_order c) /\ open_order c = [0; 1] /\ close_order c = [0; 1] /\ close_order c <> rev (open_order c).
Proof.
  exists d6_witness. vm_compute. repeat split; try discriminate.
  repeat constructor; simpl; intuition discriminate.
Qed.

Lemma reverse_partial : forall c : rctx, has_sub c = false -> close_order c = rev (open_order c).
Proof. intros. unfold close_order. now apply close_ctx_reverse. Qed.

(* an inversion needs a sub-context even one level down: below a sub-context without nested sub-contexts the own
   dependencies of that sub-context are still closed in reverse order among themselves *)
Lemma exactly_once_tree : forall c : rctx, Permutation (open_order c) (close_order c).
Proof. intros. unfold close_order. apply close_ctx_perm. Qed.

Lemma exactly_once_nodup : forall c : rctx, NoDup (open_order c) -> NoDup (close_order c).
Proof. intros c H. eapply Permutation_NoDup; [apply exactly_once_tree | exact H]. Qed.

(* ------------------------------------------------------------------ every order violation is below a sub-context *)
Definition own_ids_item (it : item) : list nat := match it with Own d _ => [d] | Sub _ => [] end.
Fixpoint clo_item (it : item) : list nat :=
  match it with
  | Own _ _ => []
  | Sub c => flat_map clo_item c ++ rev (flat_map own_ids_item c)
  end.
Definition clo (c : rctx) : list nat := flat_map clo_item c ++ rev (flat_map own_ids_item c).

Lemma own_ids_owns : forall c : rctx, flat_map own_ids_item c = map fst (owns c).
Proof.
  induction c as [|it t IH]; [reflexivity|]. unfold owns in *. simpl. rewrite map_app, <- IH.
  destruct it; reflexivity.
Qed.

Lemma clo_item_close : forall a it, map fst (close_item a it) = clo_item it.
Proof.
  intros a. apply item_ind'.
  - reflexivity.
  - intros c H. simpl. rewrite map_app, map_fst_close_dep, map_rev, own_ids_owns. f_equal.
    induction H as [|x t Hx _ IH]; [reflexivity|]. simpl. now rewrite map_app, Hx, IH.
Qed.

Lemma clo_close : forall pe a (c : rctx), map fst (close_ctx pe a c) = clo c.
Proof.
  intros. unfold close_ctx, clo. rewrite map_app, map_fst_close_dep, map_rev, own_ids_owns. f_equal.
  induction c as [|x t IH]; [reflexivity|]. simpl. now rewrite map_app, clo_item_close, IH.
Qed.

Lemma clo_cons_own : forall d s (t : rctx), clo (Own d s :: t) = clo t ++ [d].
Proof. intros. unfold clo. simpl. now rewrite app_assoc. Qed.
Lemma clo_cons_sub : forall s (t : rctx), clo (Sub s :: t) = clo s ++ clo t.
Proof. intros. unfold clo. simpl. fold (clo s). now rewrite <- app_assoc. Qed.

Lemma clo_perm : forall c : rctx, Permutation (open_order c) (clo c).
Proof. intros. rewrite <- (clo_close true false). apply close_ctx_perm. Qed.

Lemma before_in : forall l x y, before l x y -> In x l /\ In y l.
Proof.
  intros l x y [l1 [l2 [E H]]]. subst l. split; apply in_or_app; right; [now left | now right].
Qed.

Lemma before_app_inv : forall a b x y, before (a ++ b) x y ->
  before a x y \/ (In x a /\ In y b) \/ before b x y.
Proof.
  induction a as [|h a IH]; intros b x y H.
  - right. right. exact H.
  - destruct H as [l1 [l2 [E Hy]]]. destruct l1 as [|h' l1]; simpl in E; inversion E; subst.
    + apply in_app_or in Hy. destruct Hy as [Hy|Hy].
      * left. exists [], a. auto.
      * right. left. split; [now left | exact Hy].
    + destruct (IH b x y) as [G|[[G1 G2]|G]].
      * exists l1, l2. auto.
      * left. destruct G as [m1 [m2 [E' Hy']]]. exists (h' :: m1), m2. subst a. auto.
      * right. left. split; [now right | exact G2].
      * right. right. exact G.
Qed.

Lemma nodup_app_disj : forall (a b : list nat) x, NoDup (a ++ b) -> In x a -> In x b -> False.
Proof.
  induction a as [|h a IH]; intros b x Hn Ha Hb; [destruct Ha|]. simpl in Hn. inversion Hn; subst.
  destruct Ha as [->|Ha].
  - apply H1. apply in_or_app. now right.
  - eapply IH; eauto.
Qed.
Lemma nodup_app_l : forall (a b : list nat), NoDup (a ++ b) -> NoDup a.
Proof. induction a; intros b H; [constructor|]. simpl in H. inversion H; subst. constructor.
  - intros Hc. apply H2. apply in_or_app. now left.
  - eapply IHa; eauto.
Qed.
Lemma nodup_app_r : forall (a b : list nat), NoDup (a ++ b) -> NoDup b.
Proof. induction a; intros b H; [exact H|]. simpl in H. inversion H; subst. eapply IHa; eauto. Qed.

Lemma before_single : forall d x y, before [d] x y -> False.
Proof.
  intros d x y [l1 [l2 [E H]]]. destruct l1 as [|h l1]; simpl in E; inversion E; subst.
  - destruct H.
  - destruct l1; discriminate.
Qed.

Definition explained (c : rctx) (x y : nat) : Prop :=
  exists s, SubOf c s /\ In x (open_order s) /\ ~ In y (open_order s).

Lemma explained_tail : forall it (t : rctx) x y, explained t x y -> explained (it :: t) x y.
Proof.
  intros it t x y [s [H [Hx Hy]]]. exists s. split; [|auto]. inversion H; subst.
  - apply sub_here. now right.
  - eapply sub_deep; [right; eassumption | assumption].
Qed.
Lemma explained_head : forall s (t : rctx) x y, explained s x y -> explained (Sub s :: t) x y.
Proof.
  intros s t x y [s' [H [Hx Hy]]]. exists s'. split; [|auto]. eapply sub_deep; [left; reflexivity | exact H].
Qed.

Definition inv_stmt (c : rctx) : Prop :=
  forall x y, NoDup (open_order c) -> before (open_order c) x y -> before (clo c) x y -> explained c x y.
Definition inv_item (it : item) : Prop := match it with Own _ _ => True | Sub s => inv_stmt s end.

Lemma inv_list : forall c : rctx, Forall inv_item c -> inv_stmt c.
Proof.
  intros c H. induction H as [|it t Hit _ IH]; intros x y Hn Ho Hc.
  - destruct Ho as [l1 [l2 [E _]]]. destruct l1; discriminate.
  - destruct it as [d s|s].
    + (* own dependency first: it closes last *)
      change (open_order (Own d s :: t)) with ([d] ++ open_order t) in *. rewrite clo_cons_own in Hc.
      assert (Hd : ~ In d (open_order t)).
      { intros Hi. eapply nodup_app_disj; [exact Hn | now left | exact Hi]. }
      assert (Hdc : ~ In d (clo t)).
      { intros Hi. apply Hd. eapply Permutation_in; [apply Permutation_sym, clo_perm | exact Hi]. }
      apply before_app_inv in Ho. destruct Ho as [Ho|[[Hx Hy]|Ho]].
      * exfalso. eapply before_single; eauto.
      * destruct Hx as [<-|[]]. exfalso.
        apply before_app_inv in Hc. destruct Hc as [Hc|[[H1 _]|Hc]].
        -- apply before_in in Hc. tauto.
        -- tauto.
        -- eapply before_single; eauto.
      * apply explained_tail. apply IH; [eapply nodup_app_r; eauto | exact Ho |].
        apply before_in in Ho. destruct Ho as [Hx Hy].
        apply before_app_inv in Hc. destruct Hc as [Hc|[[_ H2]|Hc]].
        -- exact Hc.
        -- destruct H2 as [<-|[]]. tauto.
        -- exfalso. eapply before_single; eauto.
    + (* a sub-context first *)
      change (open_order (Sub s :: t)) with (open_order s ++ open_order t) in *. rewrite clo_cons_sub in Hc.
      assert (Hdis : forall z, In z (open_order s) -> In z (open_order t) -> False).
      { intros z. apply nodup_app_disj. exact Hn. }
      assert (Hcs : forall z, In z (clo s) -> In z (open_order s)).
      { intros z Hz. eapply Permutation_in; [apply Permutation_sym, clo_perm | exact Hz]. }
      assert (Hct : forall z, In z (clo t) -> In z (open_order t)).
      { intros z Hz. eapply Permutation_in; [apply Permutation_sym, clo_perm | exact Hz]. }
      apply before_app_inv in Ho. destruct Ho as [Ho|[[Hx Hy]|Ho]].
      * apply explained_head. simpl in Hit. apply Hit; [eapply nodup_app_l; eauto | exact Ho |].
        apply before_in in Ho. destruct Ho as [Hx Hy].
        apply before_app_inv in Hc. destruct Hc as [Hc|[[_ H2]|Hc]].
        -- exact Hc.
        -- exfalso. apply (Hdis y); [exact Hy | apply Hct; exact H2].
        -- exfalso. apply before_in in Hc. destruct Hc as [H1 _]. apply (Hdis x); [exact Hx | apply Hct; exact H1].
      * exists s. split; [apply sub_here; now left|]. split; [exact Hx|]. intros Hy'. eapply Hdis; eauto.
      * apply explained_tail. apply IH; [eapply nodup_app_r; eauto | exact Ho |].
        apply before_in in Ho. destruct Ho as [Hx Hy].
        apply before_app_inv in Hc. destruct Hc as [Hc|[[H1 _]|Hc]].
        -- exfalso. apply before_in in Hc. destruct Hc as [H1 _]. apply (Hdis x); [apply Hcs; exact H1 | exact Hx].
        -- exfalso. apply (Hdis x); [apply Hcs; exact H1 | exact Hx].
        -- exact Hc.
Qed.

Lemma inv_item_all : forall it, inv_item it.
Proof. apply item_ind'; simpl; [trivial|]. intros c H. now apply inv_list. Qed.

Lemma reverse_partial_sharp : forall (c : rctx) x y,
  NoDup (open_order c) -> before (open_order c) x y -> before (close_order c) x y ->
  exists s, SubOf c s /\ In x (open_order s) /\ ~ In y (open_order s).
Proof.
  intros c x y Hn Ho Hc. unfold close_order in Hc. rewrite clo_close in Hc.
  apply (inv_list c); auto. apply rctx_all; intros; apply (inv_item_all (Own d s)) || apply (inv_item_all (Sub c0)).
Qed.
