(* Basic facts about the process-manager model: list surgery, how process states evolve, the state
   invariant, a generic induction principle for the drain loop, fuel sufficiency, no crash. *)
From Coq Require Import ZArith List Bool Arith Lia.
Import ListNotations.
From TQ Require Import ProcMan.

(* ------------------------------------------------------------------ set_nth *)
Lemma set_nth_length A i (x : A) l : length (set_nth i x l) = length l.
Proof. revert i; induction l; intros [|i]; simpl; auto. Qed.

Lemma nth_set_nth_eq A i (x d : A) l : i < length l -> nth i (set_nth i x l) d = x.
Proof. revert i; induction l; intros [|i]; simpl; intros; try lia; auto. apply IHl; lia. Qed.

Lemma nth_set_nth_neq A i j (x d : A) l : i <> j -> nth j (set_nth i x l) d = nth j l d.
Proof.
  revert i j; induction l; intros [|i] [|j]; simpl; intros; try congruence; auto.
Qed.

Lemma map_set_nth A B (f : A -> B) i x l : map f (set_nth i x l) = set_nth i (f x) (map f l).
Proof. revert i; induction l; intros [|i]; simpl; auto. f_equal; auto. Qed.

Lemma set_nth_nth A i (d : A) l : set_nth i (nth i l d) l = l.
Proof. revert i; induction l; intros [|i]; simpl; auto. f_equal; auto. Qed.

Lemma in_set_nth A i (x y : A) l : In y (set_nth i x l) -> y = x \/ In y l.
Proof.
  revert i; induction l; intros [|i]; simpl; auto.
  - intros [H|H]; auto.
  - intros [H|H]; auto. apply IHl in H. tauto.
Qed.

Lemma NoDup_set_nth A i (x : A) l : NoDup l -> ~ In x l -> NoDup (set_nth i x l).
Proof.
  revert i; induction l; intros [|i] ND NI; simpl; auto.
  - inversion ND; subst. constructor; auto. simpl in NI; tauto.
  - inversion ND; subst. simpl in NI. constructor.
    + intro H. apply in_set_nth in H. destruct H; subst; tauto.
    + apply IHl; tauto.
Qed.

Lemma Forall_set_nth A (P : A -> Prop) i x l : Forall P l -> P x -> Forall P (set_nth i x l).
Proof.
  revert i; induction l; intros [|i] F Px; simpl; auto; inversion F; subst; constructor; auto.
Qed.

Lemma nth_error_nth' A (l : list A) i x d : nth_error l i = Some x -> nth i l d = x /\ i < length l.
Proof.
  intro H. split. apply nth_error_nth; auto. apply nth_error_Some. congruence.
Qed.

(* ------------------------------------------------------------------ how processes evolve *)
Definition ple (a b : pstate) : Prop :=
  match a, b with
  | Live, _ => True
  | Zombie, Live => False | Zombie, _ => True
  | Reaped, Reaped => True | Reaped, _ => False
  end.
Definition pev (a b : proc) : Prop := pid a = pid b /\ ple (pst a) (pst b).
Definition evolves : list proc -> list proc -> Prop := Forall2 pev.

Lemma ple_refl a : ple a a. Proof. destruct a; simpl; auto. Qed.
Lemma ple_trans a b c : ple a b -> ple b c -> ple a c.
Proof. destruct a, b, c; simpl; auto. Qed.
Lemma pev_refl a : pev a a. Proof. split; auto using ple_refl. Qed.
Lemma pev_trans a b c : pev a b -> pev b c -> pev a c.
Proof. intros [? ?] [? ?]; split; [congruence | eauto using ple_trans]. Qed.
Lemma evolves_refl l : evolves l l.
Proof. induction l; constructor; auto using pev_refl. Qed.
Lemma evolves_trans a b c : evolves a b -> evolves b c -> evolves a c.
Proof.
  intro H; revert c; induction H; intros c' H2; inversion H2; subst; constructor; eauto using pev_trans.
  apply IHForall2; auto.
Qed.
Lemma evolves_length a b : evolves a b -> length a = length b.
Proof. induction 1; simpl; auto. Qed.
Lemma evolves_pids a b : evolves a b -> map pid a = map pid b.
Proof. induction 1; simpl; auto. destruct H. congruence. Qed.
Lemma evolves_nth a b j : evolves a b -> pev (nth j a dummy) (nth j b dummy).
Proof.
  intro H; revert j; induction H; intros [|j]; simpl; auto using pev_refl.
Qed.
Lemma evolves_set_nth k w ws : pev (nth k ws dummy) w -> evolves ws (set_nth k w ws).
Proof.
  revert k; induction ws as [|a ws IH]; intros [|k] H; simpl in *.
  - constructor.
  - constructor.
  - constructor; [exact H | apply evolves_refl].
  - constructor; [apply pev_refl | apply IH; exact H].
Qed.

Lemma kill_proc_pev p : pev p (kill_proc p).
Proof. unfold kill_proc, pev. destruct p as [i []]; simpl; auto. Qed.

Lemma die_evolves i ws : evolves ws (die i ws).
Proof.
  unfold die. destruct (nth_error ws i) eqn:E; auto using evolves_refl.
  apply evolves_set_nth. apply (nth_error_nth' _ _ _ _ dummy) in E. destruct E as [-> _]. apply kill_proc_pev.
Qed.

Lemma die_polled_evolves i ws : evolves ws (die_polled i ws).
Proof.
  unfold die_polled. destruct (nth_error ws i) eqn:E; auto using evolves_refl.
  apply evolves_set_nth. apply (nth_error_nth' _ _ _ _ dummy) in E. destruct E as [-> _].
  unfold pev, reap_proc. destruct p as [q []]; simpl; auto.
Qed.

Lemma is_alive_spec w al w' :
  is_alive w = (al, w') ->
  pev w w' /\ (al = true -> pst w = Live /\ w' = w) /\ (al = false -> pst w <> Live /\ pst w' = Reaped).
Proof.
  unfold is_alive, pev. destruct w as [i []]; simpl; intro H; inversion H; subst; simpl; repeat split; auto; congruence.
Qed.

(* ------------------------------------------------------------------ deliver *)
Definition sigq (evs : list event) : list action :=
  flat_map (fun e => match e with Die _ | DieS _ => [] | Hup | FileChange => [ReloadAll] | Int | Term => [Shutdown] end) evs.

Lemma deliver_spec evs : forall st,
  evolves (workers st) (workers (deliver st evs)) /\ queue (deliver st evs) = queue st ++ sigq evs /\
  restarts (deliver st evs) = restarts st /\ next_pid (deliver st evs) = next_pid st.
Proof.
  induction evs as [|e evs IH]; intro st; simpl.
  - rewrite app_nil_r. auto using evolves_refl.
  - destruct (IH (deliver1 st e)) as (A & B & C & D). fold (deliver (deliver1 st e) evs).
    rewrite B, C, D. destruct e; simpl in *; rewrite <- ?app_assoc; simpl; repeat split; auto.
    + eapply evolves_trans; [apply die_evolves | exact A].
    + eapply evolves_trans; [apply die_polled_evolves | exact A].
Qed.

Lemma sigq_unpolled evs : sigq (filter unpolled evs) = sigq evs.
Proof.
  unfold sigq. induction evs as [|e evs IH]; simpl; auto. destruct e; simpl; rewrite ?IH; auto.
Qed.

Lemma deliver_np_spec evs st :
  evolves (workers st) (workers (deliver_np st evs)) /\ queue (deliver_np st evs) = queue st ++ sigq evs /\
  restarts (deliver_np st evs) = restarts st /\ next_pid (deliver_np st evs) = next_pid st.
Proof. unfold deliver_np. rewrite <- (sigq_unpolled evs). apply deliver_spec. Qed.

Lemma sigq_no_one evs i b : ~ In (ReloadOne i b) (sigq evs).
Proof.
  unfold sigq. intro H. apply in_flat_map in H. destruct H as (e & _ & H). destruct e; simpl in H; intuition congruence.
Qed.

(* ------------------------------------------------------------------ invariant *)
Definition qwf (n : nat) (q : list action) : Prop := forall i b, In (ReloadOne i b) q -> i < n.

Record Inv (n : nat) (st : state) : Prop := mkInv {
  inv_len : length (workers st) = n;
  inv_pid : Forall (fun p => 1 <= p < next_pid st) (map pid (workers st));
  inv_nodup : NoDup (map pid (workers st));
  inv_q : qwf n (queue st) }.

Lemma qwf_app n a b : qwf n a -> qwf n b -> qwf n (a ++ b).
Proof. unfold qwf; intros. apply in_app_or in H1. destruct H1; eauto. Qed.
Lemma qwf_sigq n evs : qwf n (sigq evs).
Proof. intros i b H. exfalso. eapply sigq_no_one; eauto. Qed.

Lemma Inv_evolve n st st' :
  Inv n st -> evolves (workers st) (workers st') -> next_pid st' = next_pid st -> qwf n (queue st') -> Inv n st'.
Proof.
  intros [L P N Q] E NP Q'. constructor; auto.
  - rewrite <- (evolves_length _ _ E); auto.
  - rewrite NP, <- (evolves_pids _ _ E); auto.
  - rewrite <- (evolves_pids _ _ E); auto.
Qed.

Lemma Inv_deliver n st evs : Inv n st -> Inv n (deliver st evs).
Proof.
  intro I. destruct (deliver_spec evs st) as (A & B & C & D).
  eapply Inv_evolve; eauto. rewrite B. apply qwf_app; [apply I | apply qwf_sigq].
Qed.

Lemma Inv_init c p0 : 1 <= p0 -> Inv (nworkers c) (fst (init c p0)).
Proof.
  intro H. unfold init; simpl. constructor; simpl.
  - rewrite map_length, seq_length; auto.
  - rewrite map_map; simpl. apply Forall_forall. intros x Hx. apply in_map_iff in Hx.
    destruct Hx as (i & <- & Hi). apply in_seq in Hi. lia.
  - rewrite map_map; simpl. generalize 0 at 1. induction (nworkers c); intro k; simpl; constructor.
    + intro Hx. apply in_map_iff in Hx. destruct Hx as (i & E & Hi). apply in_seq in Hi. lia.
    + apply IHn.
  - intros i b [].
Qed.

(* ------------------------------------------------------------------ handle_reload *)
Lemma handle_reload_spec n i st :
  Inv n st -> i < n ->
  exists st', handle_reload i st =
    (st', [Terminate (pid (nth i (workers st) dummy)); Join (pid (nth i (workers st) dummy)); Start i (next_pid st)]) /\
    workers st' = set_nth i (mkProc (next_pid st) Live) (workers st) /\ queue st' = queue st /\
    restarts st' = restarts st /\ next_pid st' = S (next_pid st) /\ Inv n st'.
Proof.
  intros I Hi. unfold handle_reload.
  destruct (nth_error (workers st) i) eqn:E.
  2:{ apply nth_error_None in E. rewrite (inv_len _ _ I) in E. lia. }
  apply (nth_error_nth' _ _ _ _ dummy) in E. destruct E as [E _]. rewrite E.
  eexists; split; [reflexivity|]. simpl. repeat split; auto; destruct I as [L P N Q]; simpl in *.
  - rewrite set_nth_length; auto.
  - rewrite map_set_nth. apply Forall_set_nth; simpl.
    + eapply Forall_impl; [|exact P]. simpl; intros; lia.
    + rewrite Forall_forall in P. destruct (workers st); simpl in *; try lia.
      specialize (P _ (or_introl eq_refl)). lia.
  - rewrite map_set_nth. apply NoDup_set_nth; auto. simpl. intro H.
    rewrite Forall_forall in P. apply P in H. lia.
  - exact Q.
Qed.

(* ------------------------------------------------------------------ scan *)
Lemma scan_spec idxs : forall st aevs,
  evolves (workers st) (workers (scan idxs st aevs)) /\
  restarts (scan idxs st aevs) = restarts st /\ next_pid (scan idxs st aevs) = next_pid st /\
  exists q', queue (scan idxs st aevs) = queue st ++ q' /\
             forall i b, In (ReloadOne i b) q' -> In i idxs /\ b = false.
Proof.
  induction idxs as [|k ks IH]; intros st aevs; simpl.
  - repeat split; auto using evolves_refl. exists []. rewrite app_nil_r; split; auto. intros ? ? [].
  - destruct (pop aevs) as [ev aevs'].
    destruct (deliver_np_spec ev st) as (A & B & C & D). set (st1 := deliver_np st ev) in *.
    destruct (is_alive (nth k (workers st1) dummy)) as [al w'] eqn:EA.
    apply is_alive_spec in EA. destruct EA as (PV & _ & _).
    set (st2 := set_workers st1 (set_nth k w' (workers st1))).
    assert (E2 : evolves (workers st) (workers st2)).
    { eapply evolves_trans; [exact A|]. simpl. apply evolves_set_nth; auto. }
    destruct al.
    + destruct (IH st2 aevs') as (A' & B' & C' & q' & Q' & W').
      repeat split; try (simpl in *; congruence).
      * eapply evolves_trans; eauto.
      * exists (sigq ev ++ q'). split.
        -- rewrite Q'. simpl. rewrite B, app_assoc; auto.
        -- intros i b H. apply in_app_or in H. destruct H as [H|H].
           ++ exfalso; eapply sigq_no_one; eauto.
           ++ apply W' in H. simpl; tauto.
    + destruct (IH (enq st2 [ReloadOne k false]) aevs') as (A' & B' & C' & q' & Q' & W').
      repeat split; try (simpl in *; congruence).
      * eapply evolves_trans; eauto.
      * exists (sigq ev ++ [ReloadOne k false] ++ q'). split.
        -- rewrite Q'. simpl. rewrite B, <- !app_assoc; auto.
        -- intros i b H. apply in_app_or in H. destruct H as [H|H].
           ++ exfalso; eapply sigq_no_one; eauto.
           ++ simpl in H. destruct H as [H|H]; [inversion H; subst; simpl; auto|].
              apply W' in H. simpl; tauto.
Qed.

Lemma Inv_scan n st aevs : Inv n st -> Inv n (scan (seq 0 n) st aevs).
Proof.
  intro I. destruct (scan_spec (seq 0 n) st aevs) as (A & B & C & q' & Q & W).
  eapply Inv_evolve; eauto. rewrite Q. apply qwf_app; [apply I|].
  intros i b H. apply W in H. destruct H as [H _]. apply in_seq in H. lia.
Qed.

(* ------------------------------------------------------------------ shutdown_live: evolution, never crashes *)
Lemma shutdown_live_basic idxs : forall st aevs s e o,
  shutdown_live idxs st aevs = (s, e, o) ->
  evolves (workers st) (workers s) /\ restarts s = restarts st /\ next_pid s = next_pid st /\
  (exists evs, queue s = queue st ++ sigq evs) /\ o = Exited ExitNone.
Proof.
  induction idxs as [|k ks IH]; intros st aevs s e o; simpl.
  - intro H; inversion H; subst. repeat split; auto using evolves_refl. exists []; simpl; rewrite app_nil_r; auto.
  - destruct (pid (nth k (workers st) dummy) =? 0); [apply IH|].
    destruct (pop aevs) as [ev aevs'].
    destruct (deliver_np_spec ev st) as (A & B & C & D). set (st1 := deliver_np st ev) in *.
    destruct (is_alive (nth k (workers st1) dummy)) as [al w'] eqn:EA.
    apply is_alive_spec in EA. destruct EA as (PV & T & F).
    set (st2 := set_workers st1 (set_nth k w' (workers st1))).
    assert (E2 : evolves (workers st) (workers st2)).
    { eapply evolves_trans; [exact A|]. simpl. apply evolves_set_nth; auto. }
    assert (K : forall s e o, shutdown_live ks st2 aevs' = (s, e, o) ->
                evolves (workers st) (workers s) /\ restarts s = restarts st /\ next_pid s = next_pid st /\
                (exists evs, queue s = queue st ++ sigq evs) /\ o = Exited ExitNone).
    { intros s0 e0 o0 H. apply IH in H. destruct H as (A' & B' & C' & (evs & Q') & O').
      repeat split; try (simpl in *; congruence).
      - eapply evolves_trans; eauto.
      - exists (ev ++ evs). rewrite Q'. simpl. rewrite B. unfold sigq. rewrite flat_map_app, app_assoc. auto. }
    destruct al.
    + destruct (T eq_refl) as [L ->]. rewrite L.
      destruct (shutdown_live ks st2 aevs') as [[s0 e0] o0] eqn:R.
      intro H; inversion H; subst. eapply K; eauto.
    + apply K.
Qed.

(* ------------------------------------------------------------------ one iteration of the drain loop *)
Definition ls_state (ls : loop_state) : state := fst (fst ls).

Definition st3_of (st1 : state) (q : list action) (counted : bool) : state :=
  mkState (workers st1) q (if counted then (restarts st1 + 1)%Z else restarts st1) (next_pid st1).
Definition counted_of (c : cfg) (ra : bool) : bool := andb (negb ra) (1 <=? max_fails c)%Z.
Definition ones (n : nat) : list action := map (fun i => ReloadOne i true) (seq 0 n).

(* the six ways one iteration can go; st1 = state after the events delivered inside empty() *)
Inductive body_spec (c : cfg) (aevs : list (list event)) (st1 : state) (devs' : list (list event)) (rl : list nat)
  : (loop_state * list effect) + (state * list effect * outcome) -> Prop :=
| BEmpty : queue st1 = [] -> body_spec c aevs st1 devs' rl (inr (st1, [], Cont))
| BAll q : queue st1 = ReloadAll :: q ->
    body_spec c aevs st1 devs' rl
      (inl ((enq (set_queue st1 q) (ones (length (workers st1))), devs', rl), [Got ReloadAll]))
| BFail i q : queue st1 = ReloadOne i false :: q -> (1 <= max_fails c)%Z -> (max_fails c <= restarts st1 + 1)%Z ->
    body_spec c aevs st1 devs' rl
      (inr (st3_of st1 q true, [Got (ReloadOne i false); EExit ExitFail], Exited ExitFail))
| BSkip i ra q : queue st1 = ReloadOne i ra :: q ->
    (counted_of c ra = true -> (restarts st1 + 1 < max_fails c)%Z) -> existsb (Nat.eqb i) rl = true ->
    body_spec c aevs st1 devs' rl (inl ((st3_of st1 q (counted_of c ra), devs', rl), [Got (ReloadOne i ra)]))
| BReload i ra q : queue st1 = ReloadOne i ra :: q ->
    (counted_of c ra = true -> (restarts st1 + 1 < max_fails c)%Z) -> existsb (Nat.eqb i) rl = false ->
    body_spec c aevs st1 devs' rl
      (inl ((fst (handle_reload i (st3_of st1 q (counted_of c ra))), devs', i :: rl),
            Got (ReloadOne i ra) :: snd (handle_reload i (st3_of st1 q (counted_of c ra)))))
| BShut q s e o : queue st1 = Shutdown :: q ->
    shutdown_live (seq 0 (length (workers st1))) (set_queue st1 q) aevs = (s, e, o) ->
    body_spec c aevs st1 devs' rl (inr (s, Got Shutdown :: e, o)).

Lemma body_cases c aevs st devs rl :
  body_spec c aevs (deliver st (fst (pop devs))) (snd (pop devs)) rl (body shutdown_live c aevs (st, devs, rl)).
Proof.
  unfold body. destruct (pop devs) as [ev devs']. cbv zeta. cbn [fst snd].
  set (st1 := deliver st ev).
  destruct (queue st1) as [|a q] eqn:Q; [constructor; auto|].
  destruct a as [|i ra|].
  - apply BAll; auto.
  - fold (counted_of c ra).
    destruct (counted_of c ra) eqn:CO.
    + assert (ra = false /\ (1 <= max_fails c)%Z) as [-> M].
      { unfold counted_of in CO. destruct ra; simpl in CO; try discriminate. split; auto. apply Z.leb_le; auto. }
      cbn [andb]. change (restarts (set_restarts (set_queue st1 q) (restarts (set_queue st1 q) + 1)%Z)) with (restarts st1 + 1)%Z.
      destruct (max_fails c <=? restarts st1 + 1)%Z eqn:LE.
      * apply Z.leb_le in LE. apply (BFail c aevs st1 devs' rl i q); auto.
      * apply Z.leb_gt in LE.
        destruct (existsb (Nat.eqb i) rl) eqn:EX.
        -- pose proof (BSkip c aevs st1 devs' rl i false q Q) as X. rewrite CO in X. apply X; auto.
        -- pose proof (BReload c aevs st1 devs' rl i false q Q) as X. rewrite CO in X.
           change (set_restarts (set_queue st1 q) (restarts (set_queue st1 q) + 1)%Z) with (st3_of st1 q true).
           destruct (handle_reload i (st3_of st1 q true)) eqn:HR. apply X; auto.
    + cbn [andb].
      destruct (existsb (Nat.eqb i) rl) eqn:EX.
      * pose proof (BSkip c aevs st1 devs' rl i ra q Q) as X. rewrite CO in X.
        change (set_queue st1 q) with (st3_of st1 q false). apply X; auto. discriminate.
      * pose proof (BReload c aevs st1 devs' rl i ra q Q) as X. rewrite CO in X.
        change (set_queue st1 q) with (st3_of st1 q false).
        destruct (handle_reload i (st3_of st1 q false)) eqn:HR. apply X; auto. discriminate.
  - change (length (workers (set_queue st1 q))) with (length (workers st1)).
    destruct (shutdown_live (seq 0 (length (workers st1))) (set_queue st1 q) aevs) as [[s e] o] eqn:R.
    eapply BShut; eauto.
Qed.

Lemma Inv_st3 n st1 a q co : Inv n st1 -> queue st1 = a :: q -> Inv n (st3_of st1 q co).
Proof.
  intros [L P N W] Q. constructor; simpl; auto. intros i b H. apply (W i b). rewrite Q; simpl; auto.
Qed.

Lemma body_Inv n c aevs ls :
  Inv n (ls_state ls) ->
  match body shutdown_live c aevs ls with
  | inl (ls', _) => Inv n (ls_state ls')
  | inr (s, _, _) => Inv n s
  end.
Proof.
  destruct ls as [[st devs] rl]. unfold ls_state; cbn [fst]. intro I.
  pose proof (Inv_deliver n st (fst (pop devs)) I) as I1.
  destruct (body_cases c aevs st devs rl); cbn [fst]; auto.
  - pose proof (Inv_st3 n _ _ _ false I1 H) as I2.
    eapply Inv_evolve; eauto using evolves_refl. simpl. apply qwf_app; [apply I2|].
    intros i b HI. apply in_map_iff in HI. destruct HI as (j & E & HI). inversion E; subst.
    apply in_seq in HI. rewrite (inv_len _ _ I1) in HI. lia.
  - eapply Inv_st3; eauto.
  - eapply Inv_st3; eauto.
  - assert (Hi : i < n). { destruct I1 as [_ _ _ W]. apply (W i ra). rewrite H; simpl; auto. }
    destruct (handle_reload_spec n i _ (Inv_st3 n _ _ _ (counted_of c ra) I1 H) Hi) as (st4 & E & _ & _ & _ & _ & I4).
    rewrite E. auto.
  - apply shutdown_live_basic in H0. destruct H0 as (A & B & C & (evs & Q') & O).
    pose proof (Inv_st3 n _ _ _ false I1 H) as I2.
    eapply Inv_evolve; eauto. rewrite Q'. apply qwf_app; [apply I2 | apply qwf_sigq].
Qed.

(* generic induction over the drain loop: G relates the effects emitted so far to the loop state *)
Lemma drain_ind c aevs (G : list effect -> loop_state -> Prop) (R : state * list effect * outcome -> Prop) :
  (forall acc ls ls' e, G acc ls -> body shutdown_live c aevs ls = inl (ls', e) -> G (acc ++ e) ls') ->
  (forall acc ls s e o, G acc ls -> body shutdown_live c aevs ls = inr (s, e, o) -> R (s, acc ++ e, o)) ->
  forall fuel acc ls s e o,
    G acc ls -> drain fuel c aevs ls = (s, e, o) -> o <> OutOfFuel -> R (s, acc ++ e, o).
Proof.
  intros Hs Hf. induction fuel as [|f IH]; intros acc ls s e o HG HD HO; simpl in HD.
  - inversion HD; subst. congruence.
  - unfold drain in HD; simpl in HD.
    destruct (body shutdown_live c aevs ls) as [[ls' e1]|[[s1 e1] o1]] eqn:B.
    + fold (drain f c aevs ls') in HD. destruct (drain f c aevs ls') as [[s2 e2] o2] eqn:D.
      inversion HD; subst. rewrite app_assoc. eapply IH; eauto.
    + inversion HD; subst. eauto.
Qed.

(* ------------------------------------------------------------------ fuel is sufficient *)
Definition ls_cost (ls : loop_state) : nat :=
  let '(st, devs, _) := ls in qcost (length (workers st)) (queue st) + devcost (length (workers st)) devs.

Lemma qcost_app n a b : qcost n (a ++ b) = qcost n a + qcost n b.
Proof. induction a; simpl; auto. rewrite IHa; lia. Qed.
Lemma qcost_sigq n evs : qcost n (sigq evs) = evcost n evs.
Proof. induction evs as [|e evs IH]; simpl; auto. unfold sigq in *; simpl. rewrite qcost_app, IH. destruct e; simpl; lia. Qed.
Lemma qcost_ones n l : qcost n (map (fun i => ReloadOne i true) l) = length l.
Proof. induction l; simpl; auto. Qed.

Ltac rwq := match goal with H : queue _ = _ :: _ |- _ => rewrite H end.

Lemma pop_cost st devs :
  length (workers (deliver st (fst (pop devs)))) = length (workers st) /\
  qcost (length (workers st)) (queue (deliver st (fst (pop devs)))) + devcost (length (workers st)) (snd (pop devs)) =
  qcost (length (workers st)) (queue st) + devcost (length (workers st)) devs.
Proof.
  destruct (deliver_spec (fst (pop devs)) st) as (A & B & _ & _).
  split; [symmetry; apply evolves_length; auto|].
  rewrite B, qcost_app, qcost_sigq. destruct devs; simpl; lia.
Qed.

Lemma handle_reload_frame i st :
  length (workers (fst (handle_reload i st))) = length (workers st) /\ queue (fst (handle_reload i st)) = queue st /\
  restarts (fst (handle_reload i st)) = restarts st.
Proof.
  unfold handle_reload. destruct (nth_error (workers st) i); simpl; rewrite ?set_nth_length; auto.
Qed.

Lemma body_cost c aevs ls ls' e :
  body shutdown_live c aevs ls = inl (ls', e) -> ls_cost ls' < ls_cost ls.
Proof.
  destruct ls as [[st devs] rl]. intro B.
  pose proof (body_cases c aevs st devs rl) as BC. rewrite B in BC.
  destruct (pop_cost st devs) as [L PC]. unfold ls_cost. rewrite <- PC. clear PC.
  set (st1 := deliver st (fst (pop devs))) in *.
  inversion BC; subst; clear BC; cbn [workers queue enq set_queue st3_of].
  - rwq. rewrite L, qcost_app. unfold ones. rewrite qcost_ones, seq_length. simpl. lia.
  - rwq. rewrite L. simpl. lia.
  - destruct (handle_reload_frame i (st3_of st1 q (counted_of c ra))) as (HL & HQ & _).
    rewrite HL, HQ. cbn [workers queue st3_of]. rwq. rewrite L. simpl. lia.
Qed.

Lemma body_no_fuel_out c aevs ls s e o :
  body shutdown_live c aevs ls = inr (s, e, o) -> o <> OutOfFuel /\ (forall p, o <> Crashed p).
Proof.
  destruct ls as [[st devs] rl]. intro B.
  pose proof (body_cases c aevs st devs rl) as BC. rewrite B in BC.
  inversion BC; subst; clear BC; try (split; congruence).
  match goal with H : shutdown_live _ _ _ = _ |- _ => apply shutdown_live_basic in H; destruct H as (_ & _ & _ & _ & ->) end.
  split; congruence.
Qed.

Lemma drain_fuel c aevs : forall fuel ls s e o,
  ls_cost ls < fuel -> drain fuel c aevs ls = (s, e, o) -> o <> OutOfFuel /\ (forall p, o <> Crashed p).
Proof.
  induction fuel as [|f IH]; intros ls s e o HC HD; [lia|].
  unfold drain in HD; simpl in HD.
  destruct (body shutdown_live c aevs ls) as [[ls' e1]|[[s1 e1] o1]] eqn:B.
  - fold (drain f c aevs ls') in HD. destruct (drain f c aevs ls') as [[s2 e2] o2] eqn:D.
    inversion HD; subst. apply body_cost in B. eapply IH; eauto. lia.
  - inversion HD; subst. eapply body_no_fuel_out; eauto.
Qed.

(* ------------------------------------------------------------------ a tick *)
Lemma tick_unfold c st te :
  tick c st te =
  let st1 := deliver st (te_sleep te) in
  let '(st2, effs, o) := drain (fuel_of st1 (te_drain te)) c (te_alive te) (st1, te_drain te, []) in
  match o with
  | Cont => (scan (seq 0 (length (workers st2))) st2 (te_alive te), effs, Cont)
  | _ => (st2, effs, o)
  end.
Proof. reflexivity. Qed.

Lemma tick_drain_ok c st te s e o :
  drain (fuel_of (deliver st (te_sleep te)) (te_drain te)) c (te_alive te) (deliver st (te_sleep te), te_drain te, []) = (s, e, o) ->
  o <> OutOfFuel /\ (forall p, o <> Crashed p).
Proof. apply drain_fuel. unfold fuel_of, ls_cost. lia. Qed.

Lemma drain_Inv n c aevs fuel ls s e o :
  Inv n (ls_state ls) -> drain fuel c aevs ls = (s, e, o) -> o <> OutOfFuel -> Inv n s.
Proof.
  intros I D O.
  apply (drain_ind c aevs (fun _ ls => Inv n (ls_state ls)) (fun r => Inv n (fst (fst r)))) with (acc := []) in D; auto.
  - intros acc l l' e0 HI B. pose proof (body_Inv n c aevs l HI) as X. rewrite B in X. auto.
  - intros acc l s0 e0 o0 HI B. pose proof (body_Inv n c aevs l HI) as X. rewrite B in X. auto.
Qed.

Lemma tick_Inv n c st te st' effs o : Inv n st -> tick c st te = (st', effs, o) -> Inv n st'.
Proof.
  intros I. rewrite tick_unfold. cbv zeta.
  destruct (drain _ c (te_alive te) _) as [[s e] o1] eqn:D.
  pose proof (tick_drain_ok _ _ _ _ _ _ D) as [NF _].
  assert (I2 : Inv n s). { eapply drain_Inv; eauto. simpl. apply Inv_deliver; auto. }
  destruct o1; intro H; inversion H; subst; auto.
  rewrite (inv_len _ _ I2). apply Inv_scan; auto.
Qed.

Lemma tick_outcome c st te st' effs o :
  tick c st te = (st', effs, o) -> o <> OutOfFuel /\ (forall p, o <> Crashed p).
Proof.
  rewrite tick_unfold. cbv zeta.
  destruct (drain _ c (te_alive te) _) as [[s e] o1] eqn:D.
  pose proof (tick_drain_ok _ _ _ _ _ _ D) as [NF NC].
  destruct o1; intro H; inversion H; subst; split; congruence.
Qed.

(* ------------------------------------------------------------------ generic induction over a run *)
Lemma run_from_ind c (J : list (list effect) -> state -> Prop) :
  (forall acc st te st' effs, J acc st -> tick c st te = (st', effs, Cont) -> J (acc ++ [effs]) st') ->
  forall hist acc st l o s,
    J acc st -> run_from c st hist = (l, o, s) ->
    (o = Cont /\ J (acc ++ l) s) \/
    (exists l0 st0 te effs, l = l0 ++ [effs] /\ J (acc ++ l0) st0 /\ tick c st0 te = (s, effs, o) /\ o <> Cont).
Proof.
  intros Hs. induction hist as [|te h IH]; intros acc st l o s HJ HR.
  - inversion HR; subst. left. rewrite app_nil_r; auto.
  - unfold run_from in HR; simpl in HR. fold (tick c st te) in HR.
    destruct (tick c st te) as [[st' effs] o1] eqn:T.
    destruct o1.
    + fold (run_from c st' h) in HR. destruct (run_from c st' h) as [[l1 o2] s2] eqn:R.
      inversion HR; subst.
      eapply IH in R; [|eapply Hs; eauto].
      destruct R as [[-> HJ2]|(l0 & st0 & te0 & effs0 & -> & HJ2 & T2 & NC)].
      * left. split; auto. rewrite <- app_assoc in HJ2. auto.
      * right. exists (effs :: l0), st0, te0, effs0. rewrite <- app_assoc in HJ2. auto.
    + inversion HR; subst. right. exists [], st, te, effs. rewrite app_nil_r. repeat split; auto. congruence.
    + inversion HR; subst. right. exists [], st, te, effs. rewrite app_nil_r. repeat split; auto. congruence.
    + inversion HR; subst. right. exists [], st, te, effs. rewrite app_nil_r. repeat split; auto. congruence.
Qed.

Lemma run_unfold c p0 hist :
  run c p0 hist = let '(l, o, s) := run_from c (fst (init c p0)) hist in (snd (init c p0) :: l, o, s).
Proof. reflexivity. Qed.

(* every state a run reaches satisfies the invariant; a run never runs out of fuel and never crashes *)
Lemma run_Inv c p0 hist l o s :
  1 <= p0 -> run c p0 hist = (l, o, s) ->
  Inv (nworkers c) s /\ o <> OutOfFuel /\ (forall p, o <> Crashed p).
Proof.
  intros Hp. rewrite run_unfold.
  destruct (run_from c (fst (init c p0)) hist) as [[l1 o1] s1] eqn:R. intro H; inversion H; subst.
  assert (X := run_from_ind c (fun _ st => Inv (nworkers c) st)
                (fun acc st te st' effs HI HT => tick_Inv _ _ _ _ _ _ _ HI HT)
                hist [] _ _ _ _ (Inv_init c p0 Hp) R).
  destruct X as [[-> I]|(l0 & st0 & te & effs & -> & I & T & NC)].
  - split; [auto | split; [discriminate | intro; discriminate]].
  - split; [eapply tick_Inv; eauto | eapply tick_outcome; eauto].
Qed.
