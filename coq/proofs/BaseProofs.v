(* Lemmas about Interleave / project / prefix (theories/Base.v). *)
From Coq Require Import List Arith Bool Lia.
From TQ Require Import Base.
Import ListNotations.

Section InterleaveProofs.
  Context {A : Type}.
  Implicit Types (ts : list (list A)) (g p : list (nat * A)).

  Lemma nth_all_nil : forall ts i, Forall (fun t => t = []) ts -> nth i ts (@nil A) = [].
  Proof.
    induction ts as [|t ts IH]; intros [|i] H; simpl; auto; inversion H; subst; auto.
  Qed.

  Lemma nth_set_nth_eq : forall ts i y t, nth_error ts i = Some y -> nth i (set_nth ts i t) (@nil A) = t.
  Proof.
    induction ts as [|x ts IH]; intros [|i] y t H; simpl in *; try discriminate; auto.
    eapply IH; eauto.
  Qed.

  Lemma nth_set_nth_neq : forall ts i j t, i <> j -> nth j (set_nth ts i t) (@nil A) = nth j ts [].
  Proof.
    induction ts as [|x ts IH]; intros [|i] [|j] t H; simpl in *; auto; try congruence.
  Qed.

  Lemma nth_error_nth_nil : forall ts i y, nth_error ts i = Some y -> nth i ts (@nil A) = y.
  Proof.
    induction ts as [|x ts IH]; intros [|i] y H; simpl in *; try discriminate; auto. congruence.
  Qed.

  Lemma length_set_nth : forall ts i t, length (set_nth ts i t) = length ts.
  Proof. induction ts as [|x ts IH]; intros [|i] t; simpl; auto. Qed.

  Lemma project_cons : forall i j (x : A) g,
    project i ((j, x) :: g) = if Nat.eqb j i then x :: project i g else project i g.
  Proof. intros. unfold project. simpl. destruct (Nat.eqb j i); reflexivity. Qed.

  Lemma project_app : forall i g1 g2, project i (g1 ++ g2) = project i g1 ++ project i g2.
  Proof. intros. unfold project. rewrite filter_app, map_app. reflexivity. Qed.

  (* every activity's own sequence is recovered from the global run *)
  Theorem interleave_project : forall ts g, Interleave ts g -> forall i, project i g = nth i ts [].
  Proof.
    induction 1 as [ts H|ts i x t g Hn _ IH]; intros j.
    - rewrite nth_all_nil by assumption. reflexivity.
    - rewrite project_cons. destruct (Nat.eqb i j) eqn:E.
      + apply Nat.eqb_eq in E. subst j. rewrite IH.
        rewrite (nth_set_nth_eq _ _ _ _ Hn). symmetry. apply nth_error_nth_nil. assumption.
      + apply Nat.eqb_neq in E. rewrite IH. apply nth_set_nth_neq. assumption.
  Qed.

  Lemma prefix_project : forall i p g, prefix p g -> prefix (project i p) (project i g).
  Proof. intros i p g [s ->]. exists (project i s). apply project_app. Qed.

  (* a crash point of the global run is a crash point of every activity *)
  Theorem interleave_prefix : forall ts g p, Interleave ts g -> prefix p g ->
    forall i, prefix (project i p) (nth i ts []).
  Proof.
    intros ts g p H Hp i. rewrite <- (interleave_project _ _ H i). apply prefix_project. assumption.
  Qed.

  Lemma interleave_tags : forall ts g, Interleave ts g -> Forall (fun e => fst e < length ts) g.
  Proof.
    induction 1 as [ts H|ts i x t g Hn _ IH]; constructor.
    - simpl. apply nth_error_Some. congruence.
    - rewrite length_set_nth in IH. assumption.
  Qed.

  (* converse: what the correspondence run checks (tags in range + all projections) is Interleave *)
  Theorem project_interleave : forall g ts,
    Forall (fun e => fst e < length ts) g ->
    (forall i, i < length ts -> project i g = nth i ts []) ->
    Interleave ts g.
  Proof.
    induction g as [|[i x] g IH]; intros ts Hr Hp.
    - apply IL_nil. apply Forall_forall. intros t Ht.
      destruct (In_nth _ _ [] Ht) as [k [Hk Hn]]. rewrite <- Hn. symmetry. rewrite <- Hp by assumption. reflexivity.
    - inversion Hr as [|? ? Hi Hr']; subst. simpl in Hi.
      assert (Hx : nth i ts [] = x :: project i g).
      { rewrite <- Hp by assumption. rewrite project_cons, Nat.eqb_refl. reflexivity. }
      assert (Hn : nth_error ts i = Some (x :: project i g)).
      { rewrite <- Hx. apply nth_error_nth'. assumption. }
      eapply IL_cons; [exact Hn|]. apply IH.
      + rewrite length_set_nth. assumption.
      + intros j Hj. rewrite length_set_nth in Hj. destruct (Nat.eq_dec i j) as [->|Hne].
        * rewrite (nth_set_nth_eq _ _ _ _ Hn). reflexivity.
        * rewrite nth_set_nth_neq by assumption. rewrite <- Hp by assumption.
          rewrite project_cons. apply Nat.eqb_neq in Hne. rewrite Hne. reflexivity.
  Qed.

  (* non-vacuity: every family of sequences has an interleaving (run them one after the other) *)
  Fixpoint tag_seq (i : nat) (ts : list (list A)) : list (nat * A) :=
    match ts with
    | [] => []
    | t :: r => map (fun x => (i, x)) t ++ tag_seq (S i) r
    end.

  Lemma project_tag_lt : forall ts i k, i < k -> project i (tag_seq k ts) = [].
  Proof.
    induction ts as [|t ts IH]; intros i k H; simpl; auto.
    rewrite project_app, IH by lia. rewrite app_nil_r. unfold project.
    induction t as [|x t IHt]; simpl; auto.
    destruct (Nat.eqb k i) eqn:E; [apply Nat.eqb_eq in E; lia|]. assumption.
  Qed.

  Lemma project_tag_same : forall (t : list A) k, project k (map (fun x => (k, x)) t) = t.
  Proof.
    unfold project. induction t as [|x t IH]; intros k; simpl; auto. rewrite Nat.eqb_refl. simpl. f_equal. apply IH.
  Qed.

  Lemma project_tag_other : forall (t : list A) k i, i <> k -> project i (map (fun x => (k, x)) t) = [].
  Proof.
    unfold project. induction t as [|x t IH]; intros k i H; simpl; auto.
    destruct (Nat.eqb k i) eqn:E; [apply Nat.eqb_eq in E; congruence|]. apply IH. assumption.
  Qed.

  Lemma project_tag_seq : forall ts k j, project (k + j) (tag_seq k ts) = nth j ts [].
  Proof.
    induction ts as [|t ts IH]; intros k j; simpl.
    - destruct j; reflexivity.
    - rewrite project_app. destruct j as [|j].
      + rewrite Nat.add_0_r, project_tag_same, project_tag_lt by lia. apply app_nil_r.
      + rewrite project_tag_other by lia. simpl. replace (k + S j) with (S k + j) by lia. apply IH.
  Qed.

  Lemma tag_seq_range : forall ts k, Forall (fun e => k <= fst e < k + length ts) (tag_seq k ts).
  Proof.
    induction ts as [|t ts IH]; intros k; simpl; [constructor|].
    apply Forall_app. split.
    - apply Forall_forall. intros e He. apply in_map_iff in He. destruct He as [x [<- _]]. simpl. lia.
    - eapply Forall_impl; [|apply IH]. simpl. intros e He. lia.
  Qed.

  Theorem interleave_exists : forall ts, Interleave ts (tag_seq 0 ts).
  Proof.
    intros ts. apply project_interleave.
    - eapply Forall_impl; [|apply tag_seq_range]. simpl. intros e He. lia.
    - intros i _. apply (project_tag_seq ts 0 i).
  Qed.
End InterleaveProofs.

(* generic list facts used by the pipeline proofs *)
Lemma prefix_app_l : forall {B} (a b : list B), prefix a (a ++ b).
Proof. intros. exists b. reflexivity. Qed.

Lemma prefix_trans : forall {B} (a b c : list B), prefix a b -> prefix b c -> prefix a c.
Proof. intros B a b c [s ->] [s' ->]. exists (s ++ s'). rewrite app_assoc. reflexivity. Qed.

Lemma prefix_split : forall {B} (p l p1 p2 : list B) (x : B),
  prefix p l -> p = p1 ++ x :: p2 -> exists q2, l = p1 ++ x :: q2.
Proof. intros B p l p1 p2 x [s ->] ->. exists (p2 ++ s). rewrite <- app_assoc. reflexivity. Qed.

Lemma countb_app : forall {B} (f : B -> bool) a b, countb f (a ++ b) = countb f a + countb f b.
Proof. intros. unfold countb. rewrite filter_app, app_length. reflexivity. Qed.

Lemma countb_prefix_le : forall {B} (f : B -> bool) p l, prefix p l -> countb f p <= countb f l.
Proof. intros B f p l [s ->]. rewrite countb_app. lia. Qed.
