(* ExcSerProofs.v - proofs about the model of ExcSer.v (property C19). *)
From Coq Require Import List Bool Arith Lia.
Import ListNotations.
From TQ Require Import ExcSer.

(* ------------------------------------------------------------------ small facts *)
Lemma mem_In : forall x l, mem x l = true <-> In x l.
Proof.
  intros x l. unfold mem. rewrite existsb_exists. split.
  - intros [y [Hy He]]. apply Nat.eqb_eq in He. subst. exact Hy.
  - intros H. exists x. split; [exact H | apply Nat.eqb_refl].
Qed.

Lemma mem_false : forall x l, mem x l = false <-> ~ In x l.
Proof.
  intros x l. rewrite <- mem_In. destruct (mem x l); intuition congruence.
Qed.

Lemma bounded_nodup_length : forall (l : list nat) n,
  NoDup l -> (forall x, In x l -> x < n) -> length l <= n.
Proof.
  intros l n Hnd Hb.
  rewrite <- (seq_length n 0).
  apply NoDup_incl_length; [exact Hnd |].
  intros x Hx. apply in_seq. specialize (Hb x Hx). lia.
Qed.

Lemma nth_error_lt : forall (A : Type) (l : list A) i, i < length l -> exists x, nth_error l i = Some x.
Proof.
  intros A l i H. destruct (nth_error l i) eqn:E; [eauto |].
  apply nth_error_None in E. lia.
Qed.

(* ------------------------------------------------------------------ C19_total: fuel S (length g) suffices *)
(* the recursion path `seen` is duplicate-free and inside the graph, so it is no longer than the graph *)
Lemma prep_fuel : forall c g fuel seen id,
  wf g -> id < length g -> NoDup seen -> (forall x, In x seen -> x < length g) ->
  S (length g) <= fuel + length seen ->
  exists p, prep_exc c g fuel seen id = Some p.
Proof.
  intros c g fuel. induction fuel as [| f IH]; intros seen id Hwf Hid Hnd Hb Hfuel.
  - pose proof (bounded_nodup_length seen (length g) Hnd Hb). lia.
  - cbn [prep_exc]. destruct (mem id seen) eqn:Hm; [eauto |].
    apply mem_false in Hm.
    destruct (nth_error_lt _ g id Hid) as [n Hn]. rewrite Hn.
    assert (Hin : In n g) by (eapply nth_error_In; eauto).
    destruct (Hwf n Hin) as [Hc Hx].
    assert (Hgo : forall o, link_in g o ->
              exists p, match o with None => Some PNone | Some j => prep_exc c g f (id :: seen) j end = Some p).
    { intros [j |] Ho; [| eauto]. cbn in Ho. apply IH; auto.
      - constructor; auto.
      - intros x [Hx' | Hx']; [subst; auto | auto].
      - cbn [length]. lia. }
    assert (Hoctx : link_in g (if n_suppress n then None else n_context n)).
    { destruct (n_suppress n); [exact I | exact Hx]. }
    destruct (Hgo _ Hc) as [pc Hpc]. destruct (Hgo _ Hoctx) as [px Hpx].
    destruct (n_exc_rt c n); [eauto |].
    destruct (first_ok c (n_mro n) 0); [eauto |].
    rewrite Hpc, Hpx.
    destruct (n_wrap_rt c n); eauto.
Qed.

Lemma prepare_total : forall c g root, wf g -> root < length g -> exists p, prepare c g root = Some p.
Proof.
  intros c g root Hwf Hr. unfold prepare. apply prep_fuel; auto.
  - constructor.
  - intros x [].
  - cbn. lia.
Qed.

Lemma roundtrip_no_fuel : forall e g root, wf g -> root < length g -> roundtrip e g root <> OFuel.
Proof.
  intros e g root Hwf Hr. unfold roundtrip.
  destruct (prepare_total (coder_of e) g root Hwf Hr) as [p Hp]. rewrite Hp.
  destruct (enc_ok e p); [| discriminate].
  destruct e.
  - destruct (load_json EText g p) as [[] | |]; discriminate.
  - destruct (load_json EDict g p) as [[] | |]; discriminate.
  - unfold load_pickle. destruct p; try discriminate.
    + destruct (nth_error g id); discriminate.
    + destruct (nth_error g id); [| discriminate]. destruct (nth_error (n_mro n) i); discriminate.
Qed.

(* ------------------------------------------------------------------ shape of what the JSON coder prepares *)
Lemma first_ok_none : forall c l i, (forall m, In m l -> m_ok c m = false) -> first_ok c l i = None.
Proof.
  intros c l. induction l as [| m t IH]; intros i H; cbn; [reflexivity |].
  rewrite (H m (or_introl eq_refl)), andb_false_r. apply IH. intros m' Hm'. apply H. right. exact Hm'.
Qed.

Lemma prep_seen : forall c g fuel seen id p,
  prep_exc c g fuel seen id = Some p -> In id seen -> p = PNone.
Proof.
  intros c g fuel seen id p H Hin. destruct fuel; cbn [prep_exc] in H; [discriminate |].
  apply mem_In in Hin. rewrite Hin in H. congruence.
Qed.

(* the prepared tree is the unfolding of the graph along duplicate-free paths *)
Fixpoint pchain (g : graph) (path : list nat) (id : nat) (p : prep) {struct p} : Prop :=
  match p with
  | PRepr id' a c x s =>
    id' = id /\
    exists n, nth_error g id = Some n /\ s = n_suppress n /\ a = ensure CJson (n_args n) /\
      match n_cause n, c with
      | None, PNone => True
      | Some j, PNone => In j (id :: path)
      | Some j, pc => ~ In j (id :: path) /\ pchain g (id :: path) j pc
      | None, _ => False
      end /\
      match eff_context n, x with
      | None, PNone => True
      | Some j, PNone => In j (id :: path)
      | Some j, px => ~ In j (id :: path) /\ pchain g (id :: path) j px
      | None, _ => False
      end
  | _ => False
  end.

Definition plink (g : graph) (path : list nat) (o : option nat) (p : prep) : Prop :=
  match o, p with
  | None, PNone => True
  | Some j, PNone => In j path
  | Some j, pc => ~ In j path /\ pchain g path j pc
  | None, _ => False
  end.

Lemma pchain_unfold : forall g path id id' a c x s,
  pchain g path id (PRepr id' a c x s) <->
  id' = id /\ exists n, nth_error g id = Some n /\ s = n_suppress n /\ a = ensure CJson (n_args n) /\
     plink g (id :: path) (n_cause n) c /\ plink g (id :: path) (eff_context n) x.
Proof.
  intros. cbn [pchain]. unfold plink. split.
  - intros [E [n [Hn [Hs [Ha [Hc Hx]]]]]]. split; [exact E |]. exists n.
    split; [exact Hn |]. split; [exact Hs |]. split; [exact Ha |]. split.
    + destruct (n_cause n), c; auto.
    + destruct (eff_context n), x; auto.
  - intros [E [n [Hn [Hs [Ha [Hc Hx]]]]]]. split; [exact E |]. exists n.
    split; [exact Hn |]. split; [exact Hs |]. split; [exact Ha |]. split.
    + destruct (n_cause n), c; auto.
    + destruct (eff_context n), x; auto.
Qed.

Lemma prep_json_chain : forall g fuel seen id p,
  json_opaque g -> prep_exc CJson g fuel seen id = Some p -> ~ In id seen -> pchain g seen id p.
Proof.
  intros g fuel. induction fuel as [| f IH]; intros seen id p Hop H Hnin; cbn [prep_exc] in H; [discriminate |].
  apply mem_false in Hnin. rewrite Hnin in H.
  destruct (nth_error g id) as [n |] eqn:Hn; [| discriminate].
  assert (Hin : In n g) by (eapply nth_error_In; eauto).
  destruct (Hop n Hin) as [H1 [H2 H3]].
  unfold n_exc_rt, n_wrap_rt in H. rewrite H1, H2 in H.
  rewrite (first_ok_none CJson (n_mro n) 0 H3) in H.
  fold (eff_context n) in H.
  assert (Hgo : forall o q,
            match o with None => Some PNone | Some j => prep_exc CJson g f (id :: seen) j end = Some q ->
            plink g (id :: seen) o q).
  { intros [j |] q Hq; unfold plink.
    - destruct (in_dec Nat.eq_dec j (id :: seen)) as [Hj | Hj].
      + rewrite (prep_seen _ _ _ _ _ _ Hq Hj). exact Hj.
      + pose proof (IH _ _ _ Hop Hq Hj) as Hp. destruct q; cbn in Hp; try contradiction. split; [exact Hj | exact Hp].
    - inversion Hq. exact I. }
  destruct (match n_cause n with None => Some PNone | Some j => prep_exc CJson g f (id :: seen) j end) as [wc |] eqn:Ec;
    [| discriminate].
  destruct (match eff_context n with None => Some PNone | Some j => prep_exc CJson g f (id :: seen) j end) as [wx |] eqn:Ex;
    [| discriminate].
  inversion H; subst p. apply pchain_unfold. split; [reflexivity |].
  exists n. repeat split; auto.
Qed.

Lemma prepare_json_chain : forall g root p,
  json_opaque g -> prepare CJson g root = Some p -> pchain g [] root p.
Proof. intros g root p Hop H. eapply prep_json_chain; eauto. Qed.

(* ------------------------------------------------------------------ C19_chain *)
Definition llink (g : graph) (path : list nat) (o : option nat) (t : ltree) : Prop :=
  match o, t with
  | None, LNone => True
  | Some j, LNone => In j path
  | Some j, tc => ~ In j path /\ chain_ok g path j tc
  | None, _ => False
  end.

Lemma chain_ok_unfold : forall g path id id' k nm a c x s,
  chain_ok g path id (LNode id' k nm a c x s) <->
  id' = id /\ exists n, nth_error g id = Some n /\ s = n_suppress n /\
     llink g (id :: path) (n_cause n) c /\ llink g (id :: path) (eff_context n) x.
Proof.
  intros. cbn [chain_ok]. unfold llink. split.
  - intros [E [n [Hn [Hs [Hc Hx]]]]]. split; [exact E |]. exists n.
    split; [exact Hn |]. split; [exact Hs |]. split.
    + destruct (n_cause n), c; auto.
    + destruct (eff_context n), x; auto.
  - intros [E [n [Hn [Hs [Hc Hx]]]]]. split; [exact E |]. exists n.
    split; [exact Hn |]. split; [exact Hs |]. split.
    + destruct (n_cause n), c; auto.
    + destruct (eff_context n), x; auto.
Qed.

Lemma load_json_node : forall e g id a c x s t,
  load_json e g (PRepr id a c x s) = LR t ->
  exists n k k' nm la tc tx,
    nth_error g id = Some n /\ resolve_cls n = Some k /\ construct e n k (map (form e) a) = (k', nm, la) /\
    load_json e g c = LR tc /\ load_json e g x = LR tx /\ t = LNode id k' nm la tc tx s.
Proof.
  intros e g id a c x s t H. cbn [load_json] in H.
  destruct (nth_error g id) as [n |] eqn:En; [| discriminate].
  destruct (resolve_cls n) as [k |] eqn:Er; [| discriminate].
  destruct (construct e n k (map (form e) a)) as [[k' nm] la] eqn:Ec.
  destruct (load_json e g c) as [tc | |] eqn:Lc; try discriminate.
  destruct (load_json e g x) as [tx | |] eqn:Lx; try discriminate.
  inversion H; subst. exists n, k, k', nm, la, tc, tx. repeat split; auto.
Qed.

Lemma load_chain : forall e g p path id t,
  pchain g path id p -> load_json e g p = LR t -> chain_ok g path id t.
Proof.
  intros e g p. induction p as [| i0 | i0 j0 | i0 a0 c0 IHc0 x0 IHx0 s0 | id' a c IHc x IHx s]; intros path id t Hp Hl; try (cbn in Hp; contradiction).
  apply pchain_unfold in Hp. destruct Hp as [E [n [Hn [Hs [Ha [Hc Hx]]]]]]. subst id'.
  apply load_json_node in Hl.
  destruct Hl as [n' [k [k' [nm [la [tc [tx [Hn' [_ [_ [Lc [Lx Ht]]]]]]]]]]]].
  subst t. apply chain_ok_unfold. split; [reflexivity |]. exists n. repeat split; auto.
  - unfold plink in Hc. unfold llink. destruct (n_cause n) as [j |].
    + destruct c; try (destruct Hc as [_ Hc]; cbn in Hc; contradiction).
      * cbn in Lc. inversion Lc. exact Hc.
      * destruct Hc as [Hj Hc]. pose proof (IHc _ _ _ Hc Lc) as Hok.
        destruct tc; [cbn in Hok; contradiction |]. split; auto.
    + destruct c; try contradiction. cbn in Lc. inversion Lc. exact I.
  - unfold plink in Hx. unfold llink. destruct (eff_context n) as [j |].
    + destruct x; try (destruct Hx as [_ Hx]; cbn in Hx; contradiction).
      * cbn in Lx. inversion Lx. exact Hx.
      * destruct Hx as [Hj Hx]. pose proof (IHx _ _ _ Hx Lx) as Hok.
        destruct tx; [cbn in Hok; contradiction |]. split; auto.
    + destruct x; try contradiction. cbn in Lx. inversion Lx. exact I.
Qed.


Lemma roundtrip_json_inv : forall e g root t,
  is_json e -> roundtrip e g root = OLoaded t ->
  exists p, prepare CJson g root = Some p /\ enc_ok e p = true /\ load_json e g p = LR t.
Proof.
  intros e g root t He H. unfold roundtrip in H.
  assert (Hc : coder_of e = CJson) by (destruct He; subst; reflexivity). rewrite Hc in H.
  destruct (prepare CJson g root) as [p |]; [| discriminate].
  destruct (enc_ok e p) eqn:Ee; [| discriminate].
  exists p. repeat split; auto.
  destruct He; subst e; destruct (load_json _ g p) as [[] | |]; try discriminate; inversion H; reflexivity.
Qed.

Theorem chain_thm : forall e g root t,
  is_json e -> json_opaque g -> roundtrip e g root = OLoaded t -> chain_ok g [] root t.
Proof.
  intros e g root t He Hop H.
  destruct (roundtrip_json_inv _ _ _ _ He H) as [p [Hp [_ Hl]]].
  eapply load_chain; [| exact Hl]. apply prepare_json_chain; auto.
Qed.

(* Boolean form = Prop form *)
Lemma is_lnone_true : forall t, is_lnone t = true <-> t = LNone.
Proof. intros []; cbn; split; congruence. Qed.

Lemma chain_okb_iff : forall g t path id, chain_okb g path id t = true <-> chain_ok g path id t.
Proof.
  intros g t. induction t as [| id' k nm a c IHc x IHx s]; intros path id.
  - cbn. split; [discriminate | contradiction].
  - rewrite chain_ok_unfold. cbn [chain_okb].
    assert (Hl : forall o tt, (forall path id, chain_okb g path id tt = true <-> chain_ok g path id tt) ->
       (match o with
        | None => is_lnone tt
        | Some j => if is_lnone tt then mem j (id :: path)
                    else negb (mem j (id :: path)) && chain_okb g (id :: path) j tt
        end = true <-> llink g (id :: path) o tt)).
    { intros o tt IH. unfold llink. destruct o as [j |].
      - destruct tt.
        + cbn [is_lnone]. apply mem_In.
        + cbn [is_lnone]. rewrite andb_true_iff, negb_true_iff, mem_false, IH. reflexivity.
      - destruct tt; cbn; split; intros; try discriminate; try contradiction; auto. }
    split.
    + intros H. apply andb_true_iff in H. destruct H as [Hid H]. apply Nat.eqb_eq in Hid.
      destruct (nth_error g id) as [n |] eqn:Hn; [| discriminate].
      apply andb_true_iff in H. destruct H as [H Hx]. apply andb_true_iff in H. destruct H as [Hs Hc].
      apply eqb_prop in Hs. split; [exact Hid |]. exists n. repeat split; auto.
      * apply (Hl _ _ IHc). exact Hc.
      * apply (Hl _ _ IHx). exact Hx.
    + intros [Hid [n [Hn [Hs [Hc Hx]]]]]. subst id'. rewrite Nat.eqb_refl, Hn. cbn [andb].
      subst s. rewrite eqb_reflx. cbn [andb].
      apply andb_true_iff. split.
      * apply (Hl _ _ IHc). exact Hc.
      * apply (Hl _ _ IHx). exact Hx.
Qed.

(* ------------------------------------------------------------------ C19_class (JSON) *)
(* what the forms say: equal when the argument survives the encoding unchanged, text when it is un-encodable *)
Lemma arg_form_spec : forall e a,
  (a_rt (coder_of e) a = true -> a_eq e a = true -> arg_form e a = AEq) /\
  (a_rt (coder_of e) a = true -> a_eq e a = false -> arg_form e a = AChanged) /\
  (a_rt (coder_of e) a = false -> is_text (arg_form e a) = true /\
       (a_repr_ok a = true -> arg_form e a = ARepr) /\
       (a_repr_ok a = false -> a_str_ok a = true -> arg_form e a = AStr) /\
       (a_repr_ok a = false -> a_str_ok a = false -> arg_form e a = AUnrep)).
Proof.
  intros e a. unfold arg_form, text_form. repeat split; intros.
  - rewrite H, H0. reflexivity.
  - rewrite H, H0. reflexivity.
  - rewrite H. destruct (a_repr_ok a), (a_str_ok a); reflexivity.
  - rewrite H, H0. reflexivity.
  - rewrite H, H0, H1. reflexivity.
  - rewrite H, H0, H1. reflexivity.
Qed.

Lemma all_eq_forms : forall e n, all_eq e n = true -> map (arg_form e) (n_args n) = map (fun _ => AEq) (n_args n).
Proof.
  intros e n H. unfold all_eq in H. rewrite forallb_forall in H.
  apply map_ext_in. intros a Ha. specialize (H a Ha). apply andb_true_iff in H. destruct H as [H1 H2].
  unfold arg_form. rewrite H1, H2. reflexivity.
Qed.

Lemma form_ensure : forall e l, map (form e) (ensure (coder_of e) l) = map (arg_form e) l.
Proof.
  intros e l. unfold ensure. rewrite map_map. apply map_ext. intros a.
  unfold arg_form. destruct (a_rt (coder_of e) a); reflexivity.
Qed.

Lemma construct_spec : forall e n k k' nm la,
  resolve_cls n = Some k -> construct e n k (map (arg_form e) (n_args n)) = (k', nm, la) ->
  class_spec_json e n k' nm la.
Proof.
  intros e n k k' nm la Hr Hc. unfold resolve_cls in Hr. unfold class_spec_json, faithful. cbn zeta.
  unfold construct in Hc.
  destruct (n_has_module n); cbn [negb] in Hr;
    [destruct (n_resolve n); inversion Hr; subst k | inversion Hr; subst k];
    cbn [is_synth is_orig andb] in *;
    destruct (n_accepts e n); destruct (n_recon e n); cbn [andb] in *; inversion Hc; subst;
    (split; intros Hf; try discriminate; auto 10).
Qed.

Lemma load_class : forall e g p path id t,
  is_json e -> pchain g path id p -> load_json e g p = LR t -> class_json_ok e g t.
Proof.
  intros e g p. induction p as [| i0 | i0 j0 | i0 a0 c0 IHc0 x0 IHx0 s0 | id' a c IHc x IHx s]; intros path id t He Hp Hl; try (cbn in Hp; contradiction).
  assert (Hcd : coder_of e = CJson) by (destruct He; subst; reflexivity).
  apply pchain_unfold in Hp. destruct Hp as [E [n [Hn [Hs [Ha [Hc Hx]]]]]]. subst id'.
  apply load_json_node in Hl.
  destruct Hl as [n' [k [k' [nm [la [tc [tx [Hn' [Hr [Hk [Lc [Lx Ht]]]]]]]]]]]].
  rewrite Hn in Hn'. inversion Hn'; subst n'. subst t a.
  rewrite <- Hcd, form_ensure in Hk.
  cbn [class_json_ok]. split; [| split].
  - exists n. split; [exact Hn |]. eapply construct_spec; eauto.
  - unfold plink in Hc. destruct (n_cause n); destruct c;
      try (cbn in Lc; inversion Lc; exact I); try contradiction;
      try (destruct Hc as [_ Hc]; cbn in Hc; contradiction).
    destruct Hc as [_ Hc]. eapply IHc; eauto.
  - unfold plink in Hx. destruct (eff_context n); destruct x;
      try (cbn in Lx; inversion Lx; exact I); try contradiction;
      try (destruct Hx as [_ Hx]; cbn in Hx; contradiction).
    destruct Hx as [_ Hx]. eapply IHx; eauto.
Qed.

Theorem class_json_thm : forall e g root t,
  is_json e -> json_opaque g -> roundtrip e g root = OLoaded t -> class_json_ok e g t.
Proof.
  intros e g root t He Hop H.
  destruct (roundtrip_json_inv _ _ _ _ He H) as [p [Hp [_ Hl]]].
  apply (load_class e g p [] root t He); [| exact Hl]. apply prepare_json_chain; auto.
Qed.

(* Boolean form of the class clause is sound for (indeed equivalent to) the Prop form *)
Lemma aform_eqb_eq : forall x y, aform_eqb x y = true <-> x = y.
Proof. intros [] []; cbn; split; congruence. Qed.

Lemma aforms_eqb_eq : forall x y, aforms_eqb x y = true <-> x = y.
Proof.
  induction x as [| a x IH]; intros [| b y]; cbn; split; try congruence.
  - intros H. apply andb_true_iff in H. destruct H as [H1 H2]. apply aform_eqb_eq in H1. apply IH in H2. congruence.
  - intros H. inversion H; subst. apply andb_true_iff. split; [apply aform_eqb_eq | apply IH]; reflexivity.
Qed.

Lemma largs_eqb_forms_eq : forall a l, largs_eqb_forms a l = true <-> a = LArgs l.
Proof.
  intros [l' | | |] l; cbn; split; try congruence.
  - intros H. apply aforms_eqb_eq in H. congruence.
  - intros H. inversion H. apply aforms_eqb_eq. reflexivity.
Qed.

Lemma class_node_json_iff : forall e n k nm a, class_node_json e n k nm a = true <-> class_spec_json e n k nm a.
Proof.
  intros e n k nm a. unfold class_node_json, class_spec_json. cbn zeta.
  destruct (faithful e n).
  - rewrite andb_true_iff, largs_eqb_forms_eq. split.
    + intros [H1 H2]. split; [| discriminate]. intros _. destruct k; cbn in H1; try discriminate. auto.
    + intros [H _]. destruct (H eq_refl) as [H1 H2]. subst k. auto.
  - split.
    + intros H. split; [discriminate |]. intros _.
      destruct k; try discriminate; try (right; right; right; reflexivity).
      * apply andb_true_iff in H. destruct H as [H1 H2]. destruct a; try discriminate. right. right. left. auto.
      * apply andb_true_iff in H. destruct H as [H1 H2]. apply largs_eqb_forms_eq in H2. left. auto.
      * apply andb_true_iff in H. destruct H as [H1 H2]. apply largs_eqb_forms_eq in H2. left. auto.
      * apply andb_true_iff in H. destruct H as [H1 H2]. destruct a; try discriminate. right. left. auto.
    + intros [_ H]. destruct (H eq_refl) as [[[Hk | Hk] [Hn Ha]] | [[Hk [Hn Ha]] | [[Hk [Hn Ha]] | Hk]]]; subst; cbn;
        try reflexivity; apply aforms_eqb_eq; reflexivity.
Qed.

Lemma class_json_okb_iff : forall e g t, class_json_okb e g t = true <-> class_json_ok e g t.
Proof.
  intros e g t. induction t as [| id k nm a c IHc x IHx s]; cbn; [split; auto |].
  destruct (nth_error g id) as [n |].
  - rewrite !andb_true_iff, IHc, IHx, class_node_json_iff. split.
    + intros [[H1 H2] H3]. repeat split; auto. exists n. auto.
    + intros [[n' [Hn H1]] [H2 H3]]. inversion Hn; subst. auto.
  - split; [discriminate |]. intros [[n' [Hn _]] _]. discriminate.
Qed.

(* ------------------------------------------------------------------ C19_class (pickle) *)
Lemma first_ok_spec : forall c l k i,
  first_ok c l k = Some i ->
  exists j m, i = k + j /\ nth_error l j = Some m /\ m_is_exc m && m_ok c m = true /\
              (forall j' m', j' < j -> nth_error l j' = Some m' -> m_is_exc m' && m_ok c m' = false).
Proof.
  intros c l. induction l as [| m t IH]; intros k i H; cbn in H; [discriminate |].
  destruct (m_is_exc m && m_ok c m) eqn:Hm.
  - inversion H; subst. exists 0, m. split; [lia |]. split; [reflexivity |]. split; [exact Hm |]. intros; lia.
  - apply IH in H. destruct H as [j [m0 [Hi [Hn [Hok Hlt]]]]].
    exists (S j), m0. split; [lia |]. split; [exact Hn |]. split; [exact Hok |].
    intros [| j'] m' Hj Hn'; cbn in Hn'; [inversion Hn'; subst; exact Hm |].
    eapply Hlt; [| exact Hn']. lia.
Qed.

Lemma first_ok_none_inv : forall c l k, first_ok c l k = None -> forall m, In m l -> m_is_exc m && m_ok c m = false.
Proof.
  intros c l. induction l as [| m t IH]; intros k H m' Hin; [contradiction |].
  cbn in H. destruct (m_is_exc m && m_ok c m) eqn:Hm; [discriminate |].
  destruct Hin as [E | Hin]; [subst; exact Hm | eapply IH; eauto].
Qed.

Theorem class_pickle_thm : forall g root t,
  roundtrip EPickle g root = OLoaded t ->
  exists n k named a, nth_error g root = Some n /\ t = LNode root k named a LNone LNone false /\
                      class_spec_pickle n k named a.
Proof.
  intros g root t H. unfold roundtrip, prepare in H. cbn [coder_of prep_exc mem existsb] in H.
  destruct (nth_error g root) as [n |] eqn:Hn; [| discriminate].
  unfold n_exc_rt, n_wrap_rt in H.
  destruct (n_exc_rt_pickle n) eqn:E1.
  - cbn in H. rewrite Hn in H. inversion H. exists n, KOrig, true, (n_native n).
    repeat split; auto; intros; congruence.
  - destruct (first_ok CPickle (n_mro n) 0) as [i |] eqn:E2.
    + cbn in H. rewrite Hn in H. destruct (nth_error (n_mro n) i) as [m |] eqn:Hm; [| discriminate].
      inversion H. exists n, (if i =? 0 then KOrig else KBase i), (i =? 0), (m_loaded m).
      repeat split; auto; try (intros; congruence).
      intros _ i' Hi'. rewrite E2 in Hi'. inversion Hi'; subst i'.
      destruct (first_ok_spec _ _ _ _ E2) as [j [m0 [Hi [Hnj [Hok Hlt]]]]]. cbn in Hi. subst j.
      rewrite Hm in Hnj. inversion Hnj; subst m0. cbn [m_ok] in Hok, Hlt.
      apply andb_true_iff in Hok. destruct Hok as [Hex Hok].
      exists m. repeat split; auto; try (intros; subst i; reflexivity).
      intros E. apply Nat.eqb_neq in E. rewrite E. reflexivity.
    + destruct (match n_cause n with None => Some PNone | Some j => prep_exc CPickle g (length g) [root] j end) as [wc |];
        [| discriminate].
      destruct (match (if n_suppress n then None else n_context n) with
                | None => Some PNone | Some j => prep_exc CPickle g (length g) [root] j end) as [wx |]; [| discriminate].
      destruct (n_wrap_rt_pickle n) eqn:E3.
      * cbn in H. inversion H.
        exists n, KWrap, true, (LArgs (map (form EPickle) (ensure CPickle (n_args n)))).
        repeat split; auto; try (intros; congruence).
        -- intros. apply (first_ok_none_inv CPickle (n_mro n) 0 E2). assumption.
        -- change CPickle with (coder_of EPickle). rewrite form_ensure. reflexivity.
      * cbn in H. discriminate.
Qed.

Lemma largs_eqb_eq : forall x y, largs_eqb x y = true <-> x = y.
Proof.
  intros [a | | |] [b | | |]; cbn; split; try congruence.
  - intros H. apply aforms_eqb_eq in H. congruence.
  - intros H. inversion H. apply aforms_eqb_eq. reflexivity.
Qed.

Lemma class_node_pickle_iff : forall n k nm a,
  class_node_pickle n k nm a = true <-> class_spec_pickle n k nm a.
Proof.
  intros n k nm a. unfold class_node_pickle, class_spec_pickle.
  destruct (n_exc_rt_pickle n).
  - rewrite !andb_true_iff, largs_eqb_eq. split.
    + intros [[Hk Hn] Ha]. destruct k; try discriminate. repeat split; auto; intros; discriminate.
    + intros [H _]. destruct (H eq_refl) as [Hk [Hn Ha]]. subst. auto.
  - destruct (first_ok CPickle (n_mro n) 0) as [i |] eqn:E2.
    + destruct (first_ok_spec _ _ _ _ E2) as [j [m [Hi [Hnj [Hok Hlt]]]]]. cbn in Hi. subst j. rewrite Hnj.
      cbn [m_ok] in Hok, Hlt. apply andb_true_iff in Hok. destruct Hok as [Hex0 Hok].
      rewrite !andb_true_iff, largs_eqb_eq. split.
      * intros [[Hex Ha] Hk]. split; [intros; discriminate |]. split; [| intros; discriminate].
        intros _ i' Hi'. inversion Hi'; subst i'. exists m.
        split; [exact Hnj |]. split; [exact Hok |]. split; [exact Hex |]. split; [exact Hlt |]. split; [exact Ha |].
        destruct i as [| i]; cbn [Nat.eqb] in Hk.
        -- apply andb_true_iff in Hk. destruct Hk as [Hk Hn]. destruct k; try discriminate.
           split; [auto | intros E; congruence].
        -- destruct k; try discriminate. apply Nat.eqb_eq in Hk. subst.
           split; [intros; discriminate | auto].
      * intros [_ [H _]]. destruct (H eq_refl i eq_refl) as [m' [Hm' [_ [Hex [_ [Ha [Hz Hnz]]]]]]].
        rewrite Hnj in Hm'. inversion Hm'; subst m'. split; [split; [exact Hex | exact Ha] |].
        destruct i as [| i]; cbn [Nat.eqb].
        -- destruct (Hz eq_refl). subst. reflexivity.
        -- rewrite (Hnz ltac:(discriminate)). apply Nat.eqb_refl.
    + split.
      * intros H. apply andb_true_iff in H. destruct H as [Hw H].
        destruct k; try discriminate. apply andb_true_iff in H. destruct H as [Hn Ha].
        apply largs_eqb_forms_eq in Ha.
        split; [intros; discriminate |]. split; [intros; discriminate |].
        intros _ _. split; [apply (first_ok_none_inv CPickle (n_mro n) 0 E2) | auto].
      * intros [_ [_ H]]. destruct (H eq_refl eq_refl) as [_ [Hw [Hk [Hn Ha]]]]. subst. rewrite Hw. cbn.
        apply aforms_eqb_eq. reflexivity.
Qed.

Lemma class_node_pickle_sound : forall n k nm a,
  class_spec_pickle n k nm a -> class_node_pickle n k nm a = true.
Proof. intros. apply class_node_pickle_iff. assumption. Qed.

(* Boolean forms of the environment facts *)
Lemma linkb_iff : forall g o, linkb g o = true <-> link_in g o.
Proof. intros g [j |]; cbn; [apply Nat.ltb_lt | split; auto]. Qed.

Lemma wfb_iff : forall g, wfb g = true <-> wf g.
Proof.
  intros g. unfold wfb, wf. rewrite forallb_forall. split; intros H n Hn; specialize (H n Hn).
  - apply andb_true_iff in H. rewrite !linkb_iff in H. exact H.
  - apply andb_true_iff. rewrite !linkb_iff. exact H.
Qed.

Lemma json_opaqueb_iff : forall g, json_opaqueb g = true <-> json_opaque g.
Proof.
  intros g. unfold json_opaqueb, json_opaque. rewrite forallb_forall. split; intros H n Hn; specialize (H n Hn).
  - apply andb_true_iff in H. destruct H as [H H3]. apply andb_true_iff in H. destruct H as [H1 H2].
    apply negb_true_iff in H1, H2. rewrite forallb_forall in H3. repeat split; auto.
    intros m Hm. apply negb_true_iff. auto.
  - destruct H as [H1 [H2 H3]]. rewrite H1, H2. cbn. apply forallb_forall. intros m Hm. rewrite (H3 m Hm). reflexivity.
Qed.

(* ------------------------------------------------------------------ no failure, outside the two excluded regions *)
Lemma pchain_enc_ok : forall e g p path id,
  is_json e -> encodable e g -> pchain g path id p -> enc_ok e p = true.
Proof.
  intros e g p. induction p as [| i0 | i0 j0 | i0 a0 c0 IHc0 x0 IHx0 s0 | id' a c IHc x IHx s]; intros path id He Hen Hp; try (cbn in Hp; contradiction).
  apply pchain_unfold in Hp. destruct Hp as [E [n [Hn [Hs [Ha [Hc Hx]]]]]]. subst id'.
  assert (Hin : In n g) by (eapply nth_error_In; eauto).
  assert (Hargs : forallb (sarg_enc e) a = true).
  { subst a. unfold ensure. apply forallb_forall. intros sa Hsa. apply in_map_iff in Hsa.
    destruct Hsa as [a0 [Hs0 Ha0]]. cbn [a_rt] in Hs0. destruct (a_rt_json a0) eqn:Er; subst sa; cbn; auto.
    eapply Hen; eauto. }
  assert (Hcc : enc_ok e c = true).
  { unfold plink in Hc. destruct (n_cause n); destruct c; try reflexivity; try contradiction;
      try (destruct Hc as [_ Hc]; cbn in Hc; contradiction).
    destruct Hc as [_ Hc]. eapply IHc; eauto. }
  assert (Hxx : enc_ok e x = true).
  { unfold plink in Hx. destruct (eff_context n); destruct x; try reflexivity; try contradiction;
      try (destruct Hx as [_ Hx]; cbn in Hx; contradiction).
    destruct Hx as [_ Hx]. eapply IHx; eauto. }
  destruct He; subst e; cbn [enc_ok]; rewrite Hargs, Hcc, Hxx; reflexivity.
Qed.

Lemma pchain_load : forall e g p path id,
  no_shadow g -> pchain g path id p -> exists t, load_json e g p = LR t /\ t <> LNone.
Proof.
  intros e g p. induction p as [| i0 | i0 j0 | i0 a0 c0 IHc0 x0 IHx0 s0 | id' a c IHc x IHx s]; intros path id Hns Hp; try (cbn in Hp; contradiction).
  apply pchain_unfold in Hp. destruct Hp as [E [n [Hn [Hs [Ha [Hc Hx]]]]]]. subst id'.
  assert (Hin : In n g) by (eapply nth_error_In; eauto).
  assert (Hlc : exists tc, load_json e g c = LR tc).
  { unfold plink in Hc. destruct (n_cause n); destruct c; try (exists LNone; reflexivity); try contradiction;
      try (destruct Hc as [_ Hc]; cbn in Hc; contradiction).
    destruct Hc as [_ Hc]. destruct (IHc _ _ Hns Hc) as [tc [Htc _]]. eauto. }
  assert (Hlx : exists tx, load_json e g x = LR tx).
  { unfold plink in Hx. destruct (eff_context n); destruct x; try (exists LNone; reflexivity); try contradiction;
      try (destruct Hx as [_ Hx]; cbn in Hx; contradiction).
    destruct Hx as [_ Hx]. destruct (IHx _ _ Hns Hx) as [tx [Htx _]]. eauto. }
  destruct Hlc as [tc Htc]. destruct Hlx as [tx Htx].
  cbn [load_json]. rewrite Hn.
  assert (Hr : exists k, resolve_cls n = Some k).
  { unfold resolve_cls. destruct (n_has_module n) eqn:Hm; cbn [negb]; [| eauto].
    pose proof (Hns n Hin Hm). destruct (n_resolve n); eauto. congruence. }
  destruct Hr as [k Hr]. rewrite Hr.
  destruct (construct e n k (map (form e) a)) as [[k' nm] la]. rewrite Htc, Htx.
  eexists. split; [reflexivity | discriminate].
Qed.

Theorem no_failure_json : forall e g root,
  is_json e -> wf g -> root < length g -> json_opaque g -> encodable e g -> no_shadow g ->
  exists t, roundtrip e g root = OLoaded t.
Proof.
  intros e g root He Hwf Hr Hop Hen Hns.
  destruct (prepare_total CJson g root Hwf Hr) as [p Hp].
  pose proof (prepare_json_chain _ _ _ Hop Hp) as Hch.
  unfold roundtrip. assert (Hc : coder_of e = CJson) by (destruct He; subst; reflexivity).
  rewrite Hc, Hp, (pchain_enc_ok e g p [] root He Hen Hch).
  destruct (pchain_load e g p [] root Hns Hch) as [t [Ht Hnn]]. rewrite Ht.
  destruct He; subst e; destruct t; try congruence; eauto.
Qed.

Theorem no_failure_pickle : forall g root,
  wf g -> root < length g -> wrappable g -> exists t, roundtrip EPickle g root = OLoaded t.
Proof.
  intros g root Hwf Hr Hw.
  destruct (prepare_total CPickle g root Hwf Hr) as [p Hp].
  unfold roundtrip. cbn [coder_of]. rewrite Hp.
  unfold prepare in Hp. cbn [prep_exc mem existsb] in Hp.
  destruct (nth_error g root) as [n |] eqn:Hn; [| discriminate].
  assert (Hin : In n g) by (eapply nth_error_In; eauto).
  unfold n_exc_rt, n_wrap_rt in Hp. rewrite (Hw n Hin) in Hp.
  destruct (n_exc_rt_pickle n).
  - inversion Hp. cbn. rewrite Hn. eauto.
  - destruct (first_ok CPickle (n_mro n) 0) as [i |] eqn:E2.
    + inversion Hp. cbn. rewrite Hn.
      destruct (first_ok_spec _ _ _ _ E2) as [j [m [Hi [Hnj [Hok _]]]]]. cbn in Hi. subst j. rewrite Hnj. eauto.
    + destruct (match n_cause n with None => Some PNone | Some j => prep_exc CPickle g (length g) [root] j end) as [wc |];
        [| discriminate].
      destruct (match (if n_suppress n then None else n_context n) with
                | None => Some PNone | Some j => prep_exc CPickle g (length g) [root] j end) as [wx |]; [| discriminate].
      inversion Hp. cbn. eauto.
Qed.

(* ------------------------------------------------------------------ the model meets the Boolean statement *)
Theorem model_meets_check : forall e g root,
  wf g -> root < length g -> json_opaque g -> C19_check e g root (roundtrip e g root) = true.
Proof.
  intros e g root Hwf Hr Hop. unfold C19_check.
  destruct (roundtrip e g root) as [| | | | t] eqn:Hrt; auto.
  - exfalso. eapply roundtrip_no_fuel; eauto.
  - destruct e.
    + apply andb_true_iff. split.
      * apply chain_okb_iff. eapply chain_thm; eauto. left; reflexivity.
      * apply class_json_okb_iff. eapply class_json_thm; eauto. left; reflexivity.
    + apply andb_true_iff. split.
      * apply chain_okb_iff. eapply chain_thm; eauto. right; reflexivity.
      * apply class_json_okb_iff. eapply class_json_thm; eauto. right; reflexivity.
    + destruct (class_pickle_thm _ _ _ Hrt) as [n [k [nm [a [Hn [Ht Hs]]]]]]. subst t.
      cbn. rewrite Hn. apply class_node_pickle_sound. exact Hs.
Qed.

(* ------------------------------------------------------------------ the class clause at the root, in one statement *)
Theorem class_root_thm : forall e g root t,
  is_json e -> json_opaque g -> roundtrip e g root = OLoaded t ->
  exists n k nm a c x s, nth_error g root = Some n /\ t = LNode root k nm a c x s /\ class_spec_json e n k nm a /\
    (faithful e n = true -> all_eq e n = true -> k = KOrig /\ a = LArgs (map (fun _ => AEq) (n_args n))).
Proof.
  intros e g root t He Hop H.
  pose proof (chain_thm _ _ _ _ He Hop H) as Hch.
  pose proof (class_json_thm _ _ _ _ He Hop H) as Hcl.
  destruct t as [| i k nm a c x s]; [cbn in Hch; contradiction |].
  pose proof (proj1 (chain_ok_unfold _ _ _ _ _ _ _ _ _ _) Hch) as Hu. destruct Hu as [E [n [Hn _]]]. subst i.
  cbn [class_json_ok] in Hcl. destruct Hcl as [[n' [Hn' Hs]] _].
  rewrite Hn in Hn'. inversion Hn'; subst n'.
  exists n, k, nm, a, c, x, s. split; [exact Hn |]. split; [reflexivity |]. split; [exact Hs |].
  intros Hfa Hall. destruct Hs as [Hf _]. destruct (Hf Hfa) as [Hk Ha]. split; [exact Hk |].
  rewrite Ha, (all_eq_forms _ _ Hall). reflexivity.
Qed.
