(* Proofs about the load-gate model (C20).  stdlib only. *)
From Coq Require Import List NArith Bool.
From TQ Require Import LoadGate.
Import ListNotations.
Open Scope N_scope.

Ltac brk :=
  repeat match goal with
         | |- context [match ?x with _ => _ end] => destruct x eqn:?
         | |- context [if ?x then _ else _] => destruct x eqn:?
         end.

(* ------------------------------------------------------------------ the gate *)
Lemma gate_pass t : gate_rejects t = false -> is_exception_class t = true.
Proof.
  unfold gate_rejects, is_exception_class. destruct (is_type t); cbn; [|discriminate].
  destruct (is_exc_subclass t); cbn; congruence.
Qed.

Lemma gate_pass_iff t : gate_rejects t = false <-> is_exception_class t = true.
Proof.
  split; [apply gate_pass|]. unfold gate_rejects, is_exception_class.
  destruct (is_type t), (is_exc_subclass t); cbn; congruence.
Qed.

Lemma exc_class_kind o : is_exception_class (TEnv o) = true -> exists c, okind o = KExc c.
Proof. unfold is_exception_class, is_type, is_exc_subclass. destruct (okind o); cbn; try discriminate. eauto. Qed.

(* what cls( *args) can do once cls is an exception class *)
Lemma instantiate_exc t args :
  is_exception_class t = true ->
  forallb effect_ok (snd (instantiate t args)) = true /\
  ((exists c a, fst (instantiate t args) = CRInst c a) \/
   (exists o, t = TEnv o /\ okind o = KExc CtorRaisesBase /\ fst (instantiate t args) = CRRaiseBase (oid o)
              /\ snd (instantiate t args) = [Instantiate (TEnv o)])).
Proof.
  intros H. destruct t as [o| |].
  - destruct (exc_class_kind _ H) as [c Hc]. unfold instantiate, pycall. rewrite Hc.
    destruct c as [|n| | |tb]; cbn.
    + rewrite H. split; [reflexivity|left; eauto].
    + destruct (Nat.eqb (length args) n); cbn; rewrite H; cbn; (split; [reflexivity|left; eauto]).
    + rewrite H. cbn. split; [reflexivity|left; eauto].
    + rewrite H. split; [reflexivity|]. right. exists o. auto.
    + destruct (assoc_nat (length args) tb); cbn; rewrite H; cbn; (split; [reflexivity|left; eauto]).
  - cbn. split; [reflexivity|left; eauto].
  - cbn. split; [reflexivity|left; eauto].
Qed.

Lemma instantiate_synth nm md args :
  instantiate (TSynth nm md) args = (CRInst (CSynth nm md) args, [Instantiate (TSynth nm md)]).
Proof. reflexivity. Qed.

Lemma synthesize_some nm md t e0 :
  synthesize nm md = Some (t, e0) -> name_ok nm = true /\ t = TSynth nm md /\ e0 = [Synthesize nm md].
Proof. unfold synthesize. destruct (name_ok nm); [|discriminate]. intros H; inversion H; auto. Qed.

Lemma synthesize_none nm md : synthesize nm md = None -> name_ok nm = false.
Proof. unfold synthesize. destruct (name_ok nm); [discriminate|auto]. Qed.

(* objects the lookup can reach: sys.modules[m] followed by getattr steps *)
Definition reachable (e : env) (o : obj) : Prop :=
  exists m root pth, assoc m e = Some root /\ walk root pth = Some o.

Lemma resolve_some e md ty t e0 :
  resolve e md ty = Some (t, e0) ->
  forallb effect_ok e0 = true /\
  ((exists sm, t = TSynth ty sm /\ e0 = [Synthesize ty sm] /\ name_ok ty = true) \/
   (exists o, t = TEnv o /\ e0 = [] /\ reachable e o)).
Proof.
  unfold resolve. destruct md as [m|].
  - destruct (assoc m e) as [root|] eqn:Hm.
    + destruct (walk root (split_dot ty)) as [o'|] eqn:Hw.
      * intros H; inversion H; subst. split; [reflexivity|]. right. exists o'. repeat split; auto.
        exists m, root, (split_dot ty); auto.
      * intros H. apply synthesize_some in H as (Hn & -> & ->). split; [reflexivity|]. left; eauto.
    + intros H. apply synthesize_some in H as (Hn & -> & ->). split; [reflexivity|]. left; eauto.
  - intros H. apply synthesize_some in H as (Hn & -> & ->). split; [reflexivity|]. left; eauto.
Qed.

Lemma resolve_none e md ty : resolve e md ty = None -> name_ok ty = false.
Proof.
  unfold resolve. destruct md as [m|]; [destruct (assoc m e) as [root|]; [destruct (walk root (split_dot ty))|]|];
    try discriminate; apply synthesize_none.
Qed.

(* ------------------------------------------------------------------ inversion of one conv step *)
Lemma conv_repr_ok e ty md args sup cause ctx x eff :
  conv e (PRepr ty md args sup cause ctx) = (COk x, eff) ->
  exists t e0 c args' e1 xc ec xx ex,
    resolve e md ty = Some (t, e0) /\ gate_rejects t = false /\
    instantiate t args = (CRInst c args', e1) /\
    conv e cause = (COk xc, ec) /\ conv e ctx = (COk xx, ex) /\
    x = Some (XNew c args' xc xx sup) /\ eff = e0 ++ e1 ++ ec ++ ex.
Proof.
  cbn [conv]. destruct (resolve e md ty) as [[t e0]|]; [|discriminate].
  destruct (gate_rejects t) eqn:Hg; [discriminate|].
  destruct (instantiate t args) as [r e1] eqn:Hi.
  destruct r as [c args'| |i|]; try discriminate.
  destruct (conv e cause) as [rc ec] eqn:Hc. destruct rc as [xc| | | |]; try discriminate.
  destruct (conv e ctx) as [rx ex] eqn:Hx. destruct rx as [xx| | | |]; try discriminate.
  intros H; inversion H; subst. exists t, e0, c, args', e1, xc, ec, xx, ex. repeat split; auto.
Qed.

(* ------------------------------------------------------------------ C20_only_exceptions *)
Lemma restore_effects_ok i : forallb effect_ok (snd (restore i)) = true.
Proof.
  destruct i as [id|nm md args]; cbn; [reflexivity|].
  unfold synthesize. destruct (name_ok nm); reflexivity.
Qed.

Lemma conv_effects_ok e p : forallb effect_ok (snd (conv e p)) = true.
Proof.
  induction p as [|i|ty md args sup cause IHc ctx IHx].
  - reflexivity.
  - apply restore_effects_ok.
  - cbn [conv]. destruct (resolve e md ty) as [[t e0]|] eqn:Hr; [|reflexivity].
    destruct (resolve_some _ _ _ _ _ Hr) as [He0 _].
    destruct (gate_rejects t) eqn:Hg; [exact He0|].
    pose proof (instantiate_exc t args (gate_pass _ Hg)) as [He1 _].
    destruct (instantiate t args) as [r e1]. cbn [snd] in He1.
    destruct (conv e cause) as [rc ec]. destruct (conv e ctx) as [rx ex]. cbn [snd] in *.
    destruct r; cbn [snd]; rewrite ?forallb_app, ?He0, ?He1; try reflexivity.
    destruct rc; cbn [snd]; rewrite ?forallb_app, ?He0, ?He1, ?IHc; try reflexivity.
    destruct rx; cbn [snd]; rewrite ?forallb_app, ?He0, ?He1, ?IHc, ?IHx; reflexivity.
Qed.

Lemma load_effects_ok en e r : forallb effect_ok (snd (load en e r)) = true.
Proof.
  unfold load. destruct (validate r) as [p|]; [|reflexivity].
  pose proof (conv_effects_ok e p). destruct (conv e p). exact H.
Qed.

Theorem only_exceptions en e r f :
  In f (snd (load en e r)) ->
  match f with
  | Instantiate t => is_exception_class t = true
  | Synthesize _ _ => True
  | Call _ => False
  | Import _ => False
  end.
Proof.
  intros Hin. pose proof (load_effects_ok en e r) as H. rewrite forallb_forall in H.
  specialize (H _ Hin). destruct f; cbn in H; auto; discriminate.
Qed.

(* every environment object that is instantiated was reached by the lookup *)
Lemma conv_inst_reachable e p o : In (Instantiate (TEnv o)) (snd (conv e p)) -> reachable e o.
Proof.
  induction p as [|i|ty md args sup cause IHc ctx IHx].
  - cbn. tauto.
  - destruct i as [id|nm md args]; cbn; [tauto|]. unfold synthesize. destruct (name_ok nm); cbn; [|tauto].
    intros [H|[H|[]]]; discriminate.
  - cbn [conv]. destruct (resolve e md ty) as [[t e0]|] eqn:Hr; [|cbn; tauto].
    assert (Ht : In (Instantiate (TEnv o)) (e0 ++ snd (instantiate t args)) -> reachable e o).
    { destruct (resolve_some _ _ _ _ _ Hr) as [_ [(sm & -> & -> & _)|(o' & -> & -> & Hre)]].
      - cbn. intros [H|[H|[]]]; discriminate.
      - cbn [app]. unfold instantiate, pycall.
        destruct (okind o') as [[|n| | |tb]| | | |[]|]; cbn; try destruct (Nat.eqb (length args) n);
          try destruct (assoc_nat (length args) tb); cbn;
          intuition (try discriminate); match goal with H : Instantiate _ = Instantiate _ |- _ => inversion H; subst; auto end. }
    assert (H0 : In (Instantiate (TEnv o)) e0 -> reachable e o) by (intros; apply Ht, in_or_app; auto).
    destruct (gate_rejects t); [exact H0|].
    destruct (instantiate t args) as [r e1]. cbn [snd] in Ht.
    destruct (conv e cause) as [rc ec]. destruct (conv e ctx) as [rx ex]. cbn [snd] in *.
    assert (H1 : In (Instantiate (TEnv o)) (e0 ++ e1) -> reachable e o) by exact Ht.
    destruct r; cbn [snd]; auto.
    destruct rc; cbn [snd]; try destruct rx; cbn [snd]; rewrite ?app_assoc; intros H;
      repeat (apply in_app_or in H; destruct H as [H|H]); auto; apply H1, in_or_app; auto.
Qed.

(* ------------------------------------------------------------------ C20_outcome *)
Fixpoint pnames_ok (p : payload) : bool :=
  match p with
  | PNone => true
  | PInst (IPlain _) => true
  | PInst (IWrapper nm _ _) => name_ok nm
  | PRepr ty _ _ _ cause ctx => name_ok ty && pnames_ok cause && pnames_ok ctx
  end.

Lemma validate_names r p : validate r = Some p -> all_names_ok r = pnames_ok p.
Proof.
  revert p. induction r as [| |i|ty md args sup cause IHc ctx IHx]; intros p; cbn.
  - intros H; inversion H; reflexivity.
  - discriminate.
  - intros H; inversion H; subst. destruct i; reflexivity.
  - destruct ty as [ty|], md as [md|], args as [args|], sup as [sup|]; try discriminate.
    destruct (validate cause) as [c|]; [|discriminate]. destruct (validate ctx) as [x|]; [|discriminate].
    intros H; inversion H; subst. cbn. rewrite (IHc c eq_refl), (IHx x eq_refl). reflexivity.
Qed.

Definition conv_outcome_spec (e : env) (p : payload) : Prop :=
  match fst (conv e p) with
  | COk None => p = PNone
  | COk (Some _) => p <> PNone
  | CSec => True
  | CBadName => pnames_ok p = false
  | CProp i => exists o, In (Instantiate (TEnv o)) (snd (conv e p)) /\ okind o = KExc CtorRaisesBase /\ oid o = i
  | CWeird => False
  end.

Lemma conv_outcome e p : conv_outcome_spec e p.
Proof.
  unfold conv_outcome_spec.
  induction p as [|i|ty md args sup cause IHc ctx IHx].
  - reflexivity.
  - destruct i as [id|nm md args]; cbn; [discriminate|].
    unfold synthesize. destruct (name_ok nm) eqn:Hn; cbn; [discriminate|reflexivity].
  - cbn [conv]. destruct (resolve e md ty) as [[t e0]|] eqn:Hr.
    2:{ cbn. apply resolve_none in Hr. rewrite Hr. reflexivity. }
    destruct (gate_rejects t) eqn:Hg; [exact I|].
    pose proof (instantiate_exc t args (gate_pass _ Hg)) as [_ Hi].
    destruct (instantiate t args) as [r e1]. cbn [fst snd] in Hi.
    destruct Hi as [(c & a & ->)|(o & -> & Hk & -> & ->)].
    + destruct (conv e cause) as [rc ec]. cbn [fst snd] in IHc.
      destruct rc as [xc| | |i|].
      * destruct (conv e ctx) as [rx ex]. cbn [fst snd] in IHx.
        destruct rx as [xx| | |i|]; cbn [fst snd].
        -- discriminate.
        -- exact I.
        -- cbn. rewrite IHx. rewrite !andb_false_r. reflexivity.
        -- destruct IHx as (o & Hin & Hk & Hi). exists o. repeat split; auto.
           rewrite !app_assoc. apply in_or_app. auto.
        -- exact IHx.
      * exact I.
      * cbn. rewrite IHc. rewrite andb_false_r. reflexivity.
      * cbn [fst snd]. destruct IHc as (o & Hin & Hk & Hi). exists o. repeat split; auto.
        rewrite !app_assoc. apply in_or_app. auto.
      * exact IHc.
    + cbn [fst snd]. exists o. repeat split; auto. apply in_or_app. right. left. reflexivity.
Qed.

Theorem outcome en e r :
  match fst (load en e r) with
  | ROk None => r = RNone
  | ROk (Some _) => r <> RNone
  | RSecurity => True
  | RValidation => validate r = None \/ (en <> EDirect /\ all_names_ok r = false)
  | RValueError => en = EDirect /\ all_names_ok r = false
  | RPropagated i => exists o, In (Instantiate (TEnv o)) (snd (load en e r)) /\ reachable e o /\
                               okind o = KExc CtorRaisesBase /\ oid o = i
  | RWeird => False
  end.
Proof.
  unfold load. destruct (validate r) as [p|] eqn:Hv; [|cbn; auto].
  pose proof (conv_outcome e p) as H. unfold conv_outcome_spec in H.
  pose proof (validate_names _ _ Hv) as Hn.
  pose proof (conv_inst_reachable e p) as Hre.
  destruct (conv e p) as [c eff]. cbn [fst snd] in *.
  destruct c as [[x|]| | |i|]; cbn [fst snd].
  - intros ->. cbn in Hv. inversion Hv; subst. congruence.
  - subst p. destruct r as [| |i|ty md args sup cause ctx]; cbn in Hv; try congruence.
    destruct ty, md, args, sup; try discriminate.
    destruct (validate cause); [|discriminate]. destruct (validate ctx); discriminate.
  - exact I.
  - destruct en; [split; congruence|right; split; congruence|right; split; congruence].
  - destruct H as (o & Hin & Hk & Hi). exists o. repeat split; auto.
  - exact H.
Qed.

(* the statement's plain reading, under the two exclusions made explicit *)
Corollary outcome_plain en e r :
  all_names_ok r = true ->
  (forall o, reachable e o -> okind o <> KExc CtorRaisesBase) ->
  match fst (load en e r) with
  | ROk None => r = RNone
  | ROk (Some _) | RSecurity | RValidation => True
  | _ => False
  end.
Proof.
  intros Hn Hb. pose proof (outcome en e r) as H.
  destruct (fst (load en e r)) as [[x|]| | | |i|]; auto.
  - destruct H; congruence.
  - destruct H as (o & _ & Hre & Hk & _). exact (Hb o Hre Hk).
Qed.

(* ill-typed anywhere in the tree: ValidationError, and nothing at all was done *)
Definition bad_node (r : raw) : bool :=
  match r with
  | RJunk => true
  | RDict (FOk _) (FOk _) (FOk _) (FOk _) _ _ => false
  | RDict _ _ _ _ _ _ => true
  | _ => false
  end.

Lemma validate_none_iff r :
  validate r = None <-> exists pa q, raw_sub_at r pa = Some q /\ bad_node q = true.
Proof.
  induction r as [| |i|ty md args sup cause IHc ctx IHx].
  - cbn. split; [discriminate|]. intros (pa & q & H & Hb). destruct pa; cbn in H; [|discriminate].
    inversion H; subst; discriminate.
  - split; [|reflexivity]. intros _. exists [], RJunk. auto.
  - cbn. split; [discriminate|]. intros (pa & q & H & Hb). destruct pa; cbn in H; [|discriminate].
    inversion H; subst; discriminate.
  - split.
    + intros H.
      destruct (bad_node (RDict ty md args sup cause ctx)) eqn:Hb.
      { exists [], (RDict ty md args sup cause ctx). auto. }
      destruct ty, md, args, sup; try discriminate. cbn in H.
      destruct (validate cause) eqn:Hc.
      * destruct (validate ctx) eqn:Hx; [discriminate|].
        destruct (proj1 IHx eq_refl) as (pa & q & Hs & Hq). exists (true :: pa), q. auto.
      * destruct (proj1 IHc eq_refl) as (pa & q & Hs & Hq). exists (false :: pa), q. auto.
    + intros (pa & q & Hs & Hq). destruct pa as [|d pa].
      * cbn in Hs. inversion Hs; subst. cbn in Hq. cbn.
        destruct ty, md, args, sup; try reflexivity; discriminate.
      * cbn in Hs. cbn. destruct ty, md, args, sup; try reflexivity.
        destruct d.
        -- assert (Hx : validate ctx = None) by (apply IHx; eauto). rewrite Hx.
           destruct (validate cause); reflexivity.
        -- assert (Hc : validate cause = None) by (apply IHc; eauto). rewrite Hc. reflexivity.
Qed.

Theorem illtyped en e r pa q :
  raw_sub_at r pa = Some q -> bad_node q = true -> load en e r = (RValidation, []).
Proof.
  intros Hs Hq. unfold load. replace (validate r) with (@None payload); [reflexivity|].
  symmetry. apply validate_none_iff. eauto.
Qed.

(* ------------------------------------------------------------------ C20_unresolved *)
Definition unresolved (e : env) (md : option name) (ty : name) : Prop :=
  match md with
  | None => True                                   (* no module stored at all *)
  | Some m => match assoc m e with
              | None => True                       (* module not loaded *)
              | Some o => walk o (split_dot ty) = None   (* some attribute of the path is missing *)
              end
  end.
Definition synth_module (md : option name) : smod := match md with None => SMSer | Some _ => SMExc end.

Lemma unresolved_resolve e md ty :
  unresolved e md ty -> resolve e md ty = synthesize ty (synth_module md).
Proof.
  unfold unresolved, resolve, synth_module. destruct md as [m|]; [|reflexivity].
  destruct (assoc m e) as [o|]; [|reflexivity]. intros ->. reflexivity.
Qed.

Theorem unresolved_synth e ty md args sup cause ctx :
  unresolved e md ty ->
  let sm := synth_module md in
  let p := PRepr ty md args sup cause ctx in
  if name_ok ty then
    exists rest, snd (conv e p) = Synthesize ty sm :: Instantiate (TSynth ty sm) :: rest /\
    match fst (conv e p) with
    | COk (Some (XNew c a xc xx s)) =>
        c = CSynth ty sm /\ a = args /\ s = sup /\ fst (conv e cause) = COk xc /\ fst (conv e ctx) = COk xx
    | COk _ => False
    | f => fst (conv e cause) = f \/ (exists xc, fst (conv e cause) = COk xc) /\ fst (conv e ctx) = f
    end
  else conv e p = (CBadName, []).
Proof.
  intros Hu sm p. subst p. cbn [conv]. rewrite (unresolved_resolve _ _ _ Hu). fold sm.
  unfold synthesize. destruct (name_ok ty); [|reflexivity].
  cbn [gate_rejects is_type is_exc_subclass negb]. rewrite instantiate_synth.
  destruct (conv e cause) as [rc ec]. destruct (conv e ctx) as [rx ex]. cbn [fst snd].
  destruct rc as [xc| | |i|]; cbn [fst snd]; try (eexists; split; [reflexivity|]; auto; fail).
  destruct rx as [xx| | |i|]; cbn [fst snd]; eexists; (split; [reflexivity|]); eauto 6.
Qed.

(* ------------------------------------------------------------------ C20_nested *)
Definition infix {A : Type} (a b : list A) : Prop := exists pre post, b = pre ++ a ++ post.

Lemma infix_refl {A} (a : list A) : infix a a.
Proof. exists [], []. cbn. rewrite app_nil_r. reflexivity. Qed.

Lemma infix_app_l {A} (a b pre : list A) : infix a b -> infix a (pre ++ b).
Proof. intros (p & q & ->). exists (pre ++ p), q. rewrite app_assoc. reflexivity. Qed.

Lemma infix_app_r {A} (a b post : list A) : infix a b -> infix a (b ++ post).
Proof. intros (p & q & ->). exists p, (q ++ post). rewrite <- !app_assoc. reflexivity. Qed.

Lemma conv_nested e pa : forall p q x eff,
  sub_at p pa = Some q -> conv e p = (COk x, eff) ->
  exists xq effq, conv e q = (COk xq, effq) /\ exn_at x pa = Some xq /\ infix effq eff.
Proof.
  induction pa as [|d pa IH]; intros p q x eff Hs Hc.
  - cbn in Hs. inversion Hs; subst. exists x, eff. repeat split; auto. apply infix_refl.
  - destruct p as [|i|ty md args sup cause ctx]; cbn in Hs; try discriminate.
    apply conv_repr_ok in Hc as (t & e0 & c & args' & e1 & xc & ec & xx & ex & _ & _ & _ & Hcc & Hcx & -> & ->).
    destruct d.
    + destruct (IH _ _ _ _ Hs Hcx) as (xq & effq & H1 & H2 & H3). exists xq, effq. repeat split; auto.
      do 3 apply infix_app_l. exact H3.
    + destruct (IH _ _ _ _ Hs Hcc) as (xq & effq & H1 & H2 & H3). exists xq, effq. repeat split; auto.
      do 2 apply infix_app_l. apply infix_app_r. exact H3.
Qed.

Lemma validate_sub pa : forall r p rq,
  validate r = Some p -> raw_sub_at r pa = Some rq ->
  exists q, validate rq = Some q /\ sub_at p pa = Some q.
Proof.
  induction pa as [|d pa IH]; intros r p rq Hv Hs.
  - cbn in Hs. inversion Hs; subst. exists p. auto.
  - destruct r as [| |i|ty md args sup cause ctx]; cbn in Hs; try discriminate.
    cbn in Hv. destruct ty, md, args, sup; try discriminate.
    destruct (validate cause) as [c|] eqn:Hc; [|discriminate].
    destruct (validate ctx) as [x|] eqn:Hx; [|discriminate].
    inversion Hv; subst. cbn. destruct d; eauto.
Qed.

(* a payload nested at any position is treated exactly as the same payload handed in at top level *)
Theorem nested en e r pa rq x :
  raw_sub_at r pa = Some rq -> fst (load en e r) = ROk x ->
  exists xq, exn_at x pa = Some xq /\ fst (load en e rq) = ROk xq /\
             infix (snd (load en e rq)) (snd (load en e r)).
Proof.
  unfold load. intros Hs. destruct (validate r) as [p|] eqn:Hv; [|discriminate].
  destruct (validate_sub _ _ _ _ Hv Hs) as (q & Hvq & Hsq). rewrite Hvq.
  destruct (conv e p) as [c eff] eqn:Hc. cbn [fst snd].
  destruct c as [x'| | | |]; try discriminate; [|destruct en; discriminate].
  intros H; inversion H; subst x'.
  destruct (conv_nested _ _ _ _ _ _ Hsq Hc) as (xq & effq & H1 & H2 & H3).
  rewrite H1. exists xq. auto.
Qed.

(* hence nothing the gate (or anything else) refuses at top level can be smuggled in at depth *)
Corollary nested_refused en e r pa rq :
  raw_sub_at r pa = Some rq ->
  (forall x, fst (load en e rq) <> ROk x) -> forall x, fst (load en e r) <> ROk x.
Proof.
  intros Hs Hq x Hx. destruct (nested _ _ _ _ _ _ Hs Hx) as (xq & _ & H & _). exact (Hq _ H).
Qed.

(* the verdict of the gate for one stored node depends on the node and the environment only *)
Definition node_verdict (e : env) (md : option name) (ty : name) : option bool :=
  match resolve e md ty with
  | None => None
  | Some (t, _) => Some (gate_rejects t)
  end.

Theorem nested_gate e pa : forall p ty md args sup cause ctx,
  sub_at p pa = Some (PRepr ty md args sup cause ctx) ->
  node_verdict e md ty = Some true ->
  fst (conv e (PRepr ty md args sup cause ctx)) = CSec /\ forall x, fst (conv e p) <> COk x.
Proof.
  intros p ty md args sup cause ctx Hs Hv.
  assert (Hq : fst (conv e (PRepr ty md args sup cause ctx)) = CSec).
  { unfold node_verdict in Hv. cbn [conv]. destruct (resolve e md ty) as [[t e0]|]; [|discriminate].
    inversion Hv as [Hg]. rewrite Hg. reflexivity. }
  split; [exact Hq|]. intros x Hx.
  destruct (conv e p) as [c eff] eqn:Hc. cbn in Hx. subst c.
  destruct (conv_nested _ _ _ _ _ _ Hs Hc) as (xq & effq & H1 & _). rewrite H1 in Hq. discriminate.
Qed.

(* ------------------------------------------------------------------ the Boolean check *)
Lemma model_meets_effects en e r f :
  In f (observe (snd (load en e r))) -> match f with OCall _ | OImport _ => False | _ => True end.
Proof.
  unfold observe. rewrite in_flat_map. intros (g & Hg & Hf).
  pose proof (only_exceptions _ _ _ _ Hg) as H.
  destruct g as [t|t|m|nm md]; try contradiction.
  - destruct t as [o| |]; cbn in Hf; try contradiction. destruct (oid o <? hooked_below); cbn in Hf; intuition subst; exact I.
  - cbn in Hf. destruct Hf as [<-|[]]. exact I.
Qed.

Lemma assoc_in_all_objs s o c x : assoc s (oattrs o) = Some c -> In x (all_objs c) -> In x (all_objs o).
Proof.
  destruct o as [i k attrs]. cbn [oattrs all_objs]. intros Ha Hx. right.
  induction attrs as [|[k' v] t IH]; cbn in Ha; [discriminate|].
  apply in_or_app. destruct (name_eqb s k').
  - inversion Ha; subst. left. exact Hx.
  - right. exact (IH Ha).
Qed.

Lemma all_objs_self o : In o (all_objs o).
Proof. destruct o. cbn. left. reflexivity. Qed.

Lemma walk_in_all_objs pth : forall o o' x, walk o pth = Some o' -> In x (all_objs o') -> In x (all_objs o).
Proof.
  induction pth as [|s t IH]; intros o o' x Hw Hx; cbn in Hw.
  - inversion Hw; subst. exact Hx.
  - destruct (assoc s (oattrs o)) as [o1|] eqn:Ha; [|discriminate].
    eapply assoc_in_all_objs; eauto.
Qed.

Lemma assoc_in {A} n (l : list (name * A)) v : assoc n l = Some v -> exists k, In (k, v) l.
Proof.
  induction l as [|[k w] t IH]; cbn; [discriminate|]. destruct (name_eqb n k).
  - intros H; inversion H; subst. eauto.
  - intros H. destruct (IH H) as [k' Hk]. eauto.
Qed.

Lemma reachable_in_env e o : reachable e o -> In o (env_objs e).
Proof.
  intros (m & root & pth & Hm & Hw). unfold env_objs. rewrite in_flat_map.
  destruct (assoc_in _ _ _ Hm) as [k Hk]. exists (k, root). split; [exact Hk|]. cbn.
  eapply walk_in_all_objs; eauto. apply all_objs_self.
Qed.

(* the model satisfies the Boolean form of the statement that is evaluated on implementation observations *)
Theorem model_meets_check en e r :
  C20_check en e r (fst (load en e r)) (observe (snd (load en e r))) = true.
Proof.
  unfold C20_check. apply andb_true_intro. split.
  - rewrite forallb_forall. intros f Hf. pose proof (model_meets_effects _ _ _ _ Hf) as Hm.
    destruct f as [i|i|nm md|m]; try contradiction; [|reflexivity].
    unfold observe in Hf. rewrite in_flat_map in Hf. destruct Hf as (g & Hg & Hf).
    destruct g as [t|t|m|nm md]; cbn in Hf.
    + destruct t as [o| |]; try contradiction. destruct (oid o <? hooked_below); cbn in Hf; [|contradiction].
      destruct Hf as [Hf|[]]. inversion Hf; subst i.
      pose proof (only_exceptions _ _ _ _ Hg) as Hex. cbn in Hex.
      assert (Hre : reachable e o).
      { unfold load in Hg. destruct (validate r) as [p|]; [|contradiction].
        pose proof (conv_inst_reachable e p o) as Hc. destruct (conv e p). exact (Hc Hg). }
      unfold id_is_exc_class. rewrite existsb_exists. exists o. split; [apply reachable_in_env; exact Hre|].
      rewrite N.eqb_refl, Hex. reflexivity.
    + destruct t; cbn in Hf; try contradiction. destruct Hf as [Hf|[]]. discriminate.
    + destruct Hf as [Hf|[]]. discriminate.
    + destruct Hf as [Hf|[]]. discriminate.
  - pose proof (outcome en e r) as H. destruct (fst (load en e r)) as [[x|]| | | |i|]; auto.
    + subst r. reflexivity.
    + destruct H as [-> H]. rewrite H. reflexivity.
    + destruct H as (o & _ & Hre & Hk & Hi). unfold id_is_base_raiser. rewrite existsb_exists.
      exists o. split; [apply reachable_in_env; exact Hre|]. rewrite Hi, N.eqb_refl, Hk. reflexivity.
Qed.

(* what a passing check says about an implementation observation, in the statement's words *)
Theorem check_sound en e r res obs :
  C20_check en e r res obs = true ->
  (forall f, In f obs ->
     match f with
     | OInst i => exists o, In o (env_objs e) /\ oid o = i /\ is_exception_class (TEnv o) = true
     | OSynth _ _ => True
     | OCall _ | OImport _ => False
     end) /\
  match res with
  | ROk None => r = RNone
  | ROk (Some _) | RSecurity | RValidation => True
  | RValueError => en = EDirect /\ all_names_ok r = false
  | RPropagated i => exists o, In o (env_objs e) /\ oid o = i /\ okind o = KExc CtorRaisesBase
  | RWeird => False
  end.
Proof.
  unfold C20_check. intros H. apply andb_prop in H as [H1 H2]. split.
  - rewrite forallb_forall in H1. intros f Hf. specialize (H1 _ Hf).
    destruct f as [i|i|nm md|m]; try discriminate; [|exact I].
    unfold id_is_exc_class in H1. rewrite existsb_exists in H1. destruct H1 as (o & Ho & Hb).
    apply andb_prop in Hb as [Hi Hc]. apply N.eqb_eq in Hi. eauto.
  - destruct res as [[x|]| | | |i|]; auto; try discriminate.
    + destruct r; try discriminate. reflexivity.
    + destruct en; try discriminate. split; [reflexivity|]. destruct (all_names_ok r); [discriminate|reflexivity].
    + unfold id_is_base_raiser in H2. rewrite existsb_exists in H2. destruct H2 as (o & Ho & Hb).
      apply andb_prop in Hb as [Hi Hk]. apply N.eqb_eq in Hi. exists o. repeat split; auto.
      destruct (okind o) as [[]| | | | |]; try discriminate. reflexivity.
Qed.
