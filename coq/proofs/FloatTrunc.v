(* int(delay.total_seconds()): total_seconds() is a correctly rounded binary64 quotient of two
   integers, int() truncates.  For every microsecond count below 2^32 seconds the result is the
   exact integer quotient.  (Flocq; depends on the standard library's real-number axioms.) *)
From Coq Require Import ZArith Reals Lia Lra.
From Flocq Require Import Core.
Open Scope R_scope.

Definition fexp := FLT_exp (-1074) 53.
Definition rnd (x : R) := round radix2 fexp ZnearestE x.
Definition total_seconds_trunc (n : Z) : Z := Zfloor (rnd (IZR n / 1000000)).

Lemma fmt_int (m e : Z) : (Z.abs m < 2 ^ 53)%Z -> (-1074 <= e)%Z ->
  generic_format radix2 fexp (F2R (Float radix2 m e)).
Proof.
  intros Hm He. apply generic_format_FLT.
  exists (Float radix2 m e); simpl; auto.
Qed.

Lemma trunc_ok (n : Z) : (0 <= n < 2 ^ 32 * 1000000)%Z ->
  total_seconds_trunc n = (n / 1000000)%Z.
Proof.
  unfold total_seconds_trunc. intros Hn.
  set (q := (n / 1000000)%Z). set (r := (n mod 1000000)%Z).
  assert (Hq : (0 <= q < 2 ^ 32)%Z) by (unfold q; split; [apply Z.div_pos; lia | apply Z.div_lt_upper_bound; lia]).
  assert (Hr : (0 <= r < 1000000)%Z) by (unfold r; apply Z.mod_pos_bound; lia).
  assert (Hnqr : n = (1000000 * q + r)%Z) by (unfold q, r; apply Z.div_mod; lia).
  assert (Hx : IZR q <= IZR n / 1000000 <= IZR q + 1 - / 1000000).
  { rewrite Hnqr, plus_IZR, mult_IZR.
    assert (0 <= IZR r <= 999999) by (split; [apply IZR_le; lia | apply IZR_le; lia]).
    split; field_simplify; lra. }
  assert (Fq : generic_format radix2 fexp (IZR q)).
  { replace (IZR q) with (F2R (Float radix2 q 0)) by (unfold F2R; simpl; ring).
    apply fmt_int; lia. }
  set (m := ((q + 1) * 2 ^ 20 - 1)%Z).
  assert (Fu : generic_format radix2 fexp (F2R (Float radix2 m (-20)))).
  { apply fmt_int; unfold m; lia. }
  assert (Hu : F2R (Float radix2 m (-20)) = IZR q + 1 - / 1048576).
  { assert (Hb : bpow radix2 (-20) = / 1048576).
    { unfold bpow. f_equal. }
    unfold F2R; cbn [Fnum Fexp]. rewrite Hb. unfold m.
    rewrite minus_IZR, mult_IZR, plus_IZR. change (IZR (2 ^ 20)) with 1048576. simpl (IZR 1). field. }
  assert (Hlo : IZR q <= rnd (IZR n / 1000000)).
  { unfold rnd. rewrite <- (round_generic radix2 fexp ZnearestE (IZR q) Fq) at 1.
    apply round_le; [apply FLT_exp_valid; reflexivity | apply valid_rnd_N | lra]. }
  assert (Hhi : rnd (IZR n / 1000000) <= IZR q + 1 - / 1048576).
  { unfold rnd. rewrite <- Hu.
    apply Rle_trans with (round radix2 fexp ZnearestE (F2R (Float radix2 m (-20)))).
    - apply round_le; [apply FLT_exp_valid; reflexivity | apply valid_rnd_N | rewrite Hu; lra].
    - rewrite (round_generic radix2 fexp ZnearestE _ Fu). apply Rle_refl. }
  apply Zfloor_imp. rewrite plus_IZR. simpl. lra.
Qed.
