(* Facts about the statement monad and the primitives of PyPreludeProcMan.v that do not depend on any generated text.

   Part A: evaluation tactic, congruence of the loop combinators in their bodies (pointwise - no functional
           extensionality), list surgery.
   Part B: HAND-WRITTEN monadic programs over the prelude's primitives - one iteration of each loop of
           ProcessManager.start (shutdown_step, scan_step, drain_cond / drain_step), the two handlers as state
           transformers (reload_all_m, handle_m), one iteration of `while True:` (tick_m) - and the proof that they ARE
           the hand-written model of ProcMan.v: shutdown_live, scan, body / drain_gen, tick (state, effects, outcome).
   coq/srcproofs/Src_procman_*.v (re-checked against the freshly generated Gen_procman.v on every run) only have to show
   that the generated text is pointwise equal to these programs - by computation. *)
From Coq Require Import ZArith List Bool Arith Lia.
Import ListNotations.
From TQ Require Import ProcMan ProcManInv PyPreludeProcMan.

(* ================================================================== part A *)
(* falling off the end of a loop body and `continue` are the same to the loop: both read as Normal *)
Definition nc {St R} (r : pms * list effect * outc (ctl St R St)) : pms * list effect * outc (ctl St R St) :=
  match r with
  | (ms, e, Ok (Continue s)) => (ms, e, Ok (Normal s))
  | _ => r
  end.

Ltac pm :=
  lazy beta iota zeta delta
      [bind ret raise emit get_st put_st lift sbind next return_ return_v continue_ raise_ loop_bind
       mand mor mnot run_fn run_iter try_else_on try_except_on try_else try_except
       load_restarts store_restarts queue_empty queue_get queue_put sleep
       workers_len workers_refs workers_enumerate workers_zip workers_getitem workers_setitem workers_append
       proc_pid proc_is_alive proc_terminate proc_join os_kill pobj_start
       wait_for_worker_startup wait_for_worker_startup_obj
       set_add list_append action_queue_of workers_of worker_function_of Process_new Event_new ReloadOneAction set_new
       range_ truthy_pid worker_at is_ValueError is_exception nc];
  cbn [ms_st ms_te te_sleep te_drain te_alive fst snd app negb andb orb ro_num ro_all].

Lemma state_eta st : mkState (workers st) (queue st) (restarts st) (next_pid st) = st.
Proof. destruct st; reflexivity. Qed.

Lemma set_nth_set_nth A i (x y : A) l : set_nth i x (set_nth i y l) = set_nth i x l.
Proof. revert i; induction l; intros [|i]; simpl; auto. f_equal; auto. Qed.

Lemma existsb_set_nth A (f : A -> bool) i x l : i < length l -> f x = true -> existsb f (set_nth i x l) = true.
Proof.
  revert i; induction l; intros [|i] L F; simpl in *; try lia.
  - rewrite F; reflexivity.
  - rewrite IHl by (auto; lia). apply orb_true_r.
Qed.

Lemma nth_overflow' A (l : list A) i d : length l <= i -> nth i l d = d.
Proof. apply nth_overflow. Qed.

(* ---- the loops are congruent in their bodies; falling off the end of a loop body and `continue` are the same to
   the loop (nc: both read as Normal) *)
Lemma loop_bind_nc : forall {S0 R St} (a1 a2 : stm St R St) (k : St -> stm S0 R St) ms,
  nc (a1 ms) = nc (a2 ms) -> loop_bind a1 k ms = loop_bind a2 k ms.
Proof.
  intros S0 R St a1 a2 k ms H. unfold loop_bind, bind.
  destruct (a1 ms) as [[m1 e1] [[s1|r1|s1]|x1]], (a2 ms) as [[m2 e2] [[s2|r2|s2]|x2]];
    cbn [nc] in H; inversion H; subst; reflexivity.
Qed.

Lemma for_ext : forall {S0 R Y St} (b1 b2 : Y -> St -> stm St R St),
  (forall y s ms, nc (b1 y s ms) = nc (b2 y s ms)) ->
  forall l s ms, @for_ S0 R Y St l b1 s ms = for_ l b2 s ms.
Proof.
  intros S0 R Y St b1 b2 H. induction l as [|y l IH]; intros s ms; [reflexivity|].
  cbn [for_]. rewrite (loop_bind_nc (b1 y s) (b2 y s) _ ms (H y s ms)).
  unfold loop_bind, bind. destruct (b2 y s ms) as [[ms1 e1] [[s1|r|s1]|x]]; rewrite ?IH; reflexivity.
Qed.

Lemma while_fuel_ext : forall {S0 R St} (c1 c2 : St -> PM bool) (b1 b2 : St -> stm St R St),
  (forall s ms, c1 s ms = c2 s ms) -> (forall s ms, nc (b1 s ms) = nc (b2 s ms)) ->
  forall f s ms, @while_fuel S0 R St f c1 b1 s ms = while_fuel f c2 b2 s ms.
Proof.
  intros S0 R St c1 c2 b1 b2 HC HB. induction f as [|f IH]; intros s ms; [reflexivity|].
  cbn [while_fuel]. unfold bind. rewrite HC.
  destruct (c2 s ms) as [[ms1 e1] [[|]|x]]; try reflexivity.
  rewrite (loop_bind_nc (b1 s) (b2 s) _ ms1 (HB s ms1)).
  unfold loop_bind, bind. destruct (b2 s ms1) as [[ms2 e2] [[s1|r|s1]|x]]; rewrite ?IH; reflexivity.
Qed.

Lemma while_ext : forall {S0 R St} (c1 c2 : St -> PM bool) (b1 b2 : St -> stm St R St),
  (forall s ms, c1 s ms = c2 s ms) -> (forall s ms, nc (b1 s ms) = nc (b2 s ms)) ->
  forall s ms, @while_ S0 R St c1 b1 s ms = while_ c2 b2 s ms.
Proof. intros. unfold while_. apply while_fuel_ext; assumption. Qed.

(* a loop whose body does nothing *)
Lemma for_noop : forall {S0 R Y St} (body : Y -> St -> stm St R St),
  (forall y s ms, nc (body y s ms) = (ms, [], Ok (Normal s))) ->
  forall l s ms, @for_ S0 R Y St l body s ms = (ms, [], Ok (Normal s)).
Proof.
  intros S0 R Y St body H. induction l as [|y l IH]; intros s ms; [reflexivity|].
  cbn [for_]. rewrite (loop_bind_nc (body y s) (next s) _ ms (H y s ms)).
  unfold loop_bind, next, bind, ret. rewrite IH. reflexivity.
Qed.

(* a loop whose body only transforms the state *)
Lemma for_state : forall {S0 R Y} (body : Y -> unit -> stm unit R unit) (g : Y -> pms -> pms),
  (forall y ms, body y tt ms = (g y ms, [], Ok (Normal tt))) ->
  forall l ms, @for_ S0 R Y unit l body tt ms = (fold_left (fun m y => g y m) l ms, [], Ok (Normal tt)).
Proof.
  intros S0 R Y body g H. induction l as [|y l IH]; intros ms; [reflexivity|].
  cbn [for_ fold_left]. unfold loop_bind, bind. rewrite H, IH. reflexivity.
Qed.

(* ================================================================== part B *)
Notation R0 := (option Z) (only parsing).     (* what start() returns *)

(* ---- ReloadAllAction.handle / ReloadOneAction.handle as state transformers: the model's functions *)
Definition reload_all_m (n : nat) : PM unit := fun ms =>
  (mkPms (enq (ms_st ms) (map (fun i => ReloadOne i true) (seq 0 n))) (ms_te ms), [], Ok tt).
Definition handle_m (i : nat) : PM unit := fun ms =>
  let (st', e) := handle_reload i (ms_st ms) in (mkPms st' (ms_te ms), e, Ok tt).

Lemma enq_enq st a b : enq (enq st a) b = enq st (a ++ b).
Proof. unfold enq, set_queue; simpl. rewrite app_assoc. reflexivity. Qed.
Lemma enq_nil st : enq st [] = st.
Proof. unfold enq, set_queue. rewrite app_nil_r. apply state_eta. Qed.

(* the loop of ReloadAllAction.handle *)
Definition put_one_step (i : nat) (_ : unit) : stm unit unit unit := lift (queue_put tt (ReloadOne i true)).
Lemma for_put_ones : forall l ms,
  @for_ Empty_set unit nat unit l put_one_step tt ms =
  (mkPms (enq (ms_st ms) (map (fun i => ReloadOne i true) l)) (ms_te ms), [], Ok (Normal tt)).
Proof.
  intros l ms.
  rewrite (for_state put_one_step (fun i m => mkPms (enq (ms_st m) [ReloadOne i true]) (ms_te m))) by reflexivity.
  f_equal. f_equal. revert ms. induction l as [|i l IH]; intros [st te]; cbn [fold_left map ms_st ms_te].
  - rewrite enq_nil. reflexivity.
  - rewrite IH. cbn [ms_st ms_te]. rewrite enq_enq. reflexivity.
Qed.

(* ---- the shutdown branch: one iteration of `for worker in self.workers:` *)
Definition shutdown_step (k : nat) (_ : unit) : stm unit R0 unit :=
  c <~ lift (mand (p <- proc_pid k ;; ret (truthy_pid p)) (proc_is_alive k)) ;;
  if c then (p <~ lift (proc_pid k) ;; lift (os_kill p SIGINT)) else next tt.

Definition exit_eff (o : outcome) : list effect := match o with Exited c => [EExit c] | _ => [] end.

Lemma for_shutdown : forall idxs st sl dv av,
  exists av' e',
    @for_ (list nat) R0 nat unit idxs shutdown_step tt (mkPms st (mkTE sl dv av)) =
      (mkPms (fst (fst (shutdown_live idxs st av))) (mkTE sl dv av'), e',
       match snd (shutdown_live idxs st av) with Crashed p => Exc (XProcessLookup p) | _ => Ok (Normal tt) end) /\
    snd (fst (shutdown_live idxs st av)) = e' ++ exit_eff (snd (shutdown_live idxs st av)).
Proof.
  induction idxs as [|k ks IH]; intros st sl dv av.
  - exists av, []. split; reflexivity.
  - cbn [for_ shutdown_live]. unfold loop_bind. unfold shutdown_step at 1. pm.
    destruct (pid (nth k (workers st) dummy) =? 0) eqn:P0.
    + pm.
      destruct (IH st sl dv av) as (av' & e' & E & F). rewrite E. exists av', e'. split; [reflexivity|exact F].
    + pm.
      destruct (pop av) as [ev av1]. pm.
      set (st1 := deliver_np st ev).
      destruct (is_alive (nth k (workers st1) dummy)) as [al w'] eqn:EA.
      pose proof (is_alive_spec _ _ _ EA) as (PV & T & F0).
      set (st2 := set_workers st1 (set_nth k w' (workers st1))).
      destruct al; pm.
      * destruct (T eq_refl) as [L ->]. rewrite L.
        assert (KL : k < length (workers st1)).
        { destruct (Nat.lt_ge_cases k (length (workers st1))) as [|G]; auto.
          rewrite (nth_overflow _ _ G) in L. discriminate. }
        assert (N2 : nth k (workers st2) dummy = nth k (workers st1) dummy).
        { unfold st2. cbn [workers set_workers]. apply nth_set_nth_eq; exact KL. }
        rewrite N2.
        assert (OW : owns_pid st2 (pid (nth k (workers st1) dummy)) = true).
        { unfold owns_pid, st2. cbn [workers set_workers]. apply existsb_set_nth; auto.
          rewrite Nat.eqb_refl, L. reflexivity. }
        rewrite OW. pm.
        destruct (IH st2 sl dv av1) as (av' & e' & E & F). fold st2. rewrite E.
        destruct (shutdown_live ks st2 av1) as [[s0 e0] o0]. cbn [fst snd] in *.
        exists av', (Kill (pid (nth k (workers st1) dummy)) :: e'). split; [reflexivity|]. rewrite F. reflexivity.
      * destruct (IH st2 sl dv av1) as (av' & e' & E & F). fold st2. rewrite E.
        exists av', e'. split; [reflexivity|exact F].
Qed.

(* ---- the liveness scan: one iteration of `for worker_num, worker in enumerate(self.workers):` *)
Definition scan_step (nk : nat * nat) (_ : unit) : stm unit R0 unit :=
  c <~ lift (mnot (proc_is_alive (snd nk))) ;;
  if c then lift (queue_put tt (ReloadOne (fst nk) false)) else next tt.

Lemma for_scan : forall idxs st sl dv av,
  @for_ unit R0 (nat * nat) unit (map (fun k => (k, k)) idxs) scan_step tt (mkPms st (mkTE sl dv av)) =
  (mkPms (scan idxs st av) (mkTE sl dv (skipn (length idxs) av)), [], Ok (Normal tt)).
Proof.
  induction idxs as [|k ks IH]; intros st sl dv av; [reflexivity|].
  cbn [map for_ scan length]. unfold loop_bind. unfold scan_step at 1. pm.
  assert (SK : skipn (S (length ks)) av = skipn (length ks) (snd (pop av))) by (destruct av; simpl; rewrite ?skipn_nil; reflexivity).
  rewrite SK. destruct (pop av) as [ev av1]. pm.
  destruct (is_alive (nth k (workers (deliver_np st ev)) dummy)) as [[|] w']; pm; rewrite IH; reflexivity.
Qed.

(* ---- the drain loop `while not self.action_queue.empty():` - its test and one iteration of its body;
   the loop-carried variable is reloaded_workers *)
Definition drain_cond (rl : list nat) : PM bool := mnot (queue_empty tt).
Definition drain_step (c : cfg) (rl : list nat) : stm (list nat) R0 (list nat) :=
  a <~ lift (queue_get tt) ;;
  match a with
  | ReloadAll => n <~ lift (workers_len tt) ;; _ <~ lift (reload_all_m n) ;; next rl
  | ReloadOne i ra =>
      _ <~ (if ra then next tt
            else if (max_fails c >=? 1)%Z then
                   r <~ lift load_restarts ;;
                   _ <~ lift (store_restarts (r + 1)%Z) ;;
                   r' <~ lift load_restarts ;;
                   if (r' >=? max_fails c)%Z then return_v (Some (-1)%Z) else next tt
                 else next tt) ;;
      _ <~ (if set_mem i rl then continue_ rl else next tt) ;;
      _ <~ lift (handle_m i) ;;
      lift (set_add rl i)
  | Shutdown =>
      items <~ lift (workers_refs tt) ;;
      _ <~ for_ items shutdown_step tt ;;
      return_v None
  end.

(* how a run of generated / hand-written monadic code ends, against the model's outcome *)
Definition out_of {S A} (o : outcome) (a : A) : outc (ctl S R0 A) :=
  match o with
  | Cont => Ok (Normal a)
  | Exited ExitNone => Ok (Return None)
  | Exited ExitFail => Ok (Return (Some (-1)%Z))
  | Crashed p => Exc (XProcessLookup p)
  | OutOfFuel => Exc XOutOfFuel
  end.

(* one iteration: test, then body *)
Lemma drain_iter : forall c rl st sl dv av,
  match body shutdown_live c av (st, dv, rl) with
  | inl ((st', dv', rl'), e) =>
      drain_cond rl (mkPms st (mkTE sl dv av)) = (mkPms (deliver st (fst (pop dv))) (mkTE sl dv' av), [], Ok true) /\
      drain_step c rl (mkPms (deliver st (fst (pop dv))) (mkTE sl dv' av)) =
        (mkPms st' (mkTE sl dv' av), e, Ok (Normal rl')) \/
      drain_cond rl (mkPms st (mkTE sl dv av)) = (mkPms (deliver st (fst (pop dv))) (mkTE sl dv' av), [], Ok true) /\
      drain_step c rl (mkPms (deliver st (fst (pop dv))) (mkTE sl dv' av)) =
        (mkPms st' (mkTE sl dv' av), e, Ok (Continue rl'))
  | inr (s, e, Cont) =>
      drain_cond rl (mkPms st (mkTE sl dv av)) = (mkPms s (mkTE sl (snd (pop dv)) av), [], Ok false) /\ e = []
  | inr (s, e, o) =>
      drain_cond rl (mkPms st (mkTE sl dv av)) =
        (mkPms (deliver st (fst (pop dv))) (mkTE sl (snd (pop dv)) av), [], Ok true) /\
      exists te' e', drain_step c rl (mkPms (deliver st (fst (pop dv))) (mkTE sl (snd (pop dv)) av)) =
                       (mkPms s te', e', out_of o rl) /\ e = e' ++ exit_eff o
  end.
Proof.
  intros c rl st sl dv av.
  pose proof (body_cases c av st dv rl) as BC.
  set (b := body shutdown_live c av (st, dv, rl)) in *. clearbody b.
  assert (CT : forall a q, queue (deliver st (fst (pop dv))) = a :: q ->
               drain_cond rl (mkPms st (mkTE sl dv av)) =
               (mkPms (deliver st (fst (pop dv))) (mkTE sl (snd (pop dv)) av), [], Ok true)).
  { intros a q Q. unfold drain_cond. pm. destruct (pop dv) as [ev dv']. cbn [fst snd] in *. pm. rewrite Q. reflexivity. }
  set (st1 := deliver st (fst (pop dv))) in *.
  inversion BC as [Q|q Q|i q Q M LE|i ra q Q NX EX|i ra q Q NX EX|q s e o Q SL]; subst; clear BC; cbv iota beta.
  - (* queue empty *)
    split; [|reflexivity]. unfold drain_cond. pm. destruct (pop dv) as [ev dv']. cbn [fst snd] in *. pm.
    fold st1. rewrite Q. reflexivity.
  - (* ReloadAll *)
    left. split; [eapply CT; eauto|].
    unfold drain_step. pm. rewrite Q. pm. unfold reload_all_m. pm. unfold ones. reflexivity.
  - (* failure budget exhausted *)
    split; [eapply CT; eauto|].
    unfold drain_step. pm. rewrite Q. pm.
    assert (G1 : (max_fails c >=? 1)%Z = true) by (apply Z.geb_le; lia). rewrite G1. pm.
    unfold set_restarts. cbn [workers queue restarts next_pid set_queue].
    assert (G2 : (restarts st1 + 1 >=? max_fails c)%Z = true) by (apply Z.geb_le; lia). rewrite G2. pm.
    eexists _, _. split; [reflexivity|]. reflexivity.
  - (* de-duplicated *)
    right. split; [eapply CT; eauto|].
    unfold drain_step. pm. rewrite Q. pm. unfold counted_of in *.
    destruct ra; cbn [negb andb] in *; pm.
    + unfold set_mem. rewrite EX. pm. unfold st3_of, set_queue. reflexivity.
    + rewrite Z.geb_leb. destruct (1 <=? max_fails c)%Z eqn:M; pm.
      * unfold set_restarts. cbn [workers queue restarts next_pid set_queue].
        assert (G2 : (restarts st1 + 1 >=? max_fails c)%Z = false) by (rewrite Z.geb_leb; apply Z.leb_gt; apply NX; reflexivity).
        rewrite G2. pm. unfold set_mem. rewrite EX. pm. reflexivity.
      * unfold set_mem. rewrite EX. pm. reflexivity.
  - (* reload *)
    left. split; [eapply CT; eauto|].
    unfold drain_step. pm. rewrite Q. pm. unfold counted_of in *.
    destruct ra; cbn [negb andb] in *; pm.
    + unfold set_mem. rewrite EX. pm. unfold handle_m. pm.
      change (set_queue st1 q) with (st3_of st1 q false).
      destruct (handle_reload i (st3_of st1 q false)) as [st4 eh]. pm. rewrite ?app_nil_r. reflexivity.
    + rewrite Z.geb_leb. destruct (1 <=? max_fails c)%Z eqn:M; pm.
      * unfold set_restarts. cbn [workers queue restarts next_pid set_queue].
        assert (G2 : (restarts st1 + 1 >=? max_fails c)%Z = false) by (rewrite Z.geb_leb; apply Z.leb_gt; apply NX; reflexivity).
        rewrite G2. pm. unfold set_mem. rewrite EX. pm. unfold handle_m. pm.
        change (mkState (workers st1) q (restarts st1 + 1)%Z (next_pid st1)) with (st3_of st1 q true).
        destruct (handle_reload i (st3_of st1 q true)) as [st4 eh]. pm. rewrite ?app_nil_r. reflexivity.
      * unfold set_mem. rewrite EX. pm. unfold handle_m. pm.
        change (set_queue st1 q) with (st3_of st1 q false).
        destruct (handle_reload i (st3_of st1 q false)) as [st4 eh]. pm. rewrite ?app_nil_r. reflexivity.
  - (* Shutdown *)
    pose proof (shutdown_live_basic _ _ _ _ _ _ SL) as (_ & _ & _ & _ & ->).
    split; [eapply CT; eauto|].
    unfold drain_step. pm. rewrite Q. pm.
    destruct (for_shutdown (seq 0 (length (workers st1))) (set_queue st1 q) sl (snd (pop dv)) av) as (av' & e' & E & F).
    change (length (workers (set_queue st1 q))) with (length (workers st1)).
    rewrite E, SL in *. cbn [fst snd] in *. pm.
    eexists _, _. split; [reflexivity|]. rewrite F. cbn [exit_eff app]. rewrite app_nil_r. reflexivity.
Qed.

(* the whole drain loop *)
Lemma while_drain : forall c av f rl st sl dv,
  exists te' e' rl',
    @while_fuel unit R0 (list nat) f drain_cond (drain_step c) rl (mkPms st (mkTE sl dv av)) =
      (mkPms (fst (fst (drain f c av (st, dv, rl)))) te', e', out_of (snd (drain f c av (st, dv, rl))) rl') /\
    snd (fst (drain f c av (st, dv, rl))) = e' ++ exit_eff (snd (drain f c av (st, dv, rl))) /\
    (snd (drain f c av (st, dv, rl)) = Cont -> te_sleep te' = sl /\ te_alive te' = av).
Proof.
  intros c av. induction f as [|f IH]; intros rl st sl dv.
  - exists (mkTE sl dv av), [], rl. repeat split; auto; discriminate.
  - unfold drain. cbn [while_fuel drain_gen]. fold (drain f c av).
    pose proof (drain_iter c rl st sl dv av) as DI.
    destruct (body shutdown_live c av (st, dv, rl)) as [[[[st' dv'] rl'] e1]|[[s e1] o1]].
    + destruct (IH rl' st' sl dv') as (te' & e' & rl2 & E & F & G).
      destruct (drain f c av (st', dv', rl')) as [[s2 e2] o2]. cbn [fst snd] in *.
      exists te', (e1 ++ e'), rl2.
      destruct DI as [[EC ES]|[EC ES]]; unfold bind at 1; rewrite EC; unfold loop_bind, bind; rewrite ES, E; cbn [app];
        (split; [reflexivity|]); (split; [rewrite F, app_assoc; reflexivity | exact G]).
    + destruct o1 as [|[|]|p|].
      * destruct DI as [EC ->]. exists (mkTE sl (snd (pop dv)) av), [], rl.
        unfold bind. rewrite EC. cbn [fst snd]. repeat split; auto.
      * destruct DI as [EC (te' & e' & ES & F)]. exists te', e', rl.
        unfold bind at 1. rewrite EC. unfold loop_bind, bind. rewrite ES. cbn [fst snd out_of app]. pm.
        cbn [exit_eff] in *. rewrite ?app_nil_r in *. repeat split; try discriminate; auto.
      * destruct DI as [EC (te' & e' & ES & F)]. exists te', e', rl.
        unfold bind at 1. rewrite EC. unfold loop_bind, bind. rewrite ES. cbn [fst snd out_of app]. pm.
        cbn [exit_eff] in *. rewrite ?app_nil_r in *. repeat split; try discriminate; auto.
      * destruct DI as [EC (te' & e' & ES & F)]. exists te', e', rl.
        unfold bind at 1. rewrite EC. unfold loop_bind, bind. rewrite ES. cbn [fst snd out_of app]. pm.
        cbn [exit_eff] in *. rewrite ?app_nil_r in *. repeat split; try discriminate; auto.
      * destruct DI as [EC (te' & e' & ES & F)]. exists te', e', rl.
        unfold bind at 1. rewrite EC. unfold loop_bind, bind. rewrite ES. cbn [fst snd out_of app]. pm.
        cbn [exit_eff] in *. rewrite ?app_nil_r in *. repeat split; try discriminate; auto.
Qed.

(* ---- one iteration of `while True:` in start() *)
Definition tick_m (c : cfg) : PM (option R0) :=
  run_iter (
    _ <~ lift (sleep 1%Z) ;;
    _ <~ while_ drain_cond (drain_step c) set_new ;;
    items <~ lift (workers_enumerate tt) ;;
    for_ items scan_step tt).

(* the value of one iteration (None: go on; Some r: start() returned r) / the exception that left it, against the
   model's outcome *)
Definition exit_value (o : outcome) : outc (option R0) :=
  match o with
  | Cont => Ok None
  | Exited ExitNone => Ok (Some None)
  | Exited ExitFail => Ok (Some (Some (-1)%Z))
  | Crashed p => Exc (XProcessLookup p)
  | OutOfFuel => Exc XOutOfFuel
  end.

Theorem tick_m_spec : forall c st te,
  exists te' e',
    tick_m c (mkPms st te) = (mkPms (fst (fst (tick c st te))) te', e', exit_value (snd (tick c st te))) /\
    snd (fst (tick c st te)) = e' ++ exit_eff (snd (tick c st te)).
Proof.
  intros c st [sl dv av]. rewrite tick_unfold. cbv zeta. cbn [te_sleep te_drain te_alive].
  unfold tick_m. pm. unfold while_, loop_fuel. cbn [ms_st ms_te te_drain].
  destruct (while_drain c av (fuel_of (deliver st sl) dv) [] (deliver st sl) [] dv) as (te' & e' & rl' & E & F & G).
  rewrite E. clear E.
  destruct (drain (fuel_of (deliver st sl) dv) c av (deliver st sl, dv, [])) as [[s e] o]. cbn [fst snd] in *.
  destruct o as [|[|]|p|]; cbn [out_of exit_eff] in *; pm; rewrite ?app_nil_r in *.
  - destruct (G eq_refl) as [G1 G2]. destruct te' as [sl' dv' av']. cbn [te_sleep te_alive] in *. subst sl' av'.
    rewrite for_scan. pm. eexists _, _. split; [reflexivity|]. cbn [exit_eff]. rewrite !app_nil_r. exact F.
  - eexists _, _. split; [reflexivity|]. exact F.
  - eexists _, _. split; [reflexivity|]. exact F.
  - eexists _, _. split; [reflexivity|]. cbn [exit_eff]. rewrite app_nil_r. exact F.
  - eexists _, _. split; [reflexivity|]. cbn [exit_eff]. rewrite app_nil_r. exact F.
Qed.

(* ---- ReloadAllAction.handle *)
Definition reload_all_prog (n : nat) : PM unit := run_fn (for_ (range_ n) put_one_step tt).
Lemma reload_all_prog_spec : forall n ms, reload_all_prog n ms = reload_all_m n ms.
Proof. intros n ms. unfold reload_all_prog, reload_all_m. pm. rewrite for_put_ones. reflexivity. Qed.

(* ---- ReloadOneAction.handle *)
Definition handle_prog (i : nat) : PM unit :=
  run_fn (
    c <~ lift (mor (ret (Z.of_nat i <? 0)%Z) (n <- workers_len tt ;; ret (Z.of_nat i >=? Z.of_nat n)%Z)) ;;
    if c then return_
    else
      w <~ lift (workers_getitem tt i) ;;
      _ <~ try_except_on is_ValueError (lift (proc_terminate w)) (fun _ => next tt) ;;
      _ <~ lift (proc_join w) ;;
      p <~ lift (pobj_start (Process_new i)) ;;
      _ <~ lift (workers_setitem tt i p) ;;
      lift (wait_for_worker_startup i Event_new)).

Lemma handle_prog_spec : forall i ms, handle_prog i ms = handle_m i ms.
Proof.
  intros i [st te]. unfold handle_prog, handle_m, handle_reload. pm.
  assert (Z0 : (Z.of_nat i <? 0)%Z = false) by (apply Z.ltb_ge; lia). rewrite Z0. pm.
  destruct (Nat.lt_ge_cases i (length (workers st))) as [L|G].
  - assert (Z1 : (Z.of_nat i >=? Z.of_nat (length (workers st)))%Z = false) by (rewrite Z.geb_leb; apply Z.leb_gt; lia).
    rewrite Z1. pm. apply Nat.ltb_lt in L. rewrite L. pm. apply Nat.ltb_lt in L.
    cbn [workers set_workers]. rewrite set_nth_length. apply Nat.ltb_lt in L. rewrite L. pm.
    cbn [workers queue restarts next_pid set_workers]. rewrite set_nth_set_nth.
    apply Nat.ltb_lt in L. destruct (nth_error (workers st) i) as [w|] eqn:E.
    + apply (nth_error_nth' _ _ _ _ dummy) in E. destruct E as [-> _]. reflexivity.
    + apply nth_error_None in E. lia.
  - assert (Z1 : (Z.of_nat i >=? Z.of_nat (length (workers st)))%Z = true) by (apply Z.geb_le; lia).
    rewrite Z1. pm. destruct (nth_error (workers st) i) eqn:E; [|reflexivity].
    assert (i < length (workers st)) by (apply nth_error_Some; congruence). lia.
Qed.

(* ---- prepare_workers *)
Definition spawn_step (i : nat) (evs : list unit) : stm (list unit) unit (list unit) :=
  p <~ lift (pobj_start (Process_new i)) ;; _ <~ lift (workers_append tt p) ;; lift (list_append evs Event_new).
(* the second loop - the startup waits - does nothing under the prelude's reading of _wait_for_worker_startup: the
   generated one is removed by for_noop *)
Definition prepare_workers_m (c : cfg) : PM unit :=
  run_fn (_ <~ for_ (range_ (nworkers c)) spawn_step [] ;; next tt).

Lemma for_spawn : forall n s ws q r np te evs,
  @for_ Empty_set unit nat (list unit) (seq s n) spawn_step evs (mkPms (mkState ws q r np) te) =
  (mkPms (mkState (ws ++ map (fun k => mkProc (np + k) Live) (seq 0 n)) q r (np + n)) te,
   map (fun k => Start (s + k) (np + k)) (seq 0 n), Ok (Normal (evs ++ repeat tt n))).
Proof.
  induction n as [|n IH]; intros s ws q r np te evs.
  - cbn [seq for_ map repeat]. rewrite !app_nil_r, Nat.add_0_r. reflexivity.
  - cbn [seq for_]. unfold loop_bind. unfold spawn_step at 1. pm. unfold set_workers. cbn [workers queue restarts next_pid].
    rewrite IH. cbn [map repeat]. rewrite <- !seq_shift, !map_map, !Nat.add_0_r, <- !app_assoc. cbn [app].
    rewrite (map_ext (fun k => mkProc (S np + k) Live) (fun x => mkProc (np + S x) Live)) by (intros; f_equal; lia).
    rewrite (map_ext (fun k => Start (S s + k) (S np + k)) (fun x => Start (s + S x) (np + S x))) by (intros; f_equal; lia).
    rewrite Nat.add_succ_r. reflexivity.
Qed.

Lemma prepare_workers_m_spec : forall c q r p0 te,
  prepare_workers_m c (mkPms (mkState [] q r p0) te) =
  (mkPms (mkState (map (fun i => mkProc (p0 + i) Live) (seq 0 (nworkers c))) q r (p0 + nworkers c)) te,
   map (fun i => Start i (p0 + i)) (seq 0 (nworkers c)), Ok tt).
Proof.
  intros c q r p0 te. unfold prepare_workers_m. pm. rewrite for_spawn. pm. rewrite !app_nil_r. reflexivity.
Qed.

(* ---- the statements of start() before its loop *)
Definition start_init_m (c : cfg) : PM unit :=
  run_fn (_ <~ lift (store_restarts 0%Z) ;; _ <~ lift (prepare_workers_m c) ;; next tt).

Theorem start_init_m_spec : forall c r p0 te,
  start_init_m c (mkPms (mkState [] [] r p0) te) = (mkPms (fst (init c p0)) te, snd (init c p0), Ok tt).
Proof.
  intros c r p0 te. unfold start_init_m. pm. unfold set_restarts. cbn [workers queue next_pid].
  rewrite prepare_workers_m_spec. pm. rewrite !app_nil_r. reflexivity.
Qed.

(* ---- is_alive() does not change the pid of the process it polls (worker.pid read before or after the poll) *)
Lemma pid_after_poll : forall st ev k al w',
  is_alive (nth k (workers (deliver_np st ev)) dummy) = (al, w') ->
  pid (nth k (workers (set_workers (deliver_np st ev) (set_nth k w' (workers (deliver_np st ev))))) dummy) =
  pid (nth k (workers st) dummy).
Proof.
  intros st ev k al w' H. cbn [workers set_workers].
  destruct (deliver_np_spec ev st) as (EV & _). pose proof (evolves_nth _ _ k EV) as [PK _].
  pose proof (evolves_length _ _ EV) as LEN.
  apply is_alive_spec in H. destruct H as ([PW _] & _).
  destruct (Nat.lt_ge_cases k (length (workers (deliver_np st ev)))) as [L|G].
  - rewrite nth_set_nth_eq by exact L. congruence.
  - rewrite (nth_overflow (set_nth _ _ _)) by (rewrite set_nth_length; exact G).
    rewrite (nth_overflow (workers st)) by lia. reflexivity.
Qed.
