From Coq Require Import ZArith List Bool Arith Lia.
Import ListNotations.
From TQ Require Import SchedSource.

(* ------------------------------------------------------------------ dictionaries *)
Lemma lookup_upd_same {V} (d : list (nat * V)) k v : lookup k (upd d k v) = Some v.
Proof.
  induction d as [|[k' v'] t IH]; simpl.
  - rewrite Nat.eqb_refl. reflexivity.
  - destruct (Nat.eqb k' k) eqn:E; simpl; rewrite E; auto.
Qed.

Lemma lookup_upd_other {V} (d : list (nat * V)) k k' v : k' <> k -> lookup k' (upd d k v) = lookup k' d.
Proof.
  intros H. induction d as [|[k0 v0] t IH]; simpl.
  - destruct (Nat.eqb k k') eqn:E; auto. apply Nat.eqb_eq in E. congruence.
  - destruct (Nat.eqb k0 k) eqn:E; simpl.
    + apply Nat.eqb_eq in E. subst. destruct (Nat.eqb k k') eqn:E2; auto. apply Nat.eqb_eq in E2; congruence.
    + destruct (Nat.eqb k0 k'); auto.
Qed.

Lemma lookup_map {V W} (f : V -> W) (d : list (nat * V)) k :
  lookup k (map (fun kv => (fst kv, f (snd kv))) d) = option_map f (lookup k d).
Proof. induction d as [|[k' v'] t IH]; simpl; auto. destruct (Nat.eqb k' k); auto. Qed.

Lemma Zopt_eqb_eq a b : Zopt_eqb a b = true <-> a = b.
Proof.
  destruct a, b; simpl; split; intros H; try discriminate; try reflexivity.
  - apply Z.eqb_eq in H. congruence.
  - inversion H. apply Z.eqb_refl.
Qed.

Lemma Zopt_eqb_neq a b : Zopt_eqb a b = false <-> a <> b.
Proof.
  split; intros H.
  - intros E. apply Zopt_eqb_eq in E. congruence.
  - destruct (Zopt_eqb a b) eqn:E; auto. apply Zopt_eqb_eq in E. contradiction.
Qed.

(* ------------------------------------------------------------------ on_ready *)
Section OnReadyProofs.
  Variable pval : Type.
  Variable prepare : lval -> pval.

  Lemma on_ready_cancel kick_ok post_ok sid p :
    on_ready prepare PreCancel kick_ok post_ok sid p = ([EPre sid], RCancelled).
  Proof. reflexivity. Qed.

  Lemma on_ready_no_send pre kick_ok post_ok sid p : pre <> PreOk ->
    let (effs, r) := on_ready prepare pre kick_ok post_ok sid p in
    effs = [EPre sid] /\ existsb is_kick effs = false /\ existsb is_post effs = false /\
    (pre = PreCancel -> r = RCancelled) /\ (pre = PreRaise -> r = RPreRaised).
  Proof. destruct pre; simpl; intros H; try congruence; repeat split; intros; congruence. Qed.

  Lemma on_ready_payload kick_ok post_ok sid p :
    exists m,
      fst (on_ready prepare PreOk kick_ok post_ok sid p) = EPre sid :: EKick m :: (if kick_ok then [EPost sid] else []) /\
      m_task m = p_task p /\ m_args m = p_args p /\ m_kwargs m = p_kwargs p /\
      lookup K_SCHEDULE_ID (m_labels m) = Some (prepare (LSid sid)) /\
      (forall k, k <> K_SCHEDULE_ID -> lookup k (m_labels m) = option_map prepare (lookup k (p_labels p))) /\
      snd (on_ready prepare PreOk kick_ok post_ok sid p) =
        (if kick_ok then if post_ok then ROk else RPostRaised else RSendError).
  Proof.
    exists (mk_msg prepare sid p). simpl. destruct kick_ok; simpl; repeat split; auto.
    all: try (unfold kicker_labels, update_all; simpl; rewrite lookup_map, lookup_upd_same; reflexivity).
    all: intros k Hk; unfold kicker_labels, update_all; simpl; rewrite lookup_map, lookup_upd_other by assumption; reflexivity.
  Qed.
End OnReadyProofs.

(* ------------------------------------------------------------------ listing *)
Definition payload_of (t : task) (e : entry) : payload :=
  mkPayload (t_name t) (join (e_cron e)) (join (e_time e))
            (match e_args e with Some a => a | None => A_DEFAULT end)
            (match e_kwargs e with Some a => a | None => A_DEFAULT end)
            (merged_labels t e) (e_off e).

(* a listed entry whose cron and time values are both None: ScheduledTask(...) raises *)
Definition null_entry (e : entry) : bool :=
  listed e && negb (is_some (join (e_cron e))) && negb (is_some (join (e_time e))).

Definition declared (t : task) : list payload :=
  if t_own t then map (payload_of t) (filter listed (sched_of t)) else [].

Lemma mk_payload_spec t e :
  mk_payload t e = if is_some (join (e_cron e)) || is_some (join (e_time e)) then Some (payload_of t e) else None.
Proof. unfold mk_payload, payload_of. destruct (join (e_cron e)), (join (e_time e)); reflexivity. Qed.

Lemma mk_payload_not_null t e : listed e = true -> null_entry e = false -> mk_payload t e = Some (payload_of t e).
Proof.
  intros Hl Hn. rewrite mk_payload_spec. unfold null_entry in Hn. rewrite Hl in Hn. simpl in Hn.
  destruct (is_some (join (e_cron e))), (is_some (join (e_time e))); simpl in *; try reflexivity; discriminate.
Qed.

Lemma mk_payload_null t e : null_entry e = true -> mk_payload t e = None.
Proof.
  intros Hn. rewrite mk_payload_spec. unfold null_entry in Hn.
  destruct (is_some (join (e_cron e))), (is_some (join (e_time e))); simpl in *; try reflexivity;
    rewrite ?andb_false_r in Hn; discriminate.
Qed.

Lemma list_entries_ok t es : (forall e, In e es -> null_entry e = false) ->
  fst (list_entries t es) = Some (map (payload_of t) (filter listed es)).
Proof.
  induction es as [|e r IH]; intros H; simpl; auto.
  assert (Hr : forall e', In e' r -> null_entry e' = false) by (intros; apply H; right; assumption).
  specialize (IH Hr). destruct (listed e) eqn:El.
  - rewrite (mk_payload_not_null t e El (H e (or_introl eq_refl))).
    destruct (list_entries t r) as [res r']. simpl in *. rewrite IH. reflexivity.
  - destruct (list_entries t r) as [res r']. simpl in *. assumption.
Qed.

Lemma list_entries_null t es : (exists e, In e es /\ null_entry e = true) -> fst (list_entries t es) = None.
Proof.
  induction es as [|e r IH]; intros [x [Hin Hx]]; simpl in *; [contradiction|].
  destruct Hin as [->|Hin].
  - assert (El : listed x = true) by (unfold null_entry in Hx; destruct (listed x); simpl in *; auto).
    rewrite El, (mk_payload_null t x Hx). reflexivity.
  - specialize (IH (ex_intro _ x (conj Hin Hx))). destruct (listed e).
    + destruct (mk_payload t e); [|reflexivity]. destruct (list_entries t r) as [res r']. simpl in *. rewrite IH. reflexivity.
    + destruct (list_entries t r) as [res r']. simpl in *. assumption.
Qed.

Definition no_null (reg : list task) : Prop :=
  forall t e, In t reg -> t_own t = true -> In e (sched_of t) -> null_entry e = false.

Lemma get_schedules_ok reg : no_null reg -> fst (get_schedules reg) = Some (flat_map declared reg).
Proof.
  induction reg as [|t r IH]; intros H; simpl; auto.
  assert (Hr : no_null r) by (intros t' e Ht; apply H; right; assumption).
  specialize (IH Hr). unfold declared at 1. destruct (t_own t) eqn:Eo.
  - pose proof (list_entries_ok t (sched_of t) (fun e He => H t e (or_introl eq_refl) Eo He)) as Hl.
    destruct (list_entries t (sched_of t)) as [res es']. simpl in Hl. subst res.
    destruct (get_schedules r) as [res2 r']. simpl in *. rewrite IH. reflexivity.
  - destruct (get_schedules r) as [res2 r']. simpl in *. assumption.
Qed.

Lemma get_schedules_null reg :
  (exists t e, In t reg /\ t_own t = true /\ In e (sched_of t) /\ null_entry e = true) -> fst (get_schedules reg) = None.
Proof.
  induction reg as [|t r IH]; intros [x [e [Hin [Ho [He Hn]]]]]; simpl in *; [contradiction|].
  destruct Hin as [->|Hin].
  - rewrite Ho. pose proof (list_entries_null x (sched_of x) (ex_intro _ e (conj He Hn))) as Hl.
    destruct (list_entries x (sched_of x)) as [res es']. simpl in Hl. subst res. reflexivity.
  - specialize (IH (ex_intro _ x (ex_intro _ e (conj Hin (conj Ho (conj He Hn)))))).
    destruct (t_own t).
    + destruct (list_entries t (sched_of t)) as [res es']. destruct res; [|reflexivity].
      destruct (get_schedules r) as [res2 r']. simpl in *. rewrite IH. reflexivity.
    + destruct (get_schedules r) as [res2 r']. simpl in *. assumption.
Qed.

(* the in-place labels.update touches nothing but the "labels" value of entries that have one *)
Definition erase_entry (e : entry) : entry := mkEntry (e_uid e) (e_cron e) (e_time e) (e_args e) (e_kwargs e) None (e_off e).
Definition erase_task (t : task) : task :=
  mkTask (t_name t) (t_own t) (t_labels t) (match t_sched t with Some l => Some (map erase_entry l) | None => None end).

Lemma list_entries_erase t es :
  map erase_entry (snd (list_entries t es)) = map erase_entry es /\
  map (fun e => is_some (e_labels e)) (snd (list_entries t es)) = map (fun e => is_some (e_labels e)) es.
Proof.
  induction es as [|e r [IH1 IH2]]; simpl; auto.
  destruct (listed e).
  - assert (He : erase_entry (match e_labels e with Some _ => set_labels e (merged_labels t e) | None => e end) = erase_entry e
                 /\ is_some (e_labels (match e_labels e with Some _ => set_labels e (merged_labels t e) | None => e end)) =
                    is_some (e_labels e)).
    { destruct e as [u c tm a k l o]. simpl. destruct l; simpl; auto. }
    destruct He as [He1 He2].
    destruct (mk_payload t e).
    + destruct (list_entries t r) as [res r']. simpl in *. rewrite He1, He2, IH1, IH2. auto.
    + simpl. rewrite He1, He2. auto.
  - destruct (list_entries t r) as [res r']. simpl in *. rewrite IH1, IH2. auto.
Qed.

Lemma erase_set_sched t es : map erase_entry es = map erase_entry (sched_of t) -> erase_task (set_sched t es) = erase_task t.
Proof.
  unfold erase_task, set_sched, sched_of. destruct (t_sched t) eqn:E; simpl; intros H.
  - rewrite H. reflexivity.
  - rewrite E. reflexivity.
Qed.

Lemma get_schedules_erase reg : map erase_task (snd (get_schedules reg)) = map erase_task reg.
Proof.
  induction reg as [|t r IH]; simpl; auto.
  destruct (t_own t).
  - pose proof (proj1 (list_entries_erase t (sched_of t))) as Hl.
    destruct (list_entries t (sched_of t)) as [res es']. simpl in Hl. destruct res.
    + destruct (get_schedules r) as [res2 r']. simpl in *. rewrite IH, (erase_set_sched t es' Hl). reflexivity.
    + simpl. rewrite (erase_set_sched t es' Hl). reflexivity.
  - destruct (get_schedules r) as [res2 r']. simpl in *. rewrite IH. reflexivity.
Qed.

(* ------------------------------------------------------------------ post_send *)
Definition has_time (T : Z) (e : entry) : bool := Zopt_eqb (join (e_time e)) (Some T).

Lemma remove_time_some T es es' : remove_time T es = Some es' ->
  exists es1 e es2, es = es1 ++ e :: es2 /\ es' = es1 ++ es2 /\ join (e_time e) = Some T /\
                    forall e', In e' es1 -> join (e_time e') <> Some T.
Proof.
  revert es'. induction es as [|e r IH]; simpl; intros es' H; [discriminate|].
  destruct (Zopt_eqb (join (e_time e)) (Some T)) eqn:E.
  - inversion H; subst. exists [], e, es'. apply Zopt_eqb_eq in E. repeat split; auto; intros e' [].
  - destruct (remove_time T r) as [r'|]; [|discriminate]. inversion H; subst.
    destruct (IH r' eq_refl) as [es1 [x [es2 [H1 [H2 [H3 H4]]]]]]. subst.
    exists (e :: es1), x, es2. repeat split; auto. intros e' [<-|Hin]; [apply Zopt_eqb_neq; assumption|auto].
Qed.

Lemma remove_time_none T es : remove_time T es = None -> forall e, In e es -> join (e_time e) <> Some T.
Proof.
  induction es as [|e r IH]; simpl; intros H x Hin; [contradiction|].
  destruct (Zopt_eqb (join (e_time e)) (Some T)) eqn:E; [discriminate|].
  destruct (remove_time T r); [discriminate|]. destruct Hin as [<-|Hin]; [apply Zopt_eqb_neq; assumption|auto].
Qed.

Definition no_match (name : nat) (T : Z) (t : task) : Prop :=
  t_own t = true -> t_name t = name -> forall e, In e (sched_of t) -> join (e_time e) <> Some T.

Lemma post_send_tasks_spec name T reg :
  (post_send_tasks name T reg = reg /\ forall t, In t reg -> no_match name T t) \/
  (exists r1 t r2 es1 e es2,
      reg = r1 ++ t :: r2 /\ t_own t = true /\ t_name t = name /\ sched_of t = es1 ++ e :: es2 /\
      join (e_time e) = Some T /\ (forall e', In e' es1 -> join (e_time e') <> Some T) /\
      (forall t', In t' r1 -> no_match name T t') /\
      post_send_tasks name T reg = r1 ++ set_sched t (es1 ++ es2) :: r2).
Proof.
  induction reg as [|t r IH]; simpl.
  - left. split; auto. intros t [].
  - assert (Hskip : no_match name T t ->
      (t :: post_send_tasks name T r = t :: r /\ (forall t0, t = t0 \/ In t0 r -> no_match name T t0)) \/
      (exists r1 t0 r2 es1 e es2, t :: r = r1 ++ t0 :: r2 /\ t_own t0 = true /\ t_name t0 = name /\
          sched_of t0 = es1 ++ e :: es2 /\ join (e_time e) = Some T /\ (forall e', In e' es1 -> join (e_time e') <> Some T) /\
          (forall t', In t' r1 -> no_match name T t') /\
          t :: post_send_tasks name T r = r1 ++ set_sched t0 (es1 ++ es2) :: r2)).
    { intros Hn. destruct IH as [[H1 H2]|[r1 [t0 [r2 [es1 [e [es2 [H1 [H2 [H3 [H4 [H5 [H6 [H7 H8]]]]]]]]]]]]]].
      - left. rewrite H1. split; auto. intros t0 [<-|Hin]; auto.
      - right. exists (t :: r1), t0, r2, es1, e, es2. subst r. rewrite H8. repeat split; auto.
        intros t' [<-|Hin]; auto. }
    destruct (t_own t) eqn:Eo; simpl.
    + destruct (Nat.eqb name (t_name t)) eqn:En; simpl.
      * apply Nat.eqb_eq in En. destruct (remove_time T (sched_of t)) as [es'|] eqn:Er.
        -- right. destruct (remove_time_some _ _ _ Er) as [es1 [e [es2 [H1 [H2 [H3 H4]]]]]].
           exists [], t, r, es1, e, es2. subst es'. repeat split; auto. intros t' [].
        -- apply Hskip. intros _ _. apply (remove_time_none _ _ Er).
      * apply Hskip. intros _ Hn. apply Nat.eqb_neq in En. congruence.
    + apply Hskip. intros Ho. congruence.
Qed.

Lemma post_send_not_oneshot reg p : pure_oneshot p = false -> post_send reg p = reg.
Proof. unfold pure_oneshot, post_send. destruct (p_cron p), (p_time p); simpl; intros; try reflexivity; discriminate. Qed.

(* ------------------------------------------------------------------ firing sequences *)
Inductive Sub {A : Type} : list A -> list A -> Prop :=
| Sub_nil : Sub [] []
| Sub_skip x l1 l2 : Sub l1 l2 -> Sub l1 (x :: l2)
| Sub_keep x l1 l2 : Sub l1 l2 -> Sub (x :: l1) (x :: l2).

Lemma Sub_refl {A} (l : list A) : Sub l l.
Proof. induction l; [apply Sub_nil|apply Sub_keep; auto]. Qed.

Lemma Sub_trans {A} (a b c : list A) : Sub a b -> Sub b c -> Sub a c.
Proof.
  intros H1 H2. revert a H1. induction H2; intros a H1.
  - inversion H1; constructor.
  - constructor. auto.
  - inversion H1; subst.
    + constructor. apply IHSub. assumption.
    + apply Sub_keep. apply IHSub. assumption.
Qed.

Lemma Sub_length {A} (a b : list A) : Sub a b -> length a <= length b.
Proof. induction 1; simpl; lia. Qed.

Definition count_time (T : Z) (es : list entry) : nat := length (filter (has_time T) es).

Lemma remove_time_count T es es' T' : remove_time T es = Some es' ->
  count_time T' es' = count_time T' es - (if Z.eqb T T' then 1 else 0) /\ Sub es' es /\ S (length es') = length es.
Proof.
  revert es'. induction es as [|e r IH]; simpl; intros es' H; [discriminate|].
  destruct (Zopt_eqb (join (e_time e)) (Some T)) eqn:E.
  - inversion H; subst. unfold count_time. simpl. unfold has_time at 2.
    apply Zopt_eqb_eq in E. rewrite E. simpl. split; [|split; [apply Sub_skip; apply Sub_refl|reflexivity]].
    destruct (Z.eqb T T') eqn:E2; simpl; lia.
  - destruct (remove_time T r) as [r'|]; [|discriminate]. inversion H; subst.
    destruct (IH r' eq_refl) as [IH1 [IH2 IH3]]. unfold count_time in *. simpl.
    split; [|split; [apply Sub_keep; assumption|simpl; lia]].
    destruct (has_time T' e) eqn:Eh; simpl; [|assumption].
    rewrite IH1. destruct (Z.eqb T T') eqn:E2; [|lia].
    apply Z.eqb_eq in E2. subst T'. unfold has_time in Eh. congruence.
Qed.

Lemma remove_time_none_count T es : remove_time T es = None -> count_time T es = 0.
Proof.
  intros H. unfold count_time. induction es as [|e r IH]; simpl in *; auto.
  unfold has_time at 1. destruct (Zopt_eqb (join (e_time e)) (Some T)); [discriminate|].
  destruct (remove_time T r); [discriminate|]. auto.
Qed.

(* what one post_send does to one task, when task names are unique *)
Definition step_task (name : nat) (T : Z) (t : task) : task :=
  if t_own t && Nat.eqb name (t_name t) then
    match remove_time T (sched_of t) with Some es' => set_sched t es' | None => t end
  else t.

Lemma set_sched_name t es : t_name (set_sched t es) = t_name t.
Proof. unfold set_sched. destruct (t_sched t); reflexivity. Qed.

Lemma step_task_name name T t : t_name (step_task name T t) = t_name t.
Proof. unfold step_task. destruct (t_own t && Nat.eqb name (t_name t)); auto. destruct (remove_time T (sched_of t)); auto using set_sched_name. Qed.

Lemma step_task_other name T r : ~ In name (map t_name r) -> map (step_task name T) r = r.
Proof.
  induction r as [|t r IH]; simpl; intros H; auto.
  rewrite IH by tauto. unfold step_task. destruct (Nat.eqb name (t_name t)) eqn:E.
  - apply Nat.eqb_eq in E. exfalso. apply H. left. auto.
  - rewrite andb_false_r. reflexivity.
Qed.

Lemma post_send_tasks_map name T reg : NoDup (map t_name reg) -> post_send_tasks name T reg = map (step_task name T) reg.
Proof.
  induction reg as [|t r IH]; simpl; intros H; auto.
  inversion H as [|x l Hnin Hnd]; subst. specialize (IH Hnd). unfold step_task at 1.
  destruct (t_own t) eqn:Eo; simpl.
  - destruct (Nat.eqb name (t_name t)) eqn:En; simpl.
    + destruct (remove_time T (sched_of t)) eqn:Er.
      * apply Nat.eqb_eq in En. subst name. rewrite step_task_other by assumption. reflexivity.
      * rewrite IH. reflexivity.
    + rewrite IH. reflexivity.
  - rewrite IH. reflexivity.
Qed.

Definition step_payload (t : task) (p : payload) : task :=
  match p_cron p, p_time p with
  | None, Some T => step_task (p_task p) T t
  | _, _ => t
  end.

Lemma step_payload_name t p : t_name (step_payload t p) = t_name t.
Proof. unfold step_payload. destruct (p_cron p), (p_time p); auto using step_task_name. Qed.

Lemma post_send_map reg p : NoDup (map t_name reg) -> post_send reg p = map (fun t => step_payload t p) reg.
Proof.
  intros H. unfold post_send, step_payload. destruct (p_cron p), (p_time p); try (rewrite map_id; reflexivity).
  apply post_send_tasks_map. assumption.
Qed.

Lemma fire_all_map ps : forall reg, NoDup (map t_name reg) ->
  fold_left post_send ps reg = map (fun t => fold_left step_payload ps t) reg.
Proof.
  induction ps as [|p ps IH]; simpl; intros reg H.
  - rewrite map_id. reflexivity.
  - rewrite post_send_map by assumption. rewrite IH.
    + rewrite map_map. reflexivity.
    + rewrite map_map. erewrite map_ext; [eassumption|]. intros t. apply step_payload_name.
Qed.

(* number of pure one-shot firings for (task name, time) in a firing sequence *)
Definition fires (ps : list payload) (name : nat) (T : Z) : nat :=
  length (filter (fun p => pure_oneshot p && Nat.eqb (p_task p) name && Zopt_eqb (p_time p) (Some T)) ps).

Definition same_but_sched (t t' : task) : Prop :=
  t_name t' = t_name t /\ t_own t' = t_own t /\ t_labels t' = t_labels t.

Lemma set_sched_same t es : same_but_sched t (set_sched t es).
Proof. unfold same_but_sched, set_sched. destruct (t_sched t); simpl; auto. Qed.

Lemma sched_of_set_sched t es : t_sched t <> None -> sched_of (set_sched t es) = es.
Proof. unfold sched_of, set_sched. destruct (t_sched t); simpl; congruence. Qed.

Lemma remove_some_has_sched T t es : remove_time T (sched_of t) = Some es -> t_sched t <> None.
Proof. unfold sched_of. destruct (t_sched t); simpl; congruence. Qed.

Lemma step_payload_spec t p :
  let t' := step_payload t p in
  same_but_sched t t' /\ (t_own t = false -> t' = t) /\ Sub (sched_of t') (sched_of t) /\
  (forall T, count_time T (sched_of t') =
             count_time T (sched_of t) - (if t_own t then fires [p] (t_name t) T else 0)).
Proof.
  unfold step_payload, fires, pure_oneshot. simpl.
  destruct (p_cron p) as [c|] eqn:Ec; simpl.
  { unfold same_but_sched. repeat split; auto using Sub_refl. intros T. destruct (t_own t); simpl; lia. }
  destruct (p_time p) as [T0|] eqn:Et; simpl.
  2:{ unfold same_but_sched. repeat split; auto using Sub_refl. intros T. destruct (t_own t); simpl; lia. }
  unfold step_task. destruct (t_own t) eqn:Eo; simpl.
  2:{ unfold same_but_sched. repeat split; auto using Sub_refl. intros T. lia. }
  destruct (Nat.eqb (p_task p) (t_name t)) eqn:En; simpl.
  2:{ unfold same_but_sched. repeat split; auto using Sub_refl; try congruence. intros T. lia. }
  destruct (remove_time T0 (sched_of t)) as [es'|] eqn:Er.
  - pose proof (remove_some_has_sched _ _ _ Er) as Hs. rewrite (sched_of_set_sched t es' Hs).
    split; [apply set_sched_same|]. split; [congruence|].
    destruct (remove_time_count T0 _ _ T0 Er) as [_ [Hsub _]]. split; [assumption|].
    intros T. destruct (remove_time_count T0 _ _ T Er) as [Hc _]. rewrite Hc.
    destruct (Z.eqb T0 T) eqn:E2; simpl; auto.
  - unfold same_but_sched. repeat split; auto using Sub_refl; try congruence.
    intros T. destruct (Z.eqb T0 T) eqn:E2; simpl; try lia.
    apply Z.eqb_eq in E2. subst T. rewrite (remove_time_none_count _ _ Er). reflexivity.
Qed.

(* the invariant of a whole firing sequence, per task *)
Lemma fire_task_spec ps : forall t,
  let t' := fold_left step_payload ps t in
  same_but_sched t t' /\ (t_own t = false -> t' = t) /\ Sub (sched_of t') (sched_of t) /\
  (forall T, count_time T (sched_of t') = count_time T (sched_of t) - (if t_own t then fires ps (t_name t) T else 0)).
Proof.
  induction ps as [|p ps IH]; simpl; intros t.
  - unfold same_but_sched. repeat split; auto using Sub_refl. intros T. destruct (t_own t); unfold fires; simpl; lia.
  - destruct (step_payload_spec t p) as [[Hn [Ho Hl]] [Hf [Hs Hc]]].
    destruct (IH (step_payload t p)) as [[Hn' [Ho' Hl']] [Hf' [Hs' Hc']]].
    split; [unfold same_but_sched; repeat split; congruence|].
    split; [intros Hown; rewrite Hf' by congruence; auto|].
    split; [eapply Sub_trans; eassumption|].
    intros T. rewrite Hc', Hc, Ho, Hn. destruct (t_own t); [|lia].
    unfold fires. simpl.
    destruct (pure_oneshot p && Nat.eqb (p_task p) (t_name t) && Zopt_eqb (p_time p) (Some T)); simpl; lia.
Qed.

Lemma post_send_one reg p T : p_cron p = None -> p_time p = Some T ->
  (post_send reg p = reg /\ forall t, In t reg -> no_match (p_task p) T t) \/
  (exists r1 t r2 es1 e es2,
      reg = r1 ++ t :: r2 /\ t_own t = true /\ t_name t = p_task p /\ sched_of t = es1 ++ e :: es2 /\
      join (e_time e) = Some T /\ (forall e', In e' es1 -> join (e_time e') <> Some T) /\
      (forall t', In t' r1 -> no_match (p_task p) T t') /\
      post_send reg p = r1 ++ set_sched t (es1 ++ es2) :: r2).
Proof. intros Hc Ht. unfold post_send. rewrite Hc, Ht. apply post_send_tasks_spec. Qed.

Lemma fire_all_spec reg ps : NoDup (map t_name reg) ->
  exists f, fold_left post_send ps reg = map f reg /\
    forall t, same_but_sched t (f t) /\ (t_own t = false -> f t = t) /\ Sub (sched_of (f t)) (sched_of t) /\
      (forall T, count_time T (sched_of (f t)) = count_time T (sched_of t) - (if t_own t then fires ps (t_name t) T else 0)).
Proof.
  intros H. exists (fun t => fold_left step_payload ps t). split; [apply fire_all_map; assumption|].
  intros t. apply fire_task_spec.
Qed.

(* get_all_tasks: every visible task is a registered one; names of the view are unique when both registries' are *)
Lemma upd_in {V} (d : list (nat * V)) k v x : In x (upd d k v) -> In x d \/ x = (k, v).
Proof.
  induction d as [|[k' v'] t IH]; simpl.
  - intros [<-|[]]. auto.
  - destruct (Nat.eqb k' k) eqn:E; simpl.
    + apply Nat.eqb_eq in E. subst. intros [<-|H]; auto.
    + intros [<-|H]; auto. destruct (IH H); auto.
Qed.

Lemma update_all_in {V} (u d : list (nat * V)) x : In x (update_all d u) -> In x d \/ In x u.
Proof.
  unfold update_all. revert d. induction u as [|[k v] u IH]; simpl; intros d H; auto.
  destruct (IH _ H) as [H1|H1]; auto. destruct (upd_in _ _ _ _ H1) as [H2|H2]; auto.
Qed.

Lemma all_tasks_in g l t : In t (all_tasks g l) -> In t g \/ In t l.
Proof.
  unfold all_tasks. intros H. apply in_map_iff in H. destruct H as [[k t'] [<- H]].
  destruct (update_all_in _ _ _ H) as [H1|H1]; apply in_map_iff in H1; destruct H1 as [t0 [E Hin]];
    inversion E; subst; auto.
Qed.
