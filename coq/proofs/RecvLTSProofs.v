(* Invariants of the receiver LTS, proved for every trace the LTS accepts (both variants of the
   prefetcher where the statement does not depend on the D1 repair). *)
From Coq Require Import List Arith Bool Lia Permutation.
Import ListNotations.
From TQ Require Import RecvLTS.

Ltac brk Hs :=
  repeat (match type of Hs with context [match ?x with _ => _ end] => destruct x eqn:? end; try discriminate).

(* after [brk]: turn the equation into the successor state and expose its fields *)
Ltac stepcases Hs :=
  unfold step, gstep in Hs; brk Hs; inversion Hs; subst; clear Hs;
  cbn [sem semp queue pf look fetched rn live ending fin taken started finished lost tas timedout why ret
       set_sem set_semp set_queue set_pf set_look set_fetched set_rn set_live set_ending set_fin set_taken
       set_started set_finished set_lost set_tas set_timedout set_why set_ret] in *.

Ltac rw_fields :=
  repeat match goal with
         | H : pf _ = _ |- _ => rewrite H in *; clear H
         | H : rn _ = _ |- _ => rewrite H in *; clear H
         | H : queue _ = _ |- _ => rewrite H in *; clear H
         | H : semp _ = _ |- _ => rewrite H in *; clear H
         | H : sem _ = _ |- _ => rewrite H in *; clear H
         | H : look _ = _ |- _ => rewrite H in *; clear H
         end.

Lemma remove1_len x l : mem x l = true -> S (length (remove1 x l)) = length l.
Proof. induction l as [|y t IH]; simpl; [discriminate|]. destruct (Nat.eqb x y); simpl; auto. Qed.

Lemma qids_app q i : qids (q ++ [i]) = qids q ++ match i with IMsg id => [id] | IDone => [] end.
Proof. induction q as [|j q IH]; simpl; [destruct i; reflexivity|]. destruct j; simpl; rewrite IH; reflexivity. Qed.
Lemma nmsgs_app q i : nmsgs (q ++ [i]) = nmsgs q + match i with IMsg _ => 1 | IDone => 0 end.
Proof. unfold nmsgs. rewrite qids_app, app_length. destruct i; simpl; lia. Qed.
Lemma nmsgs_cons i q : nmsgs (i :: q) = match i with IMsg _ => 1 | IDone => 0 end + nmsgs q.
Proof. unfold nmsgs. destruct i; reflexivity. Qed.

Lemma limited_some c : limited c = true -> exists a, cA c = Some (S a).
Proof. unfold limited. destruct (cA c) as [[|a]|]; try discriminate. eauto. Qed.
Lemma limited_pos c a : cA c = Some a -> 0 < a -> limited c = true.
Proof. unfold limited. intros ->. destruct a; [lia|reflexivity]. Qed.

(* ------------------------------------------------------------------ slot conservation *)
Definition InvSlots (c : cfg) (s : st) : Prop :=
  limited c = true -> sem s + busy s + holds_slot (rn s) = slots c.

Lemma gstep_slots d c s e s' : InvSlots c s -> gstep d c s e = Some s' -> InvSlots c s'.
Proof.
  unfold InvSlots, busy. intros H Hs L. specialize (H L).
  stepcases Hs; rw_fields; cbn [holds_slot length] in *; try rewrite L in *; try discriminate; try lia.
  - apply remove1_len in Heqb. lia.
  - apply andb_prop in Heqb as [Hm _]. apply remove1_len in Hm. lia.
Qed.

(* ------------------------------------------------------------------ prefetch permits *)
Definition InvQ (c : cfg) (s : st) : Prop :=
  match pf s with
  | PFExit | PFDone => nmsgs (queue s) <= cP c + holds_slot (rn s)
  | _ => semp s + holds_permit (pf s) + nmsgs (queue s) = cP c + holds_slot (rn s)
  end.

Lemma gstep_q d c s e s' : InvQ c s -> gstep d c s e = Some s' -> InvQ c s'.
Proof.
  unfold InvQ. intros H Hs.
  stepcases Hs; rw_fields; rewrite ?nmsgs_app, ?nmsgs_cons in *; cbn [holds_permit holds_slot] in *;
    try (destruct (pf s) eqn:?); try (destruct (rn s) eqn:?); cbn [holds_permit holds_slot] in *; try lia.
Qed.

Lemma init_slots c : InvSlots c (init c).
Proof. unfold InvSlots, init, busy. simpl. lia. Qed.
Lemma init_q c : InvQ c (init c).
Proof. unfold InvQ, init. simpl. unfold nmsgs. simpl. lia. Qed.

(* generic lifting of a step-preserved invariant to all accepted traces *)
Lemma grun_inv d c (I : st -> Prop) :
  (forall s e s', I s -> gstep d c s e = Some s' -> I s') ->
  forall tr s s', I s -> grun d c s tr = Some s' -> I s'.
Proof.
  intros Hstep. induction tr as [|e t IH]; simpl; intros s s' Hi Hr.
  - inversion Hr; subst; auto.
  - destruct (gstep d c s e) eqn:Hs; [|discriminate]. eapply IH; [eapply Hstep; eauto | exact Hr].
Qed.

Lemma reach_slots d c tr s : grun d c (init c) tr = Some s -> InvSlots c s.
Proof. apply (grun_inv d c (InvSlots c)); [apply gstep_slots | apply init_slots]. Qed.
Lemma reach_q d c tr s : grun d c (init c) tr = Some s -> InvQ c s.
Proof. apply (grun_inv d c (InvQ c)); [apply gstep_q | apply init_q]. Qed.

Lemma bound_of_inv c a s : cA c = Some a -> 0 < a -> InvSlots c s -> InvQ c s -> unfinished s <= a + cP c + 1.
Proof.
  unfold InvSlots, InvQ, unfinished. intros Ha Hp H1 H2. specialize (H1 (limited_pos _ _ Ha Hp)).
  unfold slots in H1. rewrite Ha in H1.
  destruct (pf s); destruct (rn s); cbn [holds_permit holds_slot] in *; destruct (look s); cbn [la_n la_ids length]; lia.
Qed.

Theorem C04_bound_g d c a tr s :
  cA c = Some a -> 0 < a -> grun d c (init c) tr = Some s -> unfinished s <= a + cP c + 1.
Proof. intros Ha Hp Hr. eapply bound_of_inv; eauto using reach_slots, reach_q. Qed.

(* ------------------------------------------------------------------ Boolean forms *)
Lemma scan_all c chk (I : st -> Prop) : (forall s, I s -> chk s = true) ->
  (forall s e s', I s -> step c s e = Some s' -> I s') ->
  forall tr s, I s -> grun false c s tr <> None -> scan c chk s tr = true.
Proof.
  intros Hc Hs. induction tr as [|e t IH]; intros s Hi Hr; simpl.
  - rewrite (Hc s Hi). reflexivity.
  - rewrite (Hc s Hi). simpl in Hr. unfold step in *. destruct (gstep false c s e) eqn:E; [|congruence].
    apply IH; [eapply Hs; eauto | exact Hr].
Qed.

Lemma C04_check_spec c a s : cA c = Some a -> 0 < a -> (C04_check c s = true <-> unfinished s <= a + cP c + 1).
Proof.
  unfold C04_check. intros -> Hp. destruct a; [lia|]. rewrite Nat.leb_le. reflexivity.
Qed.

Lemma C04_scan_true c tr : run c (init c) tr <> None -> scan c (C04_check c) (init c) tr = true.
Proof.
  intros Hr. apply (scan_all c (C04_check c) (fun s => InvSlots c s /\ InvQ c s)); auto.
  - intros s [H1 H2]. unfold C04_check. destruct (cA c) as [[|a]|] eqn:Ha; auto.
    apply Nat.leb_le. eapply bound_of_inv; eauto. lia.
  - intros s e s' [H1 H2] Hs. split; [eapply gstep_slots | eapply gstep_q]; eauto.
  - split; [apply init_slots | apply init_q].
Qed.
