(* Hooks: which fire, in which order, with which message / result (C10), and what is saved (C07). *)
From Coq Require Import List Arith Bool ZArith Lia.
From TQ Require Import Base BaseProofs Pipeline PipelineProofs.
Import ListNotations.

(* ------------------------------------------------------------------------------------------ overridden *)
Lemma overridden_ge : forall {F} (sel : mw -> option F) st i j, In j (overridden sel i st) -> i <= j.
Proof.
  intros F sel st. induction st as [|w st IH]; intros i j H; simpl in H; [contradiction|].
  destruct (sel w); [destruct H as [<-|H]; [lia|]|]; apply IH in H; lia.
Qed.

Lemma overridden_increasing : forall {F} (sel : mw -> option F) st i, increasing (overridden sel i st) = true.
Proof.
  intros F sel st. induction st as [|w st IH]; intros i; simpl; [reflexivity|].
  destruct (sel w); [|apply IH].
  specialize (IH (S i)). destruct (overridden sel (S i) st) as [|b t] eqn:E; [reflexivity|].
  apply andb_true_iff. split; [|assumption].
  apply Nat.ltb_lt. assert (In b (overridden sel (S i) st)) by (rewrite E; left; reflexivity).
  apply overridden_ge in H. lia.
Qed.

(* exactly the middlewares whose class overrides the hook *)
Lemma overridden_spec : forall {F} (sel : mw -> option F) st i j,
  In j (overridden sel i st) <-> exists w, nth_error st (j - i) = Some w /\ sel w <> None /\ i <= j.
Proof.
  intros F sel st. induction st as [|w st IH]; intros i j; simpl.
  - split; [contradiction|]. intros (w & H & _). destruct (j - i); discriminate.
  - destruct (sel w) as [f|] eqn:E.
    + split.
      * intros [<-|H]; [exists w; rewrite Nat.sub_diag; simpl; repeat split; [congruence|lia]|].
        apply IH in H. destruct H as (w' & H1 & H2 & H3). exists w'.
        replace (j - i) with (S (j - S i)) by lia. simpl. repeat split; [assumption|assumption|lia].
      * intros (w' & H1 & H2 & H3). destruct (Nat.eq_dec i j) as [->|N]; [left; reflexivity|right].
        apply IH. exists w'. replace (j - i) with (S (j - S i)) in H1 by lia. simpl in H1.
        repeat split; [assumption|assumption|lia].
    + split.
      * intros H. apply IH in H. destruct H as (w' & H1 & H2 & H3). exists w'.
        replace (j - i) with (S (j - S i)) by lia. simpl. repeat split; [assumption|assumption|lia].
      * intros (w' & H1 & H2 & H3). destruct (Nat.eq_dec i j) as [->|N].
        -- rewrite Nat.sub_diag in H1. simpl in H1. injection H1 as <-. congruence.
        -- apply IH. exists w'. replace (j - i) with (S (j - S i)) in H1 by lia. simpl in H1.
           repeat split; [assumption|assumption|lia].
Qed.

Lemma increasing_nodup : forall l, increasing l = true -> NoDup l.
Proof.
  assert (G : forall l, increasing l = true -> forall a, In a (tl l) -> hd 0 l < a).
  { induction l as [|x [|y t] IH]; simpl; intros H a Ha; try contradiction.
    apply andb_true_iff in H. destruct H as [H1 H2]. apply Nat.ltb_lt in H1.
    destruct Ha as [<-|Ha]; [assumption|]. specialize (IH H2 a Ha). simpl in IH. lia. }
  induction l as [|x t IH]; intros H; constructor.
  - intros Hin. specialize (G _ H x Hin). simpl in G. lia.
  - apply IH. destruct t as [|y t']; [reflexivity|]. simpl in H. apply andb_true_iff in H. tauto.
Qed.

(* ------------------------------------------------------------------------------------------ loops, total hooks *)
Lemma fold_hook_cons : forall {X} (sel : mw -> option (X -> option X)) w st x,
  fold_hook sel (w :: st) x =
  fold_hook sel st (match sel w with Some f => match f x with Some y => y | None => x end | None => x end).
Proof. reflexivity. Qed.

Lemma msg_loop_snd : forall k sel st i m, total_hook sel st ->
  snd (msg_hook_loop k sel i st m) = Ok (fold_hook sel st m).
Proof.
  intros k sel st. induction st as [|w st IH]; intros i m H; [reflexivity|].
  cbn [msg_hook_loop]. rewrite fold_hook_cons. inversion H as [|? ? Hw Hst]; subst.
  destruct (sel w) as [f|]; [|apply IH; assumption].
  rewrite snd_bind. cbn [emit snd]. rewrite snd_bind.
  destruct (f m) as [m'|] eqn:E; [|exfalso; eapply Hw; eauto]. cbn [ret snd]. apply IH. assumption.
Qed.

Lemma res_loop_snd : forall k sel x st i m r, total_hook sel st ->
  snd (res_hook_loop k sel x i st m r) = Ok (fold_hook sel st r).
Proof.
  intros k sel x st. induction st as [|w st IH]; intros i m r H; [reflexivity|].
  cbn [res_hook_loop]. rewrite fold_hook_cons. inversion H as [|? ? Hw Hst]; subst.
  destruct (sel w) as [f|]; [|apply IH; assumption].
  rewrite snd_bind. cbn [emit snd]. rewrite snd_bind.
  destruct (f r) as [r'|] eqn:E; [|exfalso; eapply Hw; eauto]. cbn [ret snd]. apply IH. assumption.
Qed.

(* the i-th overridden hook receives what the hooks before it made of the message *)
Lemma msg_loop_fst : forall k sel st i m, total_hook sel st ->
  fst (msg_hook_loop k sel i st m) =
  map (fun j => FHookM k j (fold_hook sel (firstn (j - i) st) m)) (overridden sel i st).
Proof.
  intros k sel st. induction st as [|w st IH]; intros i m H; [reflexivity|].
  cbn [msg_hook_loop overridden]. inversion H as [|? ? Hw Hst]; subst.
  destruct (sel w) as [f|] eqn:E.
  - rewrite fst_bind. cbn [emit fst snd]. rewrite fst_bind.
    destruct (f m) as [m'|] eqn:Ef; [|exfalso; eapply Hw; eauto]. cbn [ret fst snd app map].
    rewrite Nat.sub_diag. cbn [firstn]. f_equal. rewrite IH by assumption.
    apply map_ext_in. intros j Hj. apply overridden_ge in Hj.
    replace (j - i) with (S (j - S i)) by lia. cbn [firstn]. rewrite fold_hook_cons, E, Ef. reflexivity.
  - rewrite IH by assumption. apply map_ext_in. intros j Hj. apply overridden_ge in Hj.
    replace (j - i) with (S (j - S i)) by lia. cbn [firstn]. rewrite fold_hook_cons, E. reflexivity.
Qed.

Lemma res_loop_fst : forall k sel x st i m r, total_hook sel st ->
  fst (res_hook_loop k sel x i st m r) =
  map (fun j => FHookR k j m (fold_hook sel (firstn (j - i) st) r) x) (overridden sel i st).
Proof.
  intros k sel x st. induction st as [|w st IH]; intros i m r H; [reflexivity|].
  cbn [res_hook_loop overridden]. inversion H as [|? ? Hw Hst]; subst.
  destruct (sel w) as [f|] eqn:E.
  - rewrite fst_bind. cbn [emit fst snd]. rewrite fst_bind.
    destruct (f r) as [r'|] eqn:Ef; [|exfalso; eapply Hw; eauto]. cbn [ret fst snd app map].
    rewrite Nat.sub_diag. cbn [firstn]. f_equal. rewrite IH by assumption.
    apply map_ext_in. intros j Hj. apply overridden_ge in Hj.
    replace (j - i) with (S (j - S i)) by lia. cbn [firstn]. rewrite fold_hook_cons, E, Ef. reflexivity.
  - rewrite IH by assumption. apply map_ext_in. intros j Hj. apply overridden_ge in Hj.
    replace (j - i) with (S (j - S i)) by lia. cbn [firstn]. rewrite fold_hook_cons, E. reflexivity.
Qed.

Lemma unit_loop_fst : forall k st i m, total_post_send st ->
  fst (unit_hook_loop k h_post_send i st m) = map (fun j => FHookM k j m) (overridden h_post_send i st).
Proof.
  intros k st. induction st as [|w st IH]; intros i m H; [reflexivity|].
  cbn [unit_hook_loop overridden]. inversion H as [|? ? Hw Hst]; subst.
  destruct (h_post_send w) as [f|] eqn:E; [|apply IH; assumption].
  rewrite fst_bind. cbn [emit fst snd]. rewrite fst_bind, Hw. cbn [ret fst snd app map]. f_equal. apply IH. assumption.
Qed.

(* ------------------------------------------------------------------------------------------ C10 send side *)
Definition sent_msg (st : list mw) (m0 : msg) : msg := fold_hook h_pre_send st m0.
Definition pre_send_events (st : list mw) (m0 : msg) : list eff :=
  map (fun j => FHookM HPreSend j (fold_hook h_pre_send (firstn j st) m0)) (overridden h_pre_send 0 st).
Definition post_send_events (st : list mw) (m0 : msg) : list eff :=
  map (fun j => FHookM HPostSend j (sent_msg st m0)) (overridden h_post_send 0 st).

Theorem kiq_order : forall st m0 k, total_hook h_pre_send st -> total_post_send st ->
  kiq st m0 k =
  pre_send_events st m0 ++
  match k with
  | KickOk => [FDumps (sent_msg st m0); FKick (sent_msg st m0)] ++ post_send_events st m0 ++ [FSent (m_id (sent_msg st m0))]
  | KickFail => [FDumps (sent_msg st m0); FKick (sent_msg st m0); FCrash XSend]
  | DumpsFail => [FDumps (sent_msg st m0); FCrash XSend]
  end.
Proof.
  intros st m0 k T1 T2. unfold kiq, kiq_m.
  pose proof (msg_loop_snd HPreSend h_pre_send st 0 m0 T1) as Hs.
  pose proof (msg_loop_fst HPreSend h_pre_send st 0 m0 T1) as Hf.
  destruct (msg_hook_loop HPreSend h_pre_send 0 st m0) as [es o]. simpl in Hs, Hf. subst o es.
  unfold pre_send_events, post_send_events, sent_msg.
  assert (Hm : forall l, map (fun j => FHookM HPreSend j (fold_hook h_pre_send (firstn (j - 0) st) m0)) l =
                         map (fun j => FHookM HPreSend j (fold_hook h_pre_send (firstn j st) m0)) l).
  { intros l. apply map_ext. intros j. rewrite Nat.sub_0_r. reflexivity. }
  rewrite Hm. set (m := fold_hook h_pre_send st m0).
  pose proof (unit_loop_total HPostSend st 0 m T2) as Us.
  pose proof (unit_loop_fst HPostSend st 0 m T2) as Uf.
  destruct k; cbn [bind catch emit raise fst snd app finish].
  - destruct (unit_hook_loop HPostSend h_post_send 0 st m) as [es o]. simpl in Us, Uf. subst o es.
    cbn [bind ret finish]. repeat rewrite <- app_assoc. simpl. repeat rewrite app_nil_r. reflexivity.
  - simpl. repeat rewrite <- app_assoc. reflexivity.
  - simpl. repeat rewrite <- app_assoc. reflexivity.
Qed.

Lemma hook_indices_app : forall k a b, hook_indices k (a ++ b) = hook_indices k a ++ hook_indices k b.
Proof. intros. unfold hook_indices. rewrite filter_app, map_app. reflexivity. Qed.

Lemma hook_indices_mapM : forall k' k (g : nat -> msg) l,
  hook_indices k' (map (fun j => FHookM k j (g j)) l) = if hookk_eqb k' k then l else [].
Proof.
  intros k' k g l. unfold hook_indices. induction l as [|j l IH]; simpl; [destruct (hookk_eqb k' k); reflexivity|].
  destruct (hookk_eqb k' k) eqn:E; simpl; rewrite IH; reflexivity.
Qed.

Lemma hook_indices_mapR : forall k' k m (g : nat -> res) x l,
  hook_indices k' (map (fun j => FHookR k j m (g j) x) l) = if hookk_eqb k' k then l else [].
Proof.
  intros k' k m g x l. unfold hook_indices. induction l as [|j l IH]; simpl; [destruct (hookk_eqb k' k); reflexivity|].
  destruct (hookk_eqb k' k) eqn:E; simpl; rewrite IH; reflexivity.
Qed.

Lemma last_app_nonempty : forall (l t : list eff) d, t <> [] -> last (l ++ t) d = last t d.
Proof.
  induction l as [|a l IH]; intros t d H; [reflexivity|]. simpl.
  destruct (l ++ t) eqn:E; [apply app_eq_nil in E; destruct E; contradiction|]. rewrite <- E. apply IH. assumption.
Qed.

(* C10_send_order, failing send: no post_send, SendTaskError *)
Corollary kiq_failed_send : forall st m0 k, total_hook h_pre_send st -> total_post_send st -> k <> KickOk ->
  hook_indices HPostSend (kiq st m0 k) = [] /\ last (kiq st m0 k) FDone = FCrash XSend /\
  countb (fun e => match e with FSent _ => true | _ => false end) (kiq st m0 k) = 0.
Proof.
  intros st m0 k T1 T2 Hk. rewrite (kiq_order st m0 k T1 T2). unfold pre_send_events.
  rewrite hook_indices_app, hook_indices_mapM, countb_app. simpl.
  assert (Hc : forall g l, countb (fun e => match e with FSent _ => true | _ => false end)
                                  (map (fun j => FHookM HPreSend j (g j)) l) = 0).
  { intros g l. unfold countb. induction l; simpl; auto. }
  rewrite Hc. destruct k; [congruence| |]; (split; [reflexivity|split; [|reflexivity]]);
    rewrite last_app_nonempty by discriminate; reflexivity.
Qed.

Corollary kiq_hooks_once : forall st m0, total_hook h_pre_send st -> total_post_send st ->
  hook_indices HPreSend (kiq st m0 KickOk) = overridden h_pre_send 0 st /\
  hook_indices HPostSend (kiq st m0 KickOk) = overridden h_post_send 0 st.
Proof.
  intros st m0 T1 T2. rewrite (kiq_order st m0 KickOk T1 T2). unfold pre_send_events, post_send_events.
  rewrite !hook_indices_app, !hook_indices_mapM. unfold hook_indices. simpl.
  rewrite !app_nil_r. split; reflexivity.
Qed.

(* ------------------------------------------------------------------------------------------ receive side, explicit *)
(* all hooks total (post_save included): the run is this list, and nothing else *)
Definition wf_strict (c : pcfg) : Prop := wf_recv c /\ total_hook h_post_save (c_stack c).

Definition run_msg (c : pcfg) : msg := fold_hook h_pre_exec (c_stack c) (c_msg c).
Definition found (c : pcfg) : bout := snd (try_block c (run_msg c)).        (* returned / found_exception *)
Definition res1 (c : pcfg) : res :=                                          (* what run_task returns *)
  let r := raw_res (run_msg c) (found c) in
  if is_raise (found c) then fold_hook h_on_error (c_stack c) r else r.
Definition res2 (c : pcfg) : res := fold_hook h_post_exec (c_stack c) (res1 c).   (* what is saved *)

Definition ev_pre (c : pcfg) : list eff :=
  map (fun j => FHookM HPreExec j (fold_hook h_pre_exec (firstn j (c_stack c)) (c_msg c))) (overridden h_pre_exec 0 (c_stack c)).
Definition ev_on_error (c : pcfg) : list eff :=
  match found c with
  | BRaise e => map (fun j => FHookR HOnError j (run_msg c)
                                (fold_hook h_on_error (firstn j (c_stack c)) (raw_res (run_msg c) (found c))) (Some e))
                    (overridden h_on_error 0 (c_stack c))
  | BRet _ => []
  end.
Definition ev_dep_close (c : pcfg) : list eff :=
  if is_opened (c_dep c) then (if is_raise (found c) && c_prop c then [FDepSaw] else []) ++ [FDepClose] else [].
Definition ev_post_exec (c : pcfg) : list eff :=
  map (fun j => FHookR HPostExec j (run_msg c) (fold_hook h_post_exec (firstn j (c_stack c)) (res1 c)) None)
      (overridden h_post_exec 0 (c_stack c)).
Definition ev_post_save (c : pcfg) : list eff :=
  map (fun j => FHookR HPostSave j (run_msg c) (fold_hook h_post_save (firstn j (c_stack c)) (res2 c)) None)
      (overridden h_post_save 0 (c_stack c)).
Definition ev_save (c : pcfg) : list eff :=
  if is_nores (res2 c) then [FSaveSkip]
  else FSaveBegin (m_id (run_msg c)) (res2 c) :: (if c_save_ok c then FSaveOk :: ev_post_save c else [FSaveErr]).

Lemma mapM_sub0 : forall k (sel : mw -> option (msg -> option msg)) st m l,
  map (fun j => FHookM k j (fold_hook sel (firstn (j - 0) st) m)) l = map (fun j => FHookM k j (fold_hook sel (firstn j st) m)) l.
Proof. intros. apply map_ext. intros j. rewrite Nat.sub_0_r. reflexivity. Qed.
Lemma mapR_sub0 : forall k (sel : mw -> option (res -> option res)) st m r x l,
  map (fun j => FHookR k j m (fold_hook sel (firstn (j - 0) st) r) x) l =
  map (fun j => FHookR k j m (fold_hook sel (firstn j st) r) x) l.
Proof. intros. apply map_ext. intros j. rewrite Nat.sub_0_r. reflexivity. Qed.

Lemma save_block_fst : forall c r, c_raise_err c = false -> total_hook h_post_save (c_stack c) ->
  fst (save_block c (run_msg c) r) =
  if is_nores r then [FSaveSkip]
  else FSaveBegin (m_id (run_msg c)) r ::
       (if c_save_ok c then FSaveOk :: map (fun j => FHookR HPostSave j (run_msg c)
                                                   (fold_hook h_post_save (firstn j (c_stack c)) r) None)
                                            (overridden h_post_save 0 (c_stack c))
        else [FSaveErr]).
Proof.
  intros c r R T. unfold save_block. rewrite fst_catch. destruct (is_nores r); [reflexivity|].
  pose proof (res_loop_snd HPostSave h_post_save None (c_stack c) 0 (run_msg c) r T) as Hs.
  pose proof (res_loop_fst HPostSave h_post_save None (c_stack c) 0 (run_msg c) r T) as Hf.
  rewrite mapR_sub0 in Hf.
  destruct (res_hook_loop HPostSave h_post_save None 0 (c_stack c) (run_msg c) r) as [es o]. simpl in Hs, Hf. subst o es.
  destruct (c_save_ok c); simpl; rewrite ?R; simpl; rewrite ?app_nil_r; reflexivity.
Qed.

Theorem callback_explicit : forall c, wf_strict c ->
  callback c =
    ev_pre c ++ acks c AckReceived ++
    (FExecBegin :: fst (try_block c (run_msg c)) ++ FExecEnd :: ev_dep_close c ++ ev_on_error c) ++
    acks c AckExecuted ++ ev_post_exec c ++ ev_save c ++ acks c AckSaved ++ [FDone].
Proof.
  intros c [W TS]. destruct (callback_complete c W) as (m & r & r' & H1 & H2 & H3 & E).
  destruct W as (K & R & G & T1 & T2 & T3).
  assert (Hm : m = run_msg c).
  { unfold pre in H1. rewrite (msg_loop_snd _ _ _ _ _ T1) in H1. injection H1 as <-. reflexivity. }
  subst m.
  assert (Hpre : fst (pre c) = ev_pre c).
  { unfold pre, ev_pre. rewrite (msg_loop_fst _ _ _ _ _ T1). apply mapM_sub0. }
  assert (Hrt : fst (run_task c (run_msg c)) =
                FExecBegin :: fst (try_block c (run_msg c)) ++ FExecEnd :: ev_dep_close c ++ ev_on_error c /\ r = res1 c).
  { rewrite run_task_snd in H2. rewrite run_task_fst. rewrite (closes_sync_genexit _ _ G) in *.
    unfold rt_rest in *. fold (found c) in *. rewrite fst_bind. rewrite snd_bind in H2.
    assert (Ew : snd (when (is_opened (c_dep c)) (when (is_raise (found c) && c_prop c) (emit FDepSaw);;; emit FDepClose)) = Ok tt).
    { unfold when. destruct (is_opened (c_dep c)); [|reflexivity]. rewrite snd_bind.
      destruct (is_raise (found c) && c_prop c); reflexivity. }
    assert (Fw : fst (when (is_opened (c_dep c)) (when (is_raise (found c) && c_prop c) (emit FDepSaw);;; emit FDepClose)) = ev_dep_close c).
    { unfold when, ev_dep_close. destruct (is_opened (c_dep c)); [|reflexivity]. rewrite fst_bind.
      destruct (is_raise (found c) && c_prop c); reflexivity. }
    rewrite Ew in *. rewrite Fw. unfold ev_on_error, res1. destruct (found c) as [v|e] eqn:F.
    - simpl in *. injection H2 as <-. split; reflexivity.
    - simpl is_raise. cbv iota.
      rewrite (res_loop_snd _ _ _ _ _ _ _ T2) in H2. injection H2 as <-.
      rewrite (res_loop_fst _ _ _ _ _ _ _ T2).
      rewrite mapR_sub0.
      split; reflexivity. }
  destruct Hrt as [Hrt ->].
  assert (Hpe : fst (pe c (run_msg c) (res1 c)) = ev_post_exec c /\ r' = res2 c).
  { unfold pe in *. rewrite (res_loop_snd _ _ _ _ _ _ _ T3) in H3. injection H3 as <-.
    rewrite (res_loop_fst _ _ _ _ _ _ _ T3). split; [apply mapR_sub0|reflexivity]. }
  destruct Hpe as [Hpe ->].
  rewrite E, Hpre, Hrt, Hpe, (save_block_fst c (res2 c) R TS). reflexivity.
Qed.

(* ------------------------------------------------------------------------------------------ C10_once *)
Definition nohook (e : eff) : Prop := forall k, is_hook k e = false.

Lemma hook_indices_nohook : forall k l, Forall nohook l -> hook_indices k l = [].
Proof.
  intros k l H. unfold hook_indices. induction H as [|e l He _ IH]; [reflexivity|]. simpl. rewrite (He k). assumption.
Qed.

Lemma acks_nohook : forall c a, Forall nohook (acks c a).
Proof. intros. rewrite acks_cases. destruct (_ && _); repeat constructor. Qed.

Lemma try_block_nohook : forall c m, Forall nohook (fst (try_block c m)).
Proof.
  intros c m. unfold try_block. destruct (c_dep c); destruct (body_run c m); simpl; repeat constructor.
Qed.

Lemma dep_close_nohook : forall c, Forall nohook (ev_dep_close c).
Proof.
  intros c. unfold ev_dep_close. destruct (is_opened (c_dep c)); [|constructor].
  destruct (is_raise (found c) && c_prop c); repeat constructor.
Qed.

(* every overridden hook of every middleware exactly once (registration order), non-overridden never;
   on_error iff the execution raised; post_save iff a result was stored *)
Theorem callback_hooks : forall c, wf_strict c ->
  hook_indices HPreExec (callback c) = overridden h_pre_exec 0 (c_stack c) /\
  hook_indices HOnError (callback c) = (if is_raise (found c) then overridden h_on_error 0 (c_stack c) else []) /\
  hook_indices HPostExec (callback c) = overridden h_post_exec 0 (c_stack c) /\
  hook_indices HPostSave (callback c) =
    (if negb (is_nores (res2 c)) && c_save_ok c then overridden h_post_save 0 (c_stack c) else []) /\
  hook_indices HPreSend (callback c) = [] /\ hook_indices HPostSend (callback c) = [].
Proof.
  intros c W. rewrite (callback_explicit c W).
  assert (Hs : forall k, hook_indices k (ev_save c) =
                         if negb (is_nores (res2 c)) && c_save_ok c
                         then (if hookk_eqb k HPostSave then overridden h_post_save 0 (c_stack c) else []) else []).
  { intros k. unfold ev_save. destruct (is_nores (res2 c)); [reflexivity|]. destruct (c_save_ok c); [|reflexivity].
    change (FSaveBegin (m_id (run_msg c)) (res2 c) :: FSaveOk :: ev_post_save c)
      with ([FSaveBegin (m_id (run_msg c)) (res2 c); FSaveOk] ++ ev_post_save c).
    rewrite hook_indices_app. unfold ev_post_save. rewrite hook_indices_mapR. reflexivity. }
  assert (He : forall k, hook_indices k (ev_on_error c) =
                         if is_raise (found c) then (if hookk_eqb k HOnError then overridden h_on_error 0 (c_stack c) else []) else []).
  { intros k. unfold ev_on_error. destruct (found c); [reflexivity|]. rewrite hook_indices_mapR. reflexivity. }
  assert (Hall : forall k, hook_indices k
     (ev_pre c ++ acks c AckReceived ++
      (FExecBegin :: fst (try_block c (run_msg c)) ++ FExecEnd :: ev_dep_close c ++ ev_on_error c) ++
      acks c AckExecuted ++ ev_post_exec c ++ ev_save c ++ acks c AckSaved ++ [FDone]) =
     (if hookk_eqb k HPreExec then overridden h_pre_exec 0 (c_stack c) else []) ++
     hook_indices k (ev_on_error c) ++
     (if hookk_eqb k HPostExec then overridden h_post_exec 0 (c_stack c) else []) ++ hook_indices k (ev_save c)).
  { intros k.
    change (FExecBegin :: fst (try_block c (run_msg c)) ++ FExecEnd :: ev_dep_close c ++ ev_on_error c)
      with ([FExecBegin] ++ fst (try_block c (run_msg c)) ++ [FExecEnd] ++ ev_dep_close c ++ ev_on_error c).
    rewrite !hook_indices_app. unfold ev_pre, ev_post_exec. rewrite hook_indices_mapM, hook_indices_mapR.
    rewrite !(hook_indices_nohook k _ (acks_nohook c _)), (hook_indices_nohook k _ (try_block_nohook c _)),
            (hook_indices_nohook k _ (dep_close_nohook c)).
    unfold hook_indices at 1 2 4. simpl. rewrite !app_nil_r. reflexivity. }
  rewrite !Hall, !He, !Hs. simpl.
  destruct (is_raise (found c)); destruct (negb (is_nores (res2 c)) && c_save_ok c); simpl; rewrite ?app_nil_r;
    repeat split; reflexivity.
Qed.

(* ------------------------------------------------------------------------------------------ C07 *)
Lemma bs_no_phase : forall a p (f : eff -> bool) l lo hi, (forall e, f e = true -> phase a e = p) ->
  bs a lo hi l -> (hi < p \/ p < lo) -> countb f l = 0.
Proof.
  intros a p f l lo hi Hf B Hr. unfold countb.
  assert (G : forall e, In e l -> f e = false).
  { intros e He. destruct (f e) eqn:E; [|reflexivity]. pose proof (bs_in _ _ _ _ _ B He). rewrite (Hf _ E) in H. lia. }
  clear B. induction l as [|e t IH]; [reflexivity|]. simpl. rewrite (G e (or_introl eq_refl)). apply IH.
  intros e' He'. apply G. right. assumption.
Qed.

Lemma savebegin_phase : forall a e, is_savebegin e = true -> phase a e = 12.
Proof. intros a e. destruct e; simpl; try discriminate. reflexivity. Qed.

Lemma save_block_events : forall c m r,
  fst (save_block c m r) =
  if is_nores r then [FSaveSkip]
  else FSaveBegin (m_id m) r ::
       (if c_save_ok c then FSaveOk :: fst (res_hook_loop HPostSave h_post_save None 0 (c_stack c) m r) else [FSaveErr]).
Proof.
  intros c m r. unfold save_block. rewrite fst_catch. destruct (is_nores r).
  - simpl. reflexivity.
  - destruct (c_save_ok c); repeat (rewrite ?fst_bind, ?snd_bind; cbn [emit raise ret fst snd app]).
    + destruct (snd (res_hook_loop HPostSave h_post_save None 0 (c_stack c) m r)); cbn [ret raise fst snd];
        destruct (c_raise_err c); cbn [ret raise fst snd]; rewrite ?app_nil_r; reflexivity.
    + destruct (c_raise_err c); reflexivity.
Qed.

Lemma save_block_count : forall c m r, countb is_savebegin (fst (save_block c m r)) = if is_nores r then 0 else 1.
Proof.
  intros c m r. rewrite save_block_events. destruct (is_nores r); [reflexivity|].
  assert (H0 : countb is_savebegin (fst (res_hook_loop HPostSave h_post_save None 0 (c_stack c) m r)) = 0).
  { eapply (bs_no_phase AckSaved 12); [apply savebegin_phase|apply res_loop_bs with (p := 14); reflexivity|lia]. }
  destruct (c_save_ok c); [|reflexivity]. unfold countb in *. simpl. rewrite H0. reflexivity.
Qed.

Lemma save_block_content : forall c m r i r0, In (FSaveBegin i r0) (fst (save_block c m r)) -> i = m_id m /\ r0 = r.
Proof.
  intros c m r i r0. rewrite save_block_events. destruct (is_nores r).
  - intros [H|[]]. discriminate.
  - intros [H|H]; [injection H as <- <-; split; reflexivity|]. exfalso.
    destruct (c_save_ok c); [|destruct H as [H|[]]; discriminate].
    destruct H as [H|H]; [discriminate|].
    pose proof (bs_in _ _ _ _ _ (res_loop_bs AckSaved HPostSave h_post_save None 14 (c_stack c) 0 m r (fun _ _ _ _ => eq_refl)) H) as Hx.
    simpl in Hx. lia.
Qed.

Lemma wf_stages : forall c, wf_recv c ->
  snd (pre c) = Ok (run_msg c) /\ snd (run_task c (run_msg c)) = Ok (res1 c) /\
  snd (pe c (run_msg c) (res1 c)) = Ok (res2 c).
Proof.
  intros c (K & R & G & T1 & T2 & T3). split; [|split].
  - unfold pre. apply msg_loop_snd. assumption.
  - rewrite run_task_snd, (closes_sync_genexit _ _ G). unfold rt_rest. fold (found c). rewrite snd_bind.
    assert (Ew : snd (when (is_opened (c_dep c)) (when (is_raise (found c) && c_prop c) (emit FDepSaw);;; emit FDepClose)) = Ok tt).
    { unfold when. destruct (is_opened (c_dep c)); [|reflexivity]. rewrite snd_bind.
      destruct (is_raise (found c) && c_prop c); reflexivity. }
    rewrite Ew. unfold res1. destruct (found c) as [v|e]; [reflexivity|]. simpl. apply res_loop_snd. assumption.
  - unfold pe, res2. apply res_loop_snd. assumption.
Qed.

(* C07_one_save: exactly one set_result per execution unless the final result is the no-result signal (raised by
   the function or substituted by an on_error / post_execute hook); a raising post_save hook changes nothing *)
Theorem one_save : forall c, wf_recv c ->
  countb is_savebegin (callback c) = (if is_nores (res2 c) then 0 else 1) /\
  (forall i r, In (FSaveBegin i r) (callback c) -> i = m_id (run_msg c) /\ r = res2 c).
Proof.
  intros c W. destruct (wf_stages c W) as (S1 & S2 & S3).
  destruct (callback_complete c W) as (m & r & r' & H1 & H2 & H3 & E).
  rewrite S1 in H1. injection H1 as <-. rewrite S2 in H2. injection H2 as <-. rewrite S3 in H3. injection H3 as <-.
  rewrite E. split.
  - rewrite !countb_app, save_block_count.
    rewrite (bs_no_phase (c_ack c) 12 is_savebegin _ _ _ (savebegin_phase _) (pre_bs c)) by lia.
    rewrite (bs_no_phase (c_ack c) 12 is_savebegin _ _ _ (savebegin_phase _) (run_task_bs c _)) by lia.
    rewrite (bs_no_phase (c_ack c) 12 is_savebegin _ _ _ (savebegin_phase _) (pe_bs c _ _)) by lia.
    assert (Ha : forall a, countb is_savebegin (acks c a) = 0).
    { intros a. rewrite acks_cases. destruct (_ && _); reflexivity. }
    rewrite !Ha. change (countb is_savebegin [FDone]) with 0. lia.
  - intros i r0 Hin. repeat (apply in_app_or in Hin; destruct Hin as [Hin|Hin]).
    + pose proof (bs_in _ _ _ _ _ (pre_bs c) Hin) as Hx. simpl in Hx. lia.
    + apply acks_in in Hin. destruct Hin as (Hin & _). discriminate.
    + pose proof (bs_in _ _ _ _ _ (run_task_bs c _) Hin) as Hx. simpl in Hx. lia.
    + apply acks_in in Hin. destruct Hin as (Hin & _). discriminate.
    + pose proof (bs_in _ _ _ _ _ (pe_bs c _ _) Hin) as Hx. simpl in Hx. lia.
    + eapply save_block_content. eassumption.
    + apply acks_in in Hin. destruct Hin as (Hin & _). discriminate.
    + destruct Hin as [Hin|[]]. discriminate.
Qed.

(* the result assembled by run_task reflects the outcome of THIS execution and carries the message's labels *)
Lemma raw_res_reflects : forall m o,
  r_lab (raw_res m o) = m_lab m /\
  match o with
  | BRet v => r_err (raw_res m o) = false /\ r_val (raw_res m o) = Some v /\ r_exc (raw_res m o) = None
  | BRaise e => r_err (raw_res m o) = true /\ r_val (raw_res m o) = None /\ r_exc (raw_res m o) = Some e
  end.
Proof. intros m [v|e]; simpl; repeat split. Qed.

(* hooks that do not touch the result (identity on it): what is saved is the raw result *)
Lemma fold_hook_id : forall {X} (sel : mw -> option (X -> option X)) st x,
  Forall (fun w => match sel w with Some f => forall y, f y = Some y | None => True end) st -> fold_hook sel st x = x.
Proof.
  intros X sel st. induction st as [|w st IH]; intros x H; [reflexivity|]. rewrite fold_hook_cons.
  inversion H as [|? ? Hw Hst]; subst. destruct (sel w) as [f|]; [rewrite Hw|]; apply IH; assumption.
Qed.

(* C07_timeout: the timeout label of the message the function is run with is enforced for coroutine functions *)
Theorem timeout_enforced : forall c m t, c_async c = true -> c_dep c <> DFail -> m_tmo m = Some t ->
  ((c_dur c > t)%Z -> snd (try_block c m) = BRaise E_TIMEOUT) /\
  ((t <= 0)%Z -> snd (try_block c m) = BRaise E_TIMEOUT /\ ~ In FTaskStart (fst (try_block c m))) /\
  ((0 < t)%Z -> (c_dur c < t)%Z -> snd (try_block c m) = c_out c /\ In (FTaskEnd (BEnded (c_out c))) (fst (try_block c m))).
Proof.
  intros c m t A D T. unfold try_block, body_run. rewrite T, A.
  destruct (c_dep c); [| |congruence]; repeat split; intros;
    repeat match goal with
           | |- context [(?a <=? ?b)%Z] => destruct (Z.leb_spec a b); try lia
           | |- context [(?a <? ?b)%Z] => destruct (Z.ltb_spec a b); try lia
           | |- context [(?a =? ?b)%Z] => destruct (Z.eqb_spec a b); try lia
           end; simpl; try reflexivity; try tauto; try (intros [H'|H']; try discriminate; try contradiction);
    try (destruct (c_tie c); simpl; try reflexivity; tauto).
Qed.

Theorem no_timeout_label : forall c m, c_dep c <> DFail -> m_tmo m = None -> snd (try_block c m) = c_out c.
Proof. intros c m D T. unfold try_block, body_run. rewrite T. destruct (c_dep c); [reflexivity|reflexivity|congruence]. Qed.

(* ---- C07_backend_isolated *)
Definition set_save_ok (c : pcfg) (b : bool) : pcfg :=
  mkcfg (c_kind c) (c_msg c) (c_ackable c) (c_ack c) (c_stack c) (c_dep c) (c_prop c) (c_async c) (c_dur c) (c_out c)
        (c_tie c) (c_race c) b (c_raise_err c).

Lemma wf_strict_set : forall c b, wf_strict c -> wf_strict (set_save_ok c b).
Proof. intros c b [(K & R & G & T1 & T2 & T3) T4]. repeat split; assumption. Qed.

(* a failing backend: the run is the successful one with FSaveOk replaced by FSaveErr and the post_save hooks
   removed - everything before is identical, everything after (the when_saved ack, normal return) too *)
Theorem backend_isolated : forall c, wf_strict c -> is_nores (res2 c) = false ->
  exists A B,
    callback (set_save_ok c true) = A ++ FSaveOk :: ev_post_save c ++ B /\
    callback (set_save_ok c false) = A ++ FSaveErr :: B /\
    B = acks c AckSaved ++ [FDone].
Proof.
  intros c W N.
  exists (ev_pre c ++ acks c AckReceived ++
          (FExecBegin :: fst (try_block c (run_msg c)) ++ FExecEnd :: ev_dep_close c ++ ev_on_error c) ++
          acks c AckExecuted ++ ev_post_exec c ++ [FSaveBegin (m_id (run_msg c)) (res2 c)]),
         (acks c AckSaved ++ [FDone]).
  rewrite (callback_explicit _ (wf_strict_set c true W)), (callback_explicit _ (wf_strict_set c false W)).
  unfold ev_save. change (res2 (set_save_ok c true)) with (res2 c). change (res2 (set_save_ok c false)) with (res2 c).
  rewrite N. repeat split; repeat rewrite <- app_assoc; reflexivity.
Qed.

(* every per-message theorem transfers to every concurrent run *)
Theorem interleave_callback : forall cs g i c,
  Interleave (map callback cs) g -> nth_error cs i = Some c -> project i g = callback c.
Proof. intros cs g i c H N. rewrite (interleave_project _ _ H i). apply nth_map_callback. assumption. Qed.
