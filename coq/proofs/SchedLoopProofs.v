From Coq Require Import ZArith List Bool Arith Lia.
Import ListNotations.
From TQ Require Import SchedDelay SchedDelayProofs SchedLoop.
Open Scope Z_scope.

(* ------------------------------------------------------------------ the poll clock *)
Lemma next_poll_spec b : floor_minute (next_poll b) = next_poll b /\ b < next_poll b <= b + MIN.
Proof. unfold next_poll, floor_minute, MIN, US. lia. Qed.

Lemma next_poll_same_minute a L : floor_minute a = a -> 0 <= L < MIN -> next_poll (a + L) = a + MIN.
Proof. unfold next_poll, floor_minute, MIN, US. lia. Qed.

Lemma fold_max_bound (l : list Z) : forall acc B, acc < B -> (forall x, In x l -> x < B) -> acc <= fold_left Z.max l acc < B.
Proof.
  induction l as [|x l IH]; simpl; intros acc B Ha H; [lia|].
  assert (Hx : x < B) by (apply H; auto).
  destruct (IH (Z.max acc x) B ltac:(lia) ltac:(intros; apply H; auto)). lia.
Qed.

Lemma fold_max_acc (l : list Z) : forall acc, acc <= fold_left Z.max l acc.
Proof. induction l as [|y l IH]; simpl; intros acc; [lia|]. specialize (IH (Z.max acc y)). lia. Qed.

Lemma fold_max_ge (l : list Z) : forall acc x, In x l -> x <= fold_left Z.max l acc.
Proof.
  induction l as [|y l IH]; simpl; intros acc x H; [contradiction|].
  destruct H as [->|H]; [|apply IH; assumption]. pose proof (fold_max_acc l (Z.max acc x)). lia.
Qed.

Lemma maxlat_bound nsrc lat k B : 0 < B -> (forall i, (i < nsrc)%nat -> lat k i < B) -> 0 <= maxlat nsrc lat k < B.
Proof.
  intros HB H. unfold maxlat. apply fold_max_bound; [assumption|].
  intros x Hx. apply in_map_iff in Hx. destruct Hx as [i [<- Hi]]. apply in_seq in Hi. apply H. lia.
Qed.

Lemma maxlat_ge nsrc lat k i : (i < nsrc)%nat -> lat k i <= maxlat nsrc lat k.
Proof. intros H. unfold maxlat. apply fold_max_ge. apply in_map. apply in_seq. lia. Qed.

Lemma clock_length nsrc lat n : forall k a, length (clock nsrc lat n k a) = n.
Proof. induction n; simpl; intros; auto. Qed.

(* from a minute boundary on, with every gather shorter than a minute: one poll per minute, on the boundary *)
Lemma clock_on_boundaries nsrc lat : forall n k a j,
  floor_minute a = a -> (forall i, 0 <= maxlat nsrc lat (k + i) < MIN) -> (j < n)%nat ->
  nth j (map fst (clock nsrc lat n k a)) 0 = a + Z.of_nat j * MIN.
Proof.
  induction n as [|n IH]; intros k a j Ha HL Hj; [lia|]. simpl.
  destruct j as [|j]; [simpl; lia|].
  pose proof (HL 0%nat) as H0. rewrite Nat.add_0_r in H0.
  rewrite (next_poll_same_minute a _ Ha H0).
  rewrite IH; try lia.
  - unfold floor_minute, MIN, US in *. lia.
  - intros i. replace (S k + i)%nat with (k + S i)%nat by lia. apply HL.
Qed.

Lemma clock_instants nsrc lat start n j :
  0 <= maxlat nsrc lat 0 -> start + maxlat nsrc lat 0 < next_boundary start ->
  (forall k, (1 <= k)%nat -> 0 <= maxlat nsrc lat k < MIN) -> (j < n)%nat ->
  nth j (map fst (clock nsrc lat n 0 start)) 0 = if Nat.eqb j 0 then start else floor_minute start + Z.of_nat j * MIN.
Proof.
  intros H0 H1 Hk Hj. destruct n as [|n]; [lia|]. simpl. destruct j as [|j]; [reflexivity|]. simpl.
  assert (Hn : next_poll (start + maxlat nsrc lat 0) = floor_minute start + MIN).
  { unfold next_poll, next_boundary, floor_minute, MIN, US in *. lia. }
  rewrite Hn.
  assert (Hb : floor_minute (floor_minute start + MIN) = floor_minute start + MIN) by (unfold floor_minute, MIN, US; lia).
  assert (HL : forall i, 0 <= maxlat nsrc lat (1 + i) < MIN) by (intros i; apply Hk; lia).
  rewrite (clock_on_boundaries nsrc lat n 1%nat _ j Hb HL ltac:(lia)). unfold MIN, US. lia.
Qed.

Lemma clock_ext nsrc lat lat' : (forall k i, lat k i = lat' k i) -> forall n k a, clock nsrc lat n k a = clock nsrc lat' n k a.
Proof.
  intros H. assert (Hm : forall k, maxlat nsrc lat k = maxlat nsrc lat' k).
  { intros k. unfold maxlat. f_equal. apply map_ext. intros i. apply H. }
  induction n; simpl; intros k a; auto. rewrite Hm, IHn. reflexivity.
Qed.

(* ------------------------------------------------------------------ the iteration body *)
Section Body.
  Variable cron_due : nat -> Z -> bool.

  Definition cnt (i s : nat) (sp : list spawn) : nat :=
    length (filter (fun x => match x with (i', s', _) => Nat.eqb i' i && Nat.eqb s' s end) sp).

  Lemma cnt_app i s a b : cnt i s (a ++ b) = (cnt i s a + cnt i s b)%nat.
  Proof. unfold cnt. rewrite filter_app, app_length. reflexivity. Qed.

  Definition sends_now (k : kind) (now : Z) : nat := match due cron_due k now with DSend _ => 1%nat | _ => 0%nat end.

  Lemma cnt_src_other now i j s l : i <> j -> cnt i s (src_body cron_due now j l) = 0%nat.
  Proof.
    intros H. destruct l as [l|]; simpl; [|reflexivity]. induction l as [|[s' k] l IH]; simpl; [reflexivity|].
    rewrite cnt_app, IH. destruct (due cron_due k now); simpl; try reflexivity.
    unfold cnt. simpl. destruct (Nat.eqb j i) eqn:E; [apply Nat.eqb_eq in E; congruence|reflexivity].
  Qed.

  Lemma cnt_src_not_listed now i s l : ~ In s (map fst l) -> cnt i s (src_body cron_due now i (Some l)) = 0%nat.
  Proof.
    simpl. induction l as [|[s' k] l IH]; simpl; intros H; [reflexivity|].
    rewrite cnt_app, IH by tauto. destruct (due cron_due k now); simpl; try reflexivity.
    unfold cnt. simpl. destruct (Nat.eqb s' s) eqn:E; [apply Nat.eqb_eq in E; tauto|]. rewrite andb_false_r. reflexivity.
  Qed.

  Lemma cnt_src_listed now i s k l : NoDup (map fst l) -> In (s, k) l ->
    cnt i s (src_body cron_due now i (Some l)) = sends_now k now.
  Proof.
    induction l as [|[s' k'] l IH]; simpl; intros Hnd Hin; [contradiction|].
    inversion Hnd as [|x y Hnin Hnd']; subst. change (flat_map _ l) with (src_body cron_due now i (Some l)) in *.
    destruct Hin as [E|Hin].
    - inversion E; subst. rewrite cnt_app, cnt_src_not_listed by assumption. unfold sends_now.
      destruct (due cron_due k now); simpl; try reflexivity. unfold cnt. simpl. rewrite !Nat.eqb_refl. reflexivity.
    - rewrite cnt_app, (IH Hnd' Hin).
      assert (s' <> s) by (intros ->; apply Hnin; apply in_map_iff; exists (s, k); auto).
      destruct (due cron_due k' now); simpl; try reflexivity. unfold cnt. simpl.
      destruct (Nat.eqb s' s) eqn:E; [apply Nat.eqb_eq in E; congruence|]. rewrite andb_false_r. reflexivity.
  Qed.

  Lemma cnt_body_below now s : forall ls i0 i, (i < i0)%nat -> cnt i s (poll_body_from cron_due now i0 ls) = 0%nat.
  Proof.
    induction ls as [|l ls IH]; simpl; intros i0 i H; [reflexivity|].
    rewrite cnt_app, cnt_src_other by lia. rewrite IH by lia. reflexivity.
  Qed.

  Lemma cnt_body_from now s : forall ls i0 j,
    cnt (i0 + j) s (poll_body_from cron_due now i0 ls) =
    match nth_error ls j with Some l => cnt (i0 + j) s (src_body cron_due now (i0 + j) l) | None => 0%nat end.
  Proof.
    induction ls as [|l ls IH]; simpl; intros i0 j.
    - destruct j; reflexivity.
    - rewrite cnt_app. destruct j as [|j]; simpl.
      + rewrite Nat.add_0_r, cnt_body_below by lia. lia.
      + rewrite cnt_src_other by lia. replace (i0 + S j)%nat with (S i0 + j)%nat by lia. apply IH.
  Qed.

  (* how often schedule s of source i is spawned by one iteration *)
  Lemma cnt_poll_body now ls i s :
    cnt i s (poll_body cron_due now ls) =
    match nth_error ls i with Some l => cnt i s (src_body cron_due now i l) | None => 0%nat end.
  Proof. unfold poll_body. apply (cnt_body_from now s ls 0%nat i). Qed.

  Lemma in_src_body now i l x : In x (src_body cron_due now i l) ->
    exists ss s k d, l = Some ss /\ In (s, k) ss /\ due cron_due k now = DSend d /\ x = (i, s, now + d * US).
  Proof.
    destruct l as [ss|]; simpl; [|contradiction]. intros H. apply in_flat_map in H. destruct H as [[s k] [Hin Hx]].
    simpl in Hx. destruct (due cron_due k now) eqn:E; simpl in Hx; try contradiction. destruct Hx as [<-|[]].
    exists ss, s, k, d. auto.
  Qed.

  Lemma in_body_from now x : forall ls i0, In x (poll_body_from cron_due now i0 ls) ->
    exists j ss s k d, nth_error ls j = Some (Some ss) /\ In (s, k) ss /\ due cron_due k now = DSend d /\
                       x = ((i0 + j)%nat, s, now + d * US).
  Proof.
    induction ls as [|l ls IH]; simpl; intros i0 H; [contradiction|]. apply in_app_or in H. destruct H as [H|H].
    - destruct (in_src_body _ _ _ _ H) as [ss [s [k [d [-> [H1 [H2 H3]]]]]]].
      exists 0%nat, ss, s, k, d. rewrite Nat.add_0_r. auto.
    - destruct (IH _ H) as [j [ss [s [k [d [H0 [H1 [H2 H3]]]]]]]].
      exists (S j), ss, s, k, d. replace (i0 + S j)%nat with (S i0 + j)%nat by lia. auto.
  Qed.

  Lemma due_oneshot T now d : due cron_due (KOne T) now = DSend d ->
    (T <= now /\ d = 0) \/ (now < T /\ T <= now + d * US < T + US /\ 0 < d <= 61).
  Proof.
    simpl. destruct (delay T now) as [d'|] eqn:E; [|discriminate]. intros H. inversion H; subst d'.
    destruct (cases_exhaustive_exclusive T now) as [[H1 _]|[[_ [H2 _]]|[_ [_ H3]]]].
    - rewrite (delay_past _ _ H1) in E. inversion E. auto.
    - destruct (delay_near _ _ H2) as [d0 [Hd [Hr Hb]]]. rewrite Hd in E. inversion E; subst. right. lia.
    - rewrite (delay_far _ _ H3) in E. discriminate.
  Qed.
End Body.

(* ------------------------------------------------------------------ entries: independence and exactly-once *)
Section EntryProofs.
  Variable cron_due : nat -> Z -> bool.

  Lemma ent_trace_ext removing klat klat' kfail kfail' e lat_i lat_i' lfail lfail' :
    (forall n, klat n = klat' n) -> (forall n, kfail n = kfail' n) ->
    (forall k, lat_i k = lat_i' k) -> (forall k, lfail k = lfail' k) ->
    forall ck k st, ent_trace cron_due removing klat kfail e lat_i lfail ck k st =
                    ent_trace cron_due removing klat' kfail' e lat_i' lfail' ck k st.
  Proof.
    intros H1 H2 H3 H4. induction ck as [|[a b] ck IH]; simpl; intros k st; [reflexivity|].
    unfold ent_step. rewrite H3, H4. destruct (lfail' k || negb (present removing e st (a + lat_i' k))).
    - rewrite IH. reflexivity.
    - destruct (due cron_due (en_kind e) b); try (rewrite IH; reflexivity). rewrite H1, H2, IH. reflexivity.
  Qed.

  Definition is_spawn (o : eout) : bool := match o with EListed _ (Some _) => true | _ => false end.
  Definition attempt_of (o : eout) : option nat := match o with EListed _ (Some (_, n, _)) => Some n | _ => None end.

  Section One.
    Variables (klat : nat -> Z) (kfail : nat -> bool) (e : ent) (lat_i : nat -> Z) (lfail : nat -> bool).
    Let tr := ent_trace cron_due true klat kfail e lat_i lfail.

    (* attempt numbers only grow *)
    Lemma attempts_grow : forall ck k st q n, attempt_of (nth q (tr ck k st) ENot) = Some n -> (es_att st <= n)%nat.
    Proof.
      induction ck as [|[a b] ck IH]; simpl; intros k st q n H; [destruct q; discriminate|].
      unfold tr in *. simpl in H. destruct (ent_step cron_due true klat kfail e (lfail k) (a + lat_i k) b st) as [o st'] eqn:E.
      assert (Hst : (es_att st <= es_att st')%nat /\ (forall m, attempt_of o = Some m -> m = es_att st)).
      { unfold ent_step in E. destruct (lfail k || negb (present true e st (a + lat_i k))); [inversion E; subst; split; [lia|discriminate]|].
        destruct (due cron_due (en_kind e) b); inversion E; subst; simpl; split; try lia; try discriminate.
        intros m Hm. inversion Hm. reflexivity. }
      destruct q as [|q]; simpl in H.
      - destruct Hst as [_ Hs]. rewrite (Hs _ H). lia.
      - specialize (IH _ _ _ _ H). lia.
    Qed.

    (* once a completed send lies before every remaining snapshot the entry is never listed again *)
    Lemma removed_stays : forall ck k st r, In r (es_done st) ->
      (forall j a b, nth_error ck j = Some (a, b) -> r < a + lat_i (k + j)) ->
      forall q, nth q (tr ck k st) ENot = ENot.
    Proof.
      induction ck as [|[a b] ck IH]; simpl; intros k st r Hin H q; [destruct q; reflexivity|].
      unfold tr in *. simpl. unfold ent_step.
      assert (Hp : present true e st (a + lat_i k) = false).
      { unfold present. simpl. specialize (H 0%nat a b eq_refl). rewrite Nat.add_0_r in H.
        assert (Hf : forallb (fun r0 => a + lat_i k <? r0) (es_done st) = false).
        { destruct (forallb (fun r0 => a + lat_i k <? r0) (es_done st)) eqn:Ef; [|reflexivity].
          rewrite forallb_forall in Ef. specialize (Ef r Hin). apply Z.ltb_lt in Ef. lia. }
        rewrite Hf. apply andb_false_r. }
      rewrite Hp. rewrite orb_true_r. destruct q as [|q]; [reflexivity|]. simpl.
      apply (IH (S k) st r Hin). intros j a' b' Hj. replace (S k + j)%nat with (k + S j)%nat by lia. apply (H (S j) a' b' Hj).
    Qed.

    (* exactly once: if attempt 0 is spawned at position p, its kick succeeds, and its completion instant
       f + klat 0 lies before the listing snapshot of every later poll, then no other position spawns *)
    Lemma once : forall ck k st p r f,
      es_att st = 0%nat -> es_done st = [] -> kfail 0%nat = false ->
      nth p (tr ck k st) ENot = EListed r (Some (f, 0%nat, true)) ->
      (forall j a b, (p < j)%nat -> nth_error ck j = Some (a, b) -> f + klat 0%nat < a + lat_i (k + j)) ->
      forall q, q <> p -> is_spawn (nth q (tr ck k st) ENot) = false.
    Proof.
      induction ck as [|[a b] ck IH]; intros k st p r f Ha Hd Hk Hp Hlate q Hq; [destruct q; reflexivity|].
      unfold tr in *. simpl in *.
      destruct (ent_step cron_due true klat kfail e (lfail k) (a + lat_i k) b st) as [o st'] eqn:E.
      unfold ent_step in E.
      destruct (lfail k || negb (present true e st (a + lat_i k))) eqn:El.
      - inversion E; subst o st'. destruct p as [|p]; [discriminate|]. destruct q as [|q]; [reflexivity|]. simpl in *.
        apply (IH (S k) st p r f Ha Hd Hk Hp); [|lia].
        intros j a' b' Hj Hn. replace (S k + j)%nat with (k + S j)%nat by lia. apply (Hlate (S j) a' b'); [lia|assumption].
      - destruct (due cron_due (en_kind e) b) as [| |d] eqn:Ed.
        + inversion E; subst o st'. destruct p as [|p]; [discriminate|]. destruct q as [|q]; [reflexivity|]. simpl in *.
          apply (IH (S k) st p r f Ha Hd Hk Hp); [|lia].
          intros j a' b' Hj Hn. replace (S k + j)%nat with (k + S j)%nat by lia. apply (Hlate (S j) a' b'); [lia|assumption].
        + inversion E; subst o st'. destruct p as [|p]; [discriminate|]. destruct q as [|q]; [reflexivity|]. simpl in *.
          apply (IH (S k) st p r f Ha Hd Hk Hp); [|lia].
          intros j a' b' Hj Hn. replace (S k + j)%nat with (k + S j)%nat by lia. apply (Hlate (S j) a' b'); [lia|assumption].
        + inversion E; subst o st'. rewrite Ha, Hk in *. simpl in *. destruct p as [|p].
          * inversion Hp; subst. destruct q as [|q]; [congruence|]. simpl.
            rewrite (removed_stays ck (S k) _ (b + d * US + klat 0%nat)); [reflexivity|simpl; rewrite Hd; left; reflexivity|].
            intros j a' b' Hj. replace (S k + j)%nat with (k + S j)%nat by lia. apply (Hlate (S j) a' b'); [lia|assumption].
          * exfalso. simpl in Hp.
            assert (Hat : attempt_of (nth p (ent_trace cron_due true klat kfail e lat_i lfail ck (S k)
                                              (mkEst ((b + d * US + klat 0%nat) :: es_done st) 1)) ENot) = Some 0%nat)
              by (rewrite Hp; reflexivity).
            apply attempts_grow in Hat. simpl in Hat. lia.
    Qed.
  End One.
End EntryProofs.

(* ------------------------------------------------------------------ statements used by props/C15.v *)
Lemma nodup_fst_unique {B} (l : list (nat * B)) s k k' : NoDup (map fst l) -> In (s, k) l -> In (s, k') l -> k = k'.
Proof.
  induction l as [|[s0 k0] l IH]; simpl; intros Hnd H1 H2; [contradiction|].
  inversion Hnd as [|x y Hnin Hnd']; subst.
  destruct H1 as [E1|H1], H2 as [E2|H2].
  - congruence.
  - inversion E1; subst. exfalso. apply Hnin. apply in_map_iff. exists (s, k'). auto.
  - inversion E2; subst. exfalso. apply Hnin. apply in_map_iff. exists (s, k). auto.
  - auto.
Qed.

Section Statements.
  Variable cron_due : nat -> Z -> bool.

  Lemma spawn_count now (ls : list (option (list sched))) i (l : list sched) s k : nth_error ls i = Some (Some l) -> NoDup (map fst l) -> In (s, k) l ->
    cnt i s (poll_body cron_due now ls) = sends_now cron_due k now.
  Proof. intros H1 H2 H3. rewrite cnt_poll_body, H1. apply cnt_src_listed; assumption. Qed.

  Lemma spawn_origin now (ls : list (option (list sched))) i (l : list sched) s k f : nth_error ls i = Some (Some l) -> NoDup (map fst l) -> In (s, k) l ->
    In (i, s, f) (poll_body cron_due now ls) -> exists d, due cron_due k now = DSend d /\ f = now + d * US.
  Proof.
    intros H1 H2 H3 H. unfold poll_body in H. destruct (in_body_from _ _ _ _ _ H) as [j [ss [s' [k' [d [Hj [Hin [Hd Hx]]]]]]]].
    simpl in Hx. inversion Hx; subst. rewrite H1 in Hj. inversion Hj; subst.
    rewrite (nodup_fst_unique _ _ _ _ H2 H3 Hin). exists d. auto.
  Qed.

  Lemma cron_per_minute now (ls : list (option (list sched))) i (l : list sched) s c : nth_error ls i = Some (Some l) -> NoDup (map fst l) -> In (s, KCron c) l ->
    cnt i s (poll_body cron_due now ls) = (if cron_due c now then 1 else 0)%nat /\
    (forall f, In (i, s, f) (poll_body cron_due now ls) -> f = now).
  Proof.
    intros H1 H2 H3. split.
    - rewrite (spawn_count _ _ _ _ _ _ H1 H2 H3). unfold sends_now. simpl. destruct (cron_due c now); reflexivity.
    - intros f Hf. destruct (spawn_origin _ _ _ _ _ _ _ H1 H2 H3 Hf) as [d [Hd ->]]. simpl in Hd.
      destruct (cron_due c now); inversion Hd. unfold US. lia.
  Qed.

  Lemma never_otherwise now (ls : list (option (list sched))) i s :
    (nth_error ls i = None \/ nth_error ls i = Some None \/
     (exists l : list sched, nth_error ls i = Some (Some l) /\ (~ In s (map fst l) \/ (NoDup (map fst l) /\ In (s, KBadCron) l)))) ->
    cnt i s (poll_body cron_due now ls) = 0%nat.
  Proof.
    rewrite cnt_poll_body. intros [H|[H|[l [H [Hn|[Hnd Hin]]]]]]; rewrite H; cbv beta iota; try reflexivity.
    - apply cnt_src_not_listed. assumption.
    - transitivity (sends_now cron_due KBadCron now); [apply (cnt_src_listed cron_due now i s KBadCron l Hnd Hin)|reflexivity].
  Qed.

  Lemma oneshot_timing now (ls : list (option (list sched))) i (l : list sched) s T : nth_error ls i = Some (Some l) -> NoDup (map fst l) -> In (s, KOne T) l ->
    cnt i s (poll_body cron_due now ls) = (if (T <=? next_boundary now + US)%Z then 1%nat else 0%nat) /\
    (forall f, In (i, s, f) (poll_body cron_due now ls) -> (T <= now /\ f = now) \/ (now < T /\ T <= f < T + US)).
  Proof.
    intros H1 H2 H3. split.
    - rewrite (spawn_count _ _ _ _ _ _ H1 H2 H3). unfold sends_now. simpl.
      destruct (cases_exhaustive_exclusive T now) as [[Ha _]|[[_ [Hb _]]|[_ [_ Hc]]]].
      + rewrite (delay_past _ _ Ha). pose proof (next_boundary_gt now). destruct (T <=? next_boundary now + US) eqn:E; auto.
        apply Z.leb_gt in E. unfold US in *. lia.
      + destruct (delay_near _ _ Hb) as [d [-> _]]. destruct (T <=? next_boundary now + US) eqn:E; auto. apply Z.leb_gt in E. lia.
      + rewrite (delay_far _ _ Hc). destruct (T <=? next_boundary now + US) eqn:E; auto. apply Z.leb_le in E. lia.
    - intros f Hf. destruct (spawn_origin _ _ _ _ _ _ _ H1 H2 H3 Hf) as [d [Hd ->]].
      destruct (due_oneshot _ _ _ _ Hd) as [[Ha ->]|[Ha [Hb _]]]; [left|right]; unfold US in *; lia.
  Qed.

  Lemma sys_clock_indep sc sc' n : sc_start sc = sc_start sc' -> length (sc_srcs sc) = length (sc_srcs sc') ->
    (forall k i, sc_lat sc k i = sc_lat sc' k i) -> sys_clock sc n = sys_clock sc' n.
  Proof. intros H1 H2 H3. unfold sys_clock. rewrite H1, H2. apply clock_ext. assumption. Qed.

  Lemma ent_run_indep sc sc' n i so e : sys_clock sc n = sys_clock sc' n ->
    (forall k, sc_lat sc k i = sc_lat sc' k i) -> (forall k, sc_lfail sc k i = sc_lfail sc' k i) ->
    (forall m, sc_klat sc i (en_sid e) m = sc_klat sc' i (en_sid e) m) ->
    (forall m, sc_kfail sc i (en_sid e) m = sc_kfail sc' i (en_sid e) m) ->
    ent_run cron_due sc n i so e = ent_run cron_due sc' n i so e.
  Proof. intros H0 H1 H2 H3 H4. unfold ent_run. rewrite H0. apply ent_trace_ext; assumption. Qed.

  Lemma sys_instants sc n j :
    (forall i, (i < length (sc_srcs sc))%nat -> sc_start sc + sc_lat sc 0%nat i < next_boundary (sc_start sc)) ->
    (forall k i, (1 <= k)%nat -> (i < length (sc_srcs sc))%nat -> sc_lat sc k i < MIN) -> (j < n)%nat ->
    nth j (map fst (sys_clock sc n)) 0 =
    if Nat.eqb j 0 then sc_start sc else floor_minute (sc_start sc) + Z.of_nat j * MIN.
  Proof.
    intros H0 Hk Hj. unfold sys_clock. apply clock_instants; try assumption.
    - apply (maxlat_bound _ _ _ (next_boundary (sc_start sc) - sc_start sc)).
      + pose proof (next_boundary_gt (sc_start sc)). lia.
      + intros i Hi. specialize (H0 i Hi). lia.
    - pose proof (next_boundary_gt (sc_start sc)) as Hb.
      destruct (maxlat_bound (length (sc_srcs sc)) (sc_lat sc) 0%nat (next_boundary (sc_start sc) - sc_start sc)); try lia.
      intros i Hi. specialize (H0 i Hi). lia.
    - intros k Hk1. apply maxlat_bound; [unfold MIN, US; lia|]. intros i Hi. apply Hk; assumption.
  Qed.

  Lemma sys_once sc n i so e T p r f : so_removing so = true -> en_kind e = KOne T ->
    sc_kfail sc i (en_sid e) 0%nat = false ->
    nth p (ent_run cron_due sc n i so e) ENot = EListed r (Some (f, 0%nat, true)) ->
    (forall j a b, (p < j)%nat -> nth_error (sys_clock sc n) j = Some (a, b) ->
                   f + sc_klat sc i (en_sid e) 0%nat < a + sc_lat sc j i) ->
    forall q, q <> p -> is_spawn (nth q (ent_run cron_due sc n i so e) ENot) = false.
  Proof.
    intros Hr Hk Hf Hp Hl q Hq. unfold ent_run in *. rewrite Hr, Hk in *. simpl in *.
    apply (once cron_due _ _ _ _ _ (sys_clock sc n) 0%nat (mkEst [] 0) p r f); auto.
  Qed.
End Statements.
