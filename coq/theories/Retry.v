(* Model of taskiq.middlewares.retry_middleware.SimpleRetryMiddleware.on_error together with the part of
   Receiver.callback / run_task that decides whether a result is stored (property C11).

     if isinstance(exception, NoResultError): return
     retry_on_error = message.labels.get("retry_on_error")
     if isinstance(retry_on_error, str): retry_on_error = retry_on_error.lower() == "true"
     if retry_on_error is None: retry_on_error = self.default_retry_label
     if not retry_on_error: return
     kicker = AsyncKicker(task_name, broker, labels=message.labels).with_task_id(message.task_id)
     retries = int(message.labels.get("_retries", 0)) + 1
     kicker.with_labels(_retries=retries)
     max_retries = int(message.labels.get("max_retries", self.default_retry_count))
     if retries < max_retries:
         await kicker.kiq(message.args.., message.kwargs..)
         if self.no_result_on_retry: result.error = NoResultError()

   and in the receiver:  if not isinstance(result.error, NoResultError): set_result(...).
   Labels are the typed dicts of Labels.v; every re-send goes through prepare_labels -> wire -> parse_labels.
   No proofs in this file. *)
From Coq Require Import ZArith NArith List Bool.
From TQ Require Import Base64 Labels.
Import ListNotations.
Open Scope N_scope.

Record cfg := mkCfg { default_retry_count : Z; default_retry_label : bool; no_result_on_retry : bool }.

(* what the task body does on one execution *)
Inductive outcome := OSuccess | OFail (* raises an exception other than NoResultError *) | ONoResult.

Inductive decision := DDisabled | DCrash (* int() raised inside on_error *) | DResend (r : Z) | DExhausted.

(* Python truth value of a received (parsed) label value that is not a str *)
Definition truthy (v : lval) : bool :=
  match v with
  | LInt z => negb (z =? 0)%Z
  | LBool b => b
  | LFloat f => negb ((f =? 0)%Z || (f =? 9223372036854775808)%Z)     (* 0.0 and -0.0 are falsy; nan, inf truthy *)
  | LBytes bs => match bs with [] => false | _ => true end
  | LStr s => is_true s
  | LOther _ => true
  end.

Definition retry_enabled (c : cfg) (L : dict lval) : bool :=
  match dget K_ROE L with
  | Some (LStr s) => is_true s
  | Some v => truthy v
  | None => default_retry_label c
  end.

Definition max_retries (c : cfg) (L : dict lval) : option Z :=
  match dget K_MAXR L with
  | Some v => py_int v
  | None => Some (default_retry_count c)
  end.

(* on_error for an exception that is not NoResultError *)
Definition decide (c : cfg) (L : dict lval) : decision :=
  if negb (retry_enabled c L) then DDisabled
  else match counter K_RETRIES L with
       | None => DCrash
       | Some r0 =>
           match max_retries c L with
           | None => DCrash
           | Some m => if (r0 + 1 <? m)%Z then DResend (r0 + 1) else DExhausted
           end
       end.

Record msg := mkMsg { m_id : N; m_args : N (* opaque payload identifier *); m_labels : dict lval }.

(* one execution as the harness observes it *)
Record exec := mkExec {
  e_id : N; e_args : N; e_labels : dict lval;     (* what the task function / Context saw *)
  e_out : outcome;
  e_stored : option bool;                          (* set_result called: Some is_err *)
  e_resent : bool;                                 (* a message was handed to kick() *)
  e_raised : bool                                  (* on_error raised out of Receiver.callback *)
}.

Section Attempts.
  Variable sof : Z -> pstr.
  Variable fos : pstr -> option Z.
  Variable c : cfg.
  Variable outs : nat -> outcome.     (* outcome of the i-th execution *)

  (* the i-th execution receives m; the list of all executions from there on.  None = out of fuel (excluded by
     C11_bound: fuel > remaining budget always suffices). *)
  Fixpoint attempts (fuel : nat) (i : nat) (m : msg) : option (list exec) :=
    match fuel with
    | O => None
    | S f =>
        let L := m_labels m in
        let ex st rs ra := mkExec (m_id m) (m_args m) L (outs i) st rs ra in
        match outs i with
        | OSuccess => Some [ex (Some false) false false]
        | ONoResult => Some [ex None false false]
        | OFail =>
            match decide c L with
            | DDisabled | DExhausted => Some [ex (Some true) false false]
            | DCrash => Some [ex None false true]
            | DResend r =>
                let st := if no_result_on_retry c then None else Some true in
                match parse_labels fos (retry_resend sof L r) with
                | None => Some [ex st true false]        (* the re-sent message is dropped by the receiver *)
                | Some L' =>
                    option_map (cons (ex st true false)) (attempts f (S i) (mkMsg (m_id m) (m_args m) L'))
                end
            end
        end
    end.

  (* first delivery of a message sent with labels d *)
  Definition run_retry (fuel : nat) (id args : N) (d : dict lval) : option (list exec) :=
    match parse_labels fos (prepare_labels sof d) with
    | None => Some []
    | Some L => attempts fuel O (mkMsg id args L)
    end.
End Attempts.

(* number of executions the statement allows when every attempt fails: max 1 (max_retries - _retries) *)
Definition budget (m r0 : Z) : nat := Z.to_nat (m - r0 - 1).

(* ---------------------------------------------------------------- Boolean form of the statement on observations *)
Definition outcome_eqb (a b : outcome) : bool :=
  match a, b with OSuccess, OSuccess | OFail, OFail | ONoResult, ONoResult => true | _, _ => false end.

(* obs: per execution (outcome, stored: option is_err, re-sent); enabled, m = max_retries, nror as configured *)
Fixpoint C11_check_from (nror : bool) (left : nat) (obs : list (outcome * option bool * bool)) : bool :=
  match obs with
  | [] => false
  | [(o, st, rs)] =>
      negb rs && match o with
                 | OSuccess => opt_eqb Bool.eqb st (Some false)
                 | ONoResult => opt_eqb Bool.eqb st None
                 | OFail => opt_eqb Bool.eqb st (Some true) && (left =? 0)%nat
                 end
  | (o, st, rs) :: rest =>
      outcome_eqb o OFail && rs && opt_eqb Bool.eqb st (if nror then None else Some true)
      && negb (left =? 0)%nat && C11_check_from nror (pred left) rest
  end.

Definition C11_check (enabled nror : bool) (m : Z) (obs : list (outcome * option bool * bool)) : bool :=
  if enabled then C11_check_from nror (budget m 0) obs
  else match obs with [(o, st, rs)] => negb rs | _ => false end.
