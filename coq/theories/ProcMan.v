(* Model of taskiq.cli.worker.process_manager: ProcessManager.prepare_workers / start(),
   ReloadAllAction.handle, ReloadOneAction.handle, the shutdown branch and the liveness scan.

   One `tick` = one iteration of `while True:` in start():

       sleep(1)                                     <- te_sleep delivered here
       reloaded_workers = set()
       while not self.action_queue.empty():         <- k-th call of empty(): te_drain[k] delivered first
           action = self.action_queue.get()         <- effect Got action
           ReloadAllAction  -> put ReloadOne(i, True) for i in range(len(workers))
           ReloadOneAction  -> if not is_reload_all and max_fails >= 1:
                                   restarts += 1
                                   if restarts >= max_fails: return -1
                               if worker_num in reloaded_workers: continue
                               action.handle(...)   (terminate, join, Process(), start, workers[i] = new)
                               reloaded_workers.add(worker_num)
           ShutdownAction   -> for worker in workers:
                                   if worker.pid and worker.is_alive():   <- te_alive[j] before j-th is_alive
                                       os.kill(worker.pid, SIGINT)
                               return None
       for worker_num, worker in enumerate(workers):
           if not worker.is_alive():                <- te_alive[j] before j-th is_alive
               put ReloadOne(worker_num, False)

   Python signal handlers (SIGHUP / SIGINT / SIGTERM), the watchdog thread (file change) and worker
   deaths are asynchronous to this loop, hence the three delivery points.  What happens inside prepare_workers
   or inside the startup wait that ends ReloadOneAction.handle is the head of the delivery point that follows
   (first te_sleep / next te_drain entry; see `init`); a death the startup wait's own is_alive() polls is DieS.
   A process is Live, Zombie
   (dead, not yet waited for: still owns its pid) or Reaped (waited for by join() or is_alive(): the
   pid is free, os.kill on it raises ProcessLookupError).  No proofs in this file. *)
From Coq Require Import ZArith List Bool Arith.
Import ListNotations.

Inductive pstate := Live | Zombie | Reaped.
Record proc := mkProc { pid : nat; pst : pstate }.
Inductive action := ReloadAll | ReloadOne (slot : nat) (is_reload_all : bool) | Shutdown.
Inductive event :=
| Die (slot : nat) | Hup | Int | Term | FileChange
| DieS (slot : nat).   (* the worker of the slot dies inside its startup window - between Process.start() and the
                          is_alive() poll of _wait_for_worker_startup (prepare_workers, ReloadOneAction.handle) - so
                          that poll reaps it: Live -> Reaped without a scan *)
Inductive exit_code := ExitNone (* return None *) | ExitFail (* return -1 *).
Inductive effect :=
| Start (slot p : nat) | Terminate (p : nat) | Join (p : nat) | Kill (p : nat)
| Got (a : action)      (* action_queue.get() returned a *)
| EExit (c : exit_code).
Inductive outcome := Cont | Exited (c : exit_code) | Crashed (p : nat) (* ProcessLookupError(p) escapes *) | OutOfFuel.

Record cfg := mkCfg { nworkers : nat; max_fails : Z }.
Record state := mkState { workers : list proc; queue : list action; restarts : Z; next_pid : nat }.
Record tick_events := mkTE { te_sleep : list event; te_drain : list (list event); te_alive : list (list event) }.

Definition dummy : proc := mkProc 0 Reaped.
Definition set_workers (st : state) ws := mkState ws (queue st) (restarts st) (next_pid st).
Definition set_queue (st : state) q := mkState (workers st) q (restarts st) (next_pid st).
Definition set_restarts (st : state) r := mkState (workers st) (queue st) r (next_pid st).
Definition enq (st : state) (l : list action) := set_queue st (queue st ++ l).

Fixpoint set_nth {A} (i : nat) (x : A) (l : list A) : list A :=
  match l with
  | [] => []
  | h :: t => match i with O => x :: t | S j => h :: set_nth j x t end
  end.

(* ---- asynchronous events *)
Definition kill_proc (p : proc) : proc := match pst p with Live => mkProc (pid p) Zombie | _ => p end.
Definition die (i : nat) (ws : list proc) : list proc :=
  match nth_error ws i with Some p => set_nth i (kill_proc p) ws | None => ws end.
Definition reap_proc (p : proc) : proc := mkProc (pid p) Reaped.
Definition die_polled (i : nat) (ws : list proc) : list proc :=
  match nth_error ws i with Some p => set_nth i (reap_proc p) ws | None => ws end.
Definition deliver1 (st : state) (e : event) : state :=
  match e with
  | Die i => set_workers st (die i (workers st))
  | DieS i => set_workers st (die_polled i (workers st))
  | Hup | FileChange => enq st [ReloadAll]      (* signal handler / schedule_workers_reload *)
  | Int | Term => enq st [Shutdown]
  end.
Definition deliver (st : state) (evs : list event) : state := fold_left deliver1 evs st.
(* the liveness scan and the shutdown branch start no process: no startup window, hence no polled death, at
   their delivery points (a DieS listed there does not happen) *)
Definition unpolled (e : event) : bool := match e with DieS _ => false | _ => true end.
Definition deliver_np (st : state) (evs : list event) : state := deliver st (filter unpolled evs).
Definition pop (l : list (list event)) : list event * list (list event) :=
  match l with [] => ([], []) | h :: t => (h, t) end.

(* multiprocessing.Process.is_alive(): polls (waitpid WNOHANG), i.e. reaps a zombie *)
Definition is_alive (p : proc) : bool * proc :=
  match pst p with Live => (true, p) | _ => (false, mkProc (pid p) Reaped) end.

(* ---- prepare_workers: Process(...).start() per slot; _wait_for_worker_startup calls is_alive() once on
   a process that was just started.  Whatever happens asynchronously inside prepare_workers (signals, file
   changes, a worker that exits at once) is the head of the first tick's te_sleep: nothing in between looks at
   the queue or at the workers, except that poll - a worker that died before it is `DieS i` (reaped), one
   that died after it `Die i` (zombie).  Likewise the startup wait at the end of ReloadOneAction.handle and the
   events at the head of the next te_drain entry. *)
Definition init (c : cfg) (p0 : nat) : state * list effect :=
  (mkState (map (fun i => mkProc (p0 + i) Live) (seq 0 (nworkers c))) [] 0%Z (p0 + nworkers c),
   map (fun i => Start i (p0 + i)) (seq 0 (nworkers c))).

(* ---- ReloadOneAction.handle *)
Definition handle_reload (i : nat) (st : state) : state * list effect :=
  match nth_error (workers st) i with
  | None => (st, [])                                  (* "Unknown worker id." *)
  | Some w =>
      (* worker.terminate(); worker.join()  (the old Process object is dropped afterwards);
         new_process.start(); workers[i] = new_process *)
      (mkState (set_nth i (mkProc (next_pid st) Live) (workers st)) (queue st) (restarts st) (S (next_pid st)),
       [Terminate (pid w); Join (pid w); Start i (next_pid st)])
  end.

(* ---- shutdown branch (current code: `if worker.pid and worker.is_alive(): os.kill(...)`) *)
Fixpoint shutdown_live (idxs : list nat) (st : state) (aevs : list (list event)) : state * list effect * outcome :=
  match idxs with
  | [] => (st, [EExit ExitNone], Exited ExitNone)
  | k :: ks =>
      if pid (nth k (workers st) dummy) =? 0 then shutdown_live ks st aevs   (* `worker.pid and` short-circuits *)
      else
        let (ev, aevs') := pop aevs in
        let st1 := deliver_np st ev in
        let (al, w') := is_alive (nth k (workers st1) dummy) in
        let st2 := set_workers st1 (set_nth k w' (workers st1)) in
        if al then
          match pst w' with
          | Reaped => (st2, [Kill (pid w')], Crashed (pid w'))            (* os.kill raises ProcessLookupError *)
          | _ => let '(s, e, o) := shutdown_live ks st2 aevs' in (s, Kill (pid w') :: e, o)
          end
        else shutdown_live ks st2 aevs'
  end.

(* ---- liveness scan *)
Fixpoint scan (idxs : list nat) (st : state) (aevs : list (list event)) : state :=
  match idxs with
  | [] => st
  | k :: ks =>
      let (ev, aevs') := pop aevs in
      let st1 := deliver_np st ev in
      let (al, w') := is_alive (nth k (workers st1) dummy) in
      let st2 := set_workers st1 (set_nth k w' (workers st1)) in
      scan ks (if al then st2 else enq st2 [ReloadOne k false]) aevs'
  end.

(* ---- the drain loop; `sd` is the shutdown branch (parameter so that coq/findings can plug the
   defective variant into the very same loop) *)
Definition shutdown_fn := list nat -> state -> list (list event) -> state * list effect * outcome.

(* one iteration of `while not self.action_queue.empty():` - either goes on (new loop state, effects) or
   leaves start()'s drain (state, effects, outcome; outcome Cont = queue found empty) *)
Definition loop_state := (state * list (list event) * list nat)%type.   (* state, te_drain left, reloaded_workers *)
Definition body (sd : shutdown_fn) (c : cfg) (aevs : list (list event)) (ls : loop_state)
  : (loop_state * list effect) + (state * list effect * outcome) :=
  let '(st, devs, reloaded) := ls in
  let (ev, devs') := pop devs in
  let st1 := deliver st ev in
  match queue st1 with
  | [] => inr (st1, [], Cont)
  | a :: q =>
      let st2 := set_queue st1 q in
      match a with
      | ReloadAll =>
          inl ((enq st2 (map (fun i => ReloadOne i true) (seq 0 (length (workers st2)))), devs', reloaded), [Got a])
      | ReloadOne i ra =>
          let counted := andb (negb ra) (1 <=? max_fails c)%Z in
          let st3 := if counted then set_restarts st2 (restarts st2 + 1)%Z else st2 in
          if andb counted (max_fails c <=? restarts st3)%Z
          then inr (st3, [Got a; EExit ExitFail], Exited ExitFail)
          else if existsb (Nat.eqb i) reloaded
               then inl ((st3, devs', reloaded), [Got a])
               else let (st4, eh) := handle_reload i st3 in inl ((st4, devs', i :: reloaded), Got a :: eh)
      | Shutdown =>
          let '(s, e, o) := sd (seq 0 (length (workers st2))) st2 aevs in inr (s, Got a :: e, o)
      end
  end.

Fixpoint drain_gen (sd : shutdown_fn) (fuel : nat) (c : cfg) (aevs : list (list event)) (ls : loop_state)
  : state * list effect * outcome :=
  match fuel with
  | O => (fst (fst ls), [], OutOfFuel)
  | S f =>
      match body sd c aevs ls with
      | inl (ls', e) => let '(s, e', o) := drain_gen sd f c aevs ls' in (s, e ++ e', o)
      | inr r => r
      end
  end.

(* fuel: every iteration that goes on removes one action; a ReloadAll costs the n ReloadOne it puts *)
Definition acost (n : nat) (a : action) : nat := match a with ReloadAll => n + 2 | _ => 1 end.
Definition ecost (n : nat) (e : event) : nat :=
  match e with Die _ | DieS _ => 0 | Hup | FileChange => n + 2 | Int | Term => 1 end.
Definition qcost (n : nat) (q : list action) : nat := fold_right (fun a s => acost n a + s) 0 q.
Definition evcost (n : nat) (l : list event) : nat := fold_right (fun e s => ecost n e + s) 0 l.
Definition devcost (n : nat) (l : list (list event)) : nat := fold_right (fun e s => evcost n e + s) 0 l.
Definition fuel_of (st : state) (devs : list (list event)) : nat :=
  S (qcost (length (workers st)) (queue st) + devcost (length (workers st)) devs).

Definition tick_gen (sd : shutdown_fn) (c : cfg) (st : state) (te : tick_events) : state * list effect * outcome :=
  let st1 := deliver st (te_sleep te) in
  let '(st2, effs, o) := drain_gen sd (fuel_of st1 (te_drain te)) c (te_alive te) (st1, te_drain te, []) in
  match o with
  | Cont => (scan (seq 0 (length (workers st2))) st2 (te_alive te), effs, Cont)
  | _ => (st2, effs, o)
  end.

Definition drain := drain_gen shutdown_live.
Definition tick : cfg -> state -> tick_events -> state * list effect * outcome := tick_gen shutdown_live.

(* ---- a whole run: effects per tick (head = prepare_workers), final outcome, final state *)
Fixpoint run_from_gen (sd : shutdown_fn) (c : cfg) (st : state) (hist : list tick_events)
  : list (list effect) * outcome * state :=
  match hist with
  | [] => ([], Cont, st)
  | te :: h =>
      let '(st', effs, o) := tick_gen sd c st te in
      match o with
      | Cont => let '(l, o', s') := run_from_gen sd c st' h in (effs :: l, o', s')
      | _ => ([effs], o, st')
      end
  end.
Definition run_gen sd (c : cfg) (p0 : nat) (hist : list tick_events) : list (list effect) * outcome * state :=
  let (st0, e0) := init c p0 in
  let '(l, o, s) := run_from_gen sd c st0 hist in (e0 :: l, o, s).
Definition run_from := run_from_gen shutdown_live.
Definition run := run_gen shutdown_live.

(* ================= Boolean forms of the statements, evaluated on observed traces ================= *)
Definition pst_eqb (a b : pstate) : bool :=
  match a, b with Live, Live | Zombie, Zombie | Reaped, Reaped => true | _, _ => false end.
Definition proc_eqb (a b : proc) : bool := andb (pid a =? pid b) (pst_eqb (pst a) (pst b)).
Definition action_eqb (a b : action) : bool :=
  match a, b with
  | ReloadAll, ReloadAll | Shutdown, Shutdown => true
  | ReloadOne i x, ReloadOne j y => andb (i =? j) (Bool.eqb x y)
  | _, _ => false
  end.
Definition exit_eqb (a b : exit_code) : bool :=
  match a, b with ExitNone, ExitNone | ExitFail, ExitFail => true | _, _ => false end.
Definition effect_eqb (a b : effect) : bool :=
  match a, b with
  | Start s p, Start s' p' => andb (s =? s') (p =? p')
  | Terminate p, Terminate p' | Join p, Join p' | Kill p, Kill p' => p =? p'
  | Got x, Got y => action_eqb x y
  | EExit x, EExit y => exit_eqb x y
  | _, _ => false
  end.
Definition outcome_eqb (a b : outcome) : bool :=
  match a, b with
  | Cont, Cont | OutOfFuel, OutOfFuel => true
  | Exited x, Exited y => exit_eqb x y
  | Crashed p, Crashed q => p =? q
  | _, _ => false
  end.
Fixpoint list_eqb {A} (eqb : A -> A -> bool) (l m : list A) : bool :=
  match l, m with
  | [], [] => true
  | x :: l', y :: m' => andb (eqb x y) (list_eqb eqb l' m')
  | _, _ => false
  end.

(* --- C17 one live process per slot, on a flat effect trace.
   occ  : (slot, pid) of every process started and not yet joined
   last : (slot, pid) of every Start so far, newest first
   rpre : the effects seen so far, newest first *)
Definition slot_occ (s : nat) (occ : list (nat * nat)) : list nat :=
  map snd (filter (fun sp => fst sp =? s) occ).
Definition drop_pid (p : nat) (occ : list (nat * nat)) : list (nat * nat) :=
  filter (fun sp => negb (snd sp =? p)) occ.
Fixpoint last_started (s : nat) (last : list (nat * nat)) : option nat :=
  match last with [] => None | (s', p) :: t => if s' =? s then Some p else last_started s t end.
Definition occ_step (occ : list (nat * nat)) (e : effect) : list (nat * nat) :=
  match e with Start s p => (s, p) :: occ | Join p => drop_pid p occ | _ => occ end.
Definition last_step (last : list (nat * nat)) (e : effect) : list (nat * nat) :=
  match e with Start s p => (s, p) :: last | _ => last end.
Definition start_ok (occ last : list (nat * nat)) (rpre : list effect) (s : nat) : bool :=
  andb (match slot_occ s occ with [] => true | _ => false end)
       (match last_started s last with
        | None => true
        | Some q => match rpre with Join q1 :: Terminate q2 :: _ => andb (q1 =? q) (q2 =? q) | _ => false end
        end).
Fixpoint olps_go (occ last : list (nat * nat)) (rpre : list effect) (tr : list effect) : bool :=
  match tr with
  | [] => true
  | e :: t =>
      andb (match e with Start s _ => start_ok occ last rpre s | _ => true end)
           (olps_go (occ_step occ e) (last_step last e) (e :: rpre) t)
  end.
Definition olps_check (tr : list effect) : bool := olps_go [] [] [] tr.

(* --- counting *)
Definition is_fail_got (e : effect) : bool := match e with Got (ReloadOne _ false) => true | _ => false end.
Definition is_start_of (s : nat) (e : effect) : bool := match e with Start s' _ => s' =? s | _ => false end.
Definition is_start (e : effect) : bool := match e with Start _ _ => true | _ => false end.
Definition is_got_all (e : effect) : bool := match e with Got ReloadAll => true | _ => false end.
Definition count {A} (f : A -> bool) (l : list A) : nat := length (filter f l).

(* --- C18 fail_exit_iff on (max_fails, flat trace, outcome) *)
Definition fail_exit_check (mf : Z) (tr : list effect) (o : outcome) : bool :=
  let k := Z.of_nat (count is_fail_got tr) in
  match o with
  | Exited ExitFail => andb (1 <=? mf)%Z (k =? mf)%Z
  | _ => orb (mf <? 1)%Z (k <? mf)%Z
  end.

(* --- C18 reload_all_once on one tick *)
Definition reload_all_check (n : nat) (effs : list effect) (o : outcome) : bool :=
  if existsb is_got_all effs then
    match o with
    | Cont => forallb (fun s => count (is_start_of s) effs =? 1) (seq 0 n)
    | _ => forallb (fun s => count (is_start_of s) effs <=? 1) (seq 0 n)
    end
  else true.

(* --- C18 shutdown_clean on the tick that takes Shutdown: after `Got Shutdown` only Kills then
   EExit ExitNone; the killed pids are duplicate-free, each is the pid of a current worker that is not
   Reaped at the end, and every worker still Live at the end was signalled *)
Fixpoint after_shutdown (effs : list effect) : option (list effect) :=
  match effs with [] => None | Got Shutdown :: t => Some t | _ :: t => after_shutdown t end.
Fixpoint kills_then_exit (l : list effect) : option (list nat) :=
  match l with
  | [EExit ExitNone] => Some []
  | Kill p :: t => match kills_then_exit t with Some ks => Some (p :: ks) | None => None end
  | _ => None
  end.
Fixpoint nodupb (l : list nat) : bool :=
  match l with [] => true | x :: t => andb (negb (existsb (Nat.eqb x) t)) (nodupb t) end.
Definition shutdown_check (ws : list proc) (effs : list effect) (o : outcome) : bool :=
  match after_shutdown effs with
  | None => true
  | Some suf =>
      match kills_then_exit suf with
      | None => false
      | Some ks =>
          andb (outcome_eqb o (Exited ExitNone))
          (andb (nodupb ks)
          (andb (forallb (fun p => existsb (fun w => andb (pid w =? p) (negb (pst_eqb (pst w) Reaped))) ws) ks)
                (forallb (fun w => orb (negb (pst_eqb (pst w) Live)) (existsb (Nat.eqb (pid w)) ks)) ws)))
      end
  end.

(* --- what the harness evaluates on every observed run *)
Definition C17_check (n : nat) (ticks : list (list effect)) (final : list proc) : bool :=
  andb (olps_check (concat ticks)) (length final =? n).
Fixpoint ticks_check (n : nat) (ticks : list (list effect)) (o : outcome) : bool :=
  match ticks with
  | [] => true
  | e :: t => match t with [] => reload_all_check n e o | _ => andb (reload_all_check n e Cont) (ticks_check n t o) end
  end.
Definition C18_check (n : nat) (mf : Z) (ticks : list (list effect)) (o : outcome) (final : list proc) : bool :=
  andb (fail_exit_check mf (concat ticks) o)
  (andb (ticks_check n (tl ticks) o) (shutdown_check final (last ticks []) o)).
