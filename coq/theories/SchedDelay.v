(* Model of the one-shot ("time") branch of taskiq.cli.scheduler.run.get_task_delay.
   Instants and durations are Z microseconds (UTC, since the epoch).  The harness turns naive
   datetimes (meaning UTC) and aware datetimes into instants; everything after that is here.

     now = datetime.now(tz=UTC)
     task_time = to_tz_aware(task.time)
     if task_time <= now: return 0
     one_min_ahead = (now + timedelta(minutes=1)).replace(second=1, microsecond=0)
     if task_time <= one_min_ahead:
         delay = task_time - now
         if delay.microseconds: return int(delay.total_seconds()) + 1
         return int(delay.total_seconds())
     return None                                                                      *)
From Coq Require Import ZArith.
Open Scope Z_scope.

Definition US  : Z := 1000000.
Definition MIN : Z := 60 * US.

Definition floor_minute (t : Z) : Z := (t / MIN) * MIN.
Definition next_boundary (now : Z) : Z := floor_minute now + MIN.
(* (now + 1 min).replace(second=1, microsecond=0) *)
Definition horizon (now : Z) : Z := floor_minute (now + MIN) + US.

Definition delay (T now : Z) : option Z :=
  if T <=? now then Some 0
  else if T <=? horizon now then
    let d := T - now in
    if (d mod US) =? 0 then Some (d / US) else Some (d / US + 1)
  else None.

(* Boolean form of the property statement, evaluated on implementation observations. *)
Definition C14_check (T now : Z) (obs : option Z) : bool :=
  if T <=? now then match obs with Some 0 => true | _ => false end
  else if next_boundary now + US <? T then match obs with None => true | _ => false end
  else match obs with
       | Some d => andb (T <=? now + d * US) (now + d * US <? T + US)
       | None => false
       end.

Definition oeqb (a b : option Z) : bool :=
  match a, b with
  | Some x, Some y => x =? y
  | None, None => true
  | _, _ => false
  end.
