(* Civil time for C13: instant (Z microseconds since 1970-01-01T00:00Z, already shifted to the wall
   clock the cron expression is read on) -> the five values pycron.is_now reads from a datetime:
       dt.minute, dt.hour, dt.day, dt.month, (0 if dt.isoweekday() == 7 else dt.isoweekday())
   plus the year.  CPython's datetime computes these from the proleptic Gregorian ordinal; the model
   uses the days-to-civil algorithm (H. Hinnant, "chrono-compatible low-level date algorithms").
   Python's `//` and `%` on int are Coq's `/` and `mod` on Z for positive divisors (floor).
   No proofs here (see proofs/CivilProofs.v). *)
From Coq Require Import ZArith Bool.
From TQ Require Import SchedDelay.   (* US, MIN, floor_minute *)
Open Scope Z_scope.

(* days since 1970-01-01 -> (year, month 1..12, day 1..31) *)
Definition civil_from_days (z0 : Z) : Z * Z * Z :=
  let z := z0 + 719468 in
  let era := z / 146097 in
  let doe := z - era * 146097 in
  let yoe := (doe - doe / 1460 + doe / 36524 - doe / 146096) / 365 in
  let y := yoe + era * 400 in
  let doy := doe - (365 * yoe + yoe / 4 - yoe / 100) in
  let mp := (5 * doy + 2) / 153 in
  let d := doy - (153 * mp + 2) / 5 + 1 in
  let m := if mp <? 10 then mp + 3 else mp - 9 in
  (if m <=? 2 then y + 1 else y, m, d).

(* (year, month, day) -> days since 1970-01-01 *)
Definition days_from_civil (y0 m d : Z) : Z :=
  let y := if m <=? 2 then y0 - 1 else y0 in
  let era := y / 400 in
  let yoe := y - era * 400 in
  let doy := (153 * (if m >? 2 then m - 3 else m + 9) + 2) / 5 + d - 1 in
  let doe := yoe * 365 + yoe / 4 - yoe / 100 + doy in
  era * 146097 + doe - 719468.

(* the Gregorian calendar, stated independently of the two conversions *)
Definition is_leap (y : Z) : bool :=
  (y mod 4 =? 0) && (negb (y mod 100 =? 0) || (y mod 400 =? 0)).

Definition days_in_month (y m : Z) : Z :=
  if m =? 2 then (if is_leap y then 29 else 28)
  else if (m =? 4) || (m =? 6) || (m =? 9) || (m =? 11) then 30
  else 31.

(* cron numbering: 0 = Sunday .. 6 = Saturday; day 0 (1970-01-01) is a Thursday *)
Definition weekday_of_days (days : Z) : Z := (days + 4) mod 7.

(* Zeller's congruence on the civil date (January, February = months 13, 14 of the previous year),
   renumbered to 0 = Sunday: an independent reading of the weekday, used only in theorems *)
Definition weekday_of_civil (y0 m0 d : Z) : Z :=
  let y := if m0 <=? 2 then y0 - 1 else y0 in
  let m := if m0 <=? 2 then m0 + 12 else m0 in
  (d + (13 * (m + 1)) / 5 + y + y / 4 - y / 100 + y / 400 + 6) mod 7.

Record fields : Set := mkF {
  f_minute : Z; f_hour : Z; f_dom : Z; f_month : Z; f_dow : Z; f_year : Z }.

Definition minute_index (t : Z) : Z := t / MIN.          (* whole minutes since the epoch *)

Definition fields_of (t : Z) : fields :=
  let mins := minute_index t in
  let days := mins / 1440 in
  let r := mins mod 1440 in
  let '(y, m, d) := civil_from_days days in
  mkF (r mod 60) (r / 60) d m (weekday_of_days days) y.

(* the minute named by a full civil reading: inverse of fields_of on whole minutes *)
Definition minute_of_fields (fl : fields) : Z :=
  (days_from_civil (f_year fl) (f_month fl) (f_dom fl)) * 1440 + f_hour fl * 60 + f_minute fl.
