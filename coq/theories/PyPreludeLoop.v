(* Gallina reading of what get_schedules / get_all_schedules / delayed_send / one iteration of run_scheduler_loop
   (taskiq/cli/scheduler/run.py) touch, for the source translator (harness/pygal_m.py + harness/pygal_sched_loop.py).
   The statement monad is PyStm.v with E = leff and X = lexc below.  Every definition here is TRUSTED as the meaning of
   one Python construct of that file: small, literal, no proofs here.

   Objects
     task       a ScheduledTask as the loop sees it: its schedule id and what get_task_delay answers for it
                (lt_kind = Some k: SchedLoop.due k, the hand-written model's reading of get_task_delay - tied to the
                source by the unit "sched_run"; None: get_task_delay raises something that is not a ValueError)
     source     a ScheduleSource: its identity as a dict key (ScheduleSource defines neither __eq__ nor __hash__: two
                keys are equal iff they are the same object - ls_id) and what its get_schedules() answers at this poll
     scheduler  its `sources` list and whether `on_ready(source, task)` returns or raises
     world      what the iteration reads from outside: the cron decision (a Section variable of SchedLoop.v), the
                instant w_now every get_task_delay call of this iteration sees (the model's idealisation: the body
                of one poll is evaluated at ONE instant), and the k-th `datetime.now()` of the iteration, w_read k
                (naive local wall clock in microseconds; they are separate reads, nothing relates their values here;
                WHEN each read happens relative to the awaits of the iteration is visible in the run: LNow k)
   a coroutine object / an asyncio task is what it does when it runs: a value of the monad (LM unit). *)
From Coq Require Import List Arith Bool ZArith.
From TQ Require Import SchedDelay SchedLoop PyStm.
Import ListNotations.
Open Scope Z_scope.

(* which exception is propagating *)
Inductive lexc :=
| XValueError       (* ValueError out of get_task_delay (pycron cannot parse the expression) *)
| XDelayOther       (* any other Exception out of get_task_delay *)
| XSource           (* an Exception (not a ValueError) raised by source.get_schedules() *)
| XOnReady.         (* an Exception raised by scheduler.on_ready *)

(* observable effects; a spawned / kept task is identified with the run of its coroutine *)
Inductive leff :=
| LList (i : nat)                                (* source i's get_schedules() was called *)
| LSpawn (c : list leff * outc lexc unit)        (* loop.create_task(c) *)
| LKeep (c : list leff * outc lexc unit)         (* running_schedules.add(task of c) *)
| LOnDone (c : list leff * outc lexc unit)       (* (task of c).add_done_callback(running_schedules.discard) *)
| LOnReady (i sid : nat)                         (* scheduler.on_ready(source i, task sid) was called *)
| LSleep (us : Z)                                (* asyncio.sleep of us microseconds was awaited *)
| LNow (k : nat).                                (* the iteration's k-th datetime.now() was evaluated *)

Definition LM (A : Type) : Type := M leff lexc A.

(* `except ValueError` / `except Exception` (all four are Exceptions) *)
Definition is_ValueError (x : lexc) : bool := match x with XValueError => true | _ => false end.
Definition is_exception (x : lexc) : bool := true.
Definition try_else {R A B} := @try_else_on leff lexc R A B is_exception.
Definition try_except {R A} := @try_except_on leff lexc R A is_exception.

(*  for x in l: body   where body contains `continue`: inside the body the return channel carries `inr s` = "continue
    with loop state s" (a `return` inside such a body is rejected by the translator, so `inl` never occurs there) *)
Definition continue_ {E X R S A} (s : S) : stm E X (R + S) A := ret (Return (inr s)).
Fixpoint for_c {E X R Y S : Type} (l : list Y) (body : Y -> S -> stm E X (R + S) S) (s : S) : stm E X R S :=
  match l with
  | [] => next s
  | x :: l' => bind (body x s) (fun c => match c with
                                         | Normal s' => for_c l' body s'
                                         | Return (inr s') => for_c l' body s'
                                         | Return (inl r) => ret (Return r)
                                         end)
  end.

Record ltask := mkltask { lt_sid : nat; lt_kind : option kind }.
Record lsource := mklsource { ls_id : nat; ls_listing : option (list ltask) }.      (* None: get_schedules() raises *)
Record lsched := mklsched { lsc_sources : list lsource; lsc_on_ready_ok : nat -> nat -> bool }.
Record world := mkworld { w_cron_due : nat -> Z -> bool; w_now : Z; w_read : nat -> Z }.

(*  scheduler.sources  *)
Definition sched_sources (s : lsched) : list lsource := lsc_sources s.

(*  await source.get_schedules()  *)
Definition source_get_schedules (s : lsource) : LM (list ltask) :=
  emit (LList (ls_id s)) ;;; match ls_listing s with Some l => ret l | None => raise XSource end.

(*  await asyncio.gather( *aws ): every awaitable runs (none is cancelled when another raises), the results come in
    the order of the arguments; an exception of one of them propagates.  Effects are listed in argument order (each
    awaitable's only effect here happens when it starts, and gather starts them in order); the exception that
    propagates is the first in argument order (real gather: the first in time - not distinguishable here) *)
Fixpoint asyncio_gather {A} (l : list (LM A)) : LM (list A) :=
  match l with
  | [] => ret []
  | c :: r => let (es1, o1) := c in let (es2, o2) := asyncio_gather r in
              (es1 ++ es2, match o1, o2 with Ok x, Ok xs => Ok (x :: xs) | Exc e, _ => Exc e | Ok _, Exc e => Exc e end)
  end.

(*  zip(a, b)  *)
Definition zip {A B} (a : list A) (b : list B) : list (A * B) := combine a b.
(*  dict(pairs) with sources as keys: a later pair with a key already present replaces the VALUE, the entry keeps its
    position and its first key object;  d.items(): the entries in insertion order *)
Fixpoint dict_set {V} (d : list (lsource * V)) (k : lsource) (v : V) : list (lsource * V) :=
  match d with
  | [] => [(k, v)]
  | (k', v') :: r => if Nat.eqb (ls_id k') (ls_id k) then (k', v) :: r else (k', v') :: dict_set r k v
  end.
Definition dict_of_pairs {V} (l : list (lsource * V)) : list (lsource * V) :=
  fold_left (fun d kv => dict_set d (fst kv) (snd kv)) l [].
Definition dict_items {V} (d : list (lsource * V)) : list (lsource * V) := d.

(*  get_task_delay(task): raises ValueError | returns None | returns the delay in seconds  (SchedLoop.due) *)
Definition get_task_delay (w : world) (t : ltask) : LM (option Z) :=
  match lt_kind t with
  | None => raise XDelayOther
  | Some k => match due (w_cron_due w) k (w_now w) with
              | DErr => raise XValueError
              | DNo => ret None
              | DSend d => ret (Some d)
              end
  end.

(*  loop.create_task(coro)  /  running_schedules.add(t)  /  t.add_done_callback(running_schedules.discard)  *)
Definition loop_create_task (lp : unit) (c : LM unit) : LM (LM unit) := emit (LSpawn c) ;;; ret c.
Definition set_add (s : unit) (t : LM unit) : LM unit := emit (LKeep t).
Definition add_done_callback_discard (t : LM unit) (s : unit) : LM unit := emit (LOnDone t).

(*  await scheduler.on_ready(source, task)  *)
Definition scheduler_on_ready (s : lsched) (src : lsource) (t : ltask) : LM unit :=
  emit (LOnReady (ls_id src) (lt_sid t)) ;;;
  if lsc_on_ready_ok s (ls_id src) (lt_sid t) then ret tt else raise XOnReady.

(*  await asyncio.sleep(n), n an int number of seconds  /  await asyncio.sleep(td.total_seconds()): the float is
    identified with the timedelta's microseconds (exact and injective for |td| < 2^53 us)  *)
Definition asyncio_sleep_s (s : Z) : LM unit := emit (LSleep (s * US)).
Definition td_total_seconds (d : Z) : Z := d.
Definition asyncio_sleep_f (us : Z) : LM unit := emit (LSleep us).

(*  datetime.now(): the k-th read of the iteration (naive wall clock, microseconds);
    naive.replace(second=s, microsecond=us) with literal 0 <= s < 60, 0 <= us < 10^6: same wall-clock minute;
    naive + timedelta, naive - naive: wall-clock arithmetic (written + and - by the translator)  *)
Definition datetime_now (w : world) (k : nat) : Z := w_read w k.
(*  x = <expression containing the k-th datetime.now()> : the assignment is marked in the run, its value is v  *)
Definition at_clock_read {A} (k : nat) (v : A) : LM A := emit (LNow k) ;;; ret v.
Definition naive_replace_s_us (wall s us : Z) : Z := floor_minute wall + s * US + us.
