(* Dependency injection around one execution (C06, C12).

   Part 1 - the resolver's context tree and its teardown: taskiq_dependencies 1.5.7, ctx.py
     class BaseResolveContext:  opened_dependencies = [] ; sub_contexts = [] ; propagate_excs = True (default)
     resolver(executed_func, initial_cache):
        if dep_graph:  ctx = AsyncResolveContext(graph, main_graph, initial_cache); sub_contexts.append(ctx); resolve
        elif generator / async generator / context manager / async context manager:
                       open it; opened_dependencies.append(executed_func)
     close( *args):
        exception_found = propagate_excs and len(args) > 1 and args[1] is not None
        for ctx in self.sub_contexts: await ctx.close( *args)
        for dep in reversed(self.opened_dependencies):
            generator styles : if exception_found: dep.throw( *args) else: exhaust it
            context managers : dep.__exit__( *args)

   Part 2 - the effects of one Receiver.callback / run_task around them: taskiq/receiver/receiver.py
     [ack when_received]; run_task { Context written, async_ctx(copy); try: resolve_kwargs(); body
       except: found_exception ; args = exc-info iff found_exception and self.propagate_exceptions ;
       dep_ctx.close( *args ) ; result assembled ; on_error hooks iff found_exception } ;
     [ack when_executed]; set_result unless NoResultError ; [ack when_saved]

   Part 3 - the dictionaries the resolver reads Context from (aliasing): receiver.py run_task, ctx.py traverse_deps
     broker_ctx = broker.custom_dependency_context ; broker_ctx.update({Context: Context(message, broker)})
     dep_ctx = graph.async_ctx(broker_ctx.copy())               -> self.initial_cache (the object itself)
     traverse_deps: cache = copy(self.initial_cache)            (once per resolver context, when its traversal starts)
     sub-context: AsyncResolveContext(graph, main_graph, initial_cache)   (the parent's initial_cache object)
     kwargs[param] = cache[Context]
     broker.dependency_overrides: async_ctx(initial_cache, replaced_deps) builds a new DependencyGraph(target,
     replaced_deps) for every execution and resolves that one.  The dictionary handling above does not look at the
     graph, so the model does not either: which resolver contexts an execution creates (ATraverse i c) and which of
     them a dependency reads from (ARead i c) are whatever the overridden graph makes them - any number, at any time.
     User entries of custom_dependency_context (add_dependency_context) are constant and copied along with Context.

   No proofs in this file. *)
From Coq Require Import List Bool Arith PeanoNat.
Import ListNotations.

(* ------------------------------------------------------------------ Part 1: context tree *)
Inductive style := SGen | SAGen | SCm | SACm.

(* the content of one resolver context, in the order things were appended to it *)
Inductive item :=
| Own (d : nat) (s : style)        (* opened_dependencies.append(dep) ; d identifies the opened instance *)
| Sub (c : list item).             (* sub_contexts.append(ctx) : one per use_cache=False dependency *)
Definition rctx := list item.

Fixpoint open_order_item (it : item) : list nat :=
  match it with
  | Own d _ => [d]
  | Sub c => flat_map open_order_item c
  end.
Definition open_order (c : rctx) : list nat := flat_map open_order_item c.

Definition own_of (it : item) : list (nat * style) :=
  match it with Own d s => [(d, s)] | Sub _ => [] end.
Definition owns (c : rctx) : list (nat * style) := flat_map own_of c.

(* what one dependency sees at teardown. pe = the context's propagate_excs, args = "exc-info is not None" *)
Definition close_dep (pe args : bool) (p : nat * style) : nat * bool :=
  match snd p with
  | SGen | SAGen => (fst p, pe && args)      (* exception_found -> throw, else exhaust *)
  | SCm | SACm => (fst p, args)              (* __exit__( *args ) *)
  end.

(* sub-contexts are created with the default propagate_excs = True *)
Fixpoint close_item (args : bool) (it : item) : list (nat * bool) :=
  match it with
  | Own _ _ => []
  | Sub c => flat_map (close_item args) c ++ map (close_dep true args) (rev (owns c))
  end.
Definition close_ctx (pe args : bool) (c : rctx) : list (nat * bool) :=
  flat_map (close_item args) c ++ map (close_dep pe args) (rev (owns c)).
Definition close_order (c : rctx) : list nat := map fst (close_ctx true false c).

Fixpoint has_sub (c : rctx) : bool :=
  match c with [] => false | Own _ _ :: t => has_sub t | Sub _ :: _ => true end.

(* ------------------------------------------------------------------ Part 2: effects of one execution *)
Inductive outcome := OReturn | ORaise | OBase | OTimeout | ONoResult.
(* RFail: a dependency raised while it was being opened (resolve_kwargs raised); RDone o: the body ran *)
Inductive resolution := RFail | RDone (o : outcome).
Inductive ackpoint := AReceived | AExecuted | ASaved.

Inductive eff :=
| FBegin
| FOpen (d : nat)
| FDepFail
| FTaskStart
| FTaskEnd (o : outcome)
| FClose (d : nat) (saw : bool)
| FOnError
| FAck (p : ackpoint)
| FSave | FSaveFail | FSaveSkip.

Record cfg := { propagate : bool; ack : ackpoint; ackable : bool; has_mw : bool; save_ok : bool }.

Definition found_exception (r : resolution) : bool :=
  match r with RDone OReturn => false | _ => true end.
Definition no_result (r : resolution) : bool :=
  match r with RDone ONoResult => true | _ => false end.

Definition ackpoint_eqb (a b : ackpoint) : bool :=
  match a, b with AReceived, AReceived | AExecuted, AExecuted | ASaved, ASaved => true | _, _ => false end.
Definition ack_at (cf : cfg) (p : ackpoint) : list eff :=
  if ackable cf && ackpoint_eqb (ack cf) p then [FAck p] else [].

Definition close_effs (cf : cfg) (c : rctx) (r : resolution) : list eff :=
  map (fun p => FClose (fst p) (snd p)) (close_ctx true (found_exception r && propagate cf) c).

Definition run_task_effs (cf : cfg) (c : rctx) (r : resolution) : list eff :=
  [FBegin] ++ map FOpen (open_order c) ++
  match r with RFail => [FDepFail] | RDone o => [FTaskStart; FTaskEnd o] end ++
  close_effs cf c r ++
  (if found_exception r && has_mw cf then [FOnError] else []).

Definition save_effs (cf : cfg) (r : resolution) : list eff :=
  if no_result r then [FSaveSkip] else if save_ok cf then [FSave] else [FSaveFail].

Definition callback_effs (cf : cfg) (c : rctx) (r : resolution) : list eff :=
  ack_at cf AReceived ++ run_task_effs cf c r ++ ack_at cf AExecuted ++ save_effs cf r ++ ack_at cf ASaved.

(* classification used by the statement *)
Definition is_close (e : eff) : bool := match e with FClose _ _ => true | _ => false end.
Definition is_finish (e : eff) : bool := match e with FTaskEnd _ | FDepFail => true | _ => false end.
(* the result becomes visible / the message is acknowledged after execution *)
Definition is_visible (e : eff) : bool :=
  match e with FSave | FSaveFail | FSaveSkip | FAck AExecuted | FAck ASaved => true | _ => false end.

Definition opened_ids (l : list eff) : list nat :=
  flat_map (fun e => match e with FOpen d => [d] | _ => [] end) l.
Definition closed_ids (l : list eff) : list nat :=
  flat_map (fun e => match e with FClose d _ => [d] | _ => [] end) l.
Definition saw_flags (l : list eff) : list bool :=
  flat_map (fun e => match e with FClose _ s => [s] | _ => [] end) l.

(* concurrent executions: a global trace of (execution, effect) built by repeatedly taking the next effect of
   some execution *)
Fixpoint upd_nth {A} (i : nat) (x : A) (l : list A) : list A :=
  match l, i with
  | [], _ => []
  | _ :: t, 0 => x :: t
  | h :: t, S j => h :: upd_nth j x t
  end.
Inductive Interleave {A : Type} : list (list A) -> list (nat * A) -> Prop :=
| il_nil : forall ts, Forall (fun t => t = []) ts -> Interleave ts []
| il_cons : forall ts i x t g, nth_error ts i = Some (x :: t) -> Interleave (upd_nth i t ts) g ->
    Interleave ts ((i, x) :: g).
Definition project {A} (i : nat) (g : list (nat * A)) : list A :=
  map snd (filter (fun p => fst p =? i) g).

(* ---- Boolean form of C12 over the observed effect sequence of one execution (evaluated on implementation
        observations; the tree is only used for the has_sub restriction of the reverse-order clause) *)
Fixpoint eqb_list (a b : list nat) : bool :=
  match a, b with
  | [], [] => true
  | x :: a', y :: b' => (x =? y) && eqb_list a' b'
  | _, _ => false
  end.
Fixpoint count (x : nat) (l : list nat) : nat :=
  match l with [] => 0 | y :: t => (if x =? y then 1 else 0) + count x t end.
(* every close after a finish, no visible effect before a close *)
Fixpoint order_ok (fin : bool) (l : list eff) : bool :=
  match l with
  | [] => true
  | e :: t =>
      if is_close e then fin && order_ok fin t
      else if is_visible e then negb (existsb is_close t) && order_ok fin t
      else order_ok (fin || is_finish e) t
  end.
Definition C12_check (cf : cfg) (c : rctx) (r : resolution) (obs : list eff) : bool :=
  let o := opened_ids obs in
  let k := closed_ids obs in
  (length o =? length k) && forallb (fun d => count d k =? 1) o        (* exactly once *)
  && order_ok false obs                                                (* after the finish, before visibility *)
  && forallb (Bool.eqb (found_exception r && propagate cf)) (saw_flags obs)   (* exception thrown in iff ... *)
  && (has_sub c || eqb_list k (rev o)).                                (* reverse order (restricted: see C12_reverse_refuted) *)

Definition style_eqb (a b : style) : bool :=
  match a, b with SGen, SGen | SAGen, SAGen | SCm, SCm | SACm, SACm => true | _, _ => false end.
Definition outcome_eqb (a b : outcome) : bool :=
  match a, b with
  | OReturn, OReturn | ORaise, ORaise | OBase, OBase | OTimeout, OTimeout | ONoResult, ONoResult => true
  | _, _ => false
  end.
Definition eff_eqb (a b : eff) : bool :=
  match a, b with
  | FBegin, FBegin | FDepFail, FDepFail | FTaskStart, FTaskStart | FOnError, FOnError
  | FSave, FSave | FSaveFail, FSaveFail | FSaveSkip, FSaveSkip => true
  | FOpen x, FOpen y => x =? y
  | FTaskEnd x, FTaskEnd y => outcome_eqb x y
  | FClose x s, FClose y t => (x =? y) && Bool.eqb s t
  | FAck p, FAck q => ackpoint_eqb p q
  | _, _ => false
  end.
Fixpoint effs_eqb (a b : list eff) : bool :=
  match a, b with
  | [], [] => true
  | x :: a', y :: b' => eff_eqb x y && effs_eqb a' b'
  | _, _ => false
  end.

(* ------------------------------------------------------------------ Part 3: the dictionaries (C06) *)
(* A dict is represented by what it holds under the key `Context`: the execution whose Context object it is
   (None = no such key).  heap[0] is broker.custom_dependency_context; every other cell is a copy. *)
Notation dict := (option nat) (only parsing).
Notation addr := nat (only parsing).

Record exec := {
  ex_ic : addr;                       (* the initial_cache object shared by all resolver contexts of the execution *)
  ex_cache : nat -> option addr;      (* resolver context number -> its `cache` (copy made when traversal starts) *)
  ex_ret : option nat                 (* `returned` / `found_exception`: Some m = produced by the body run for message m *)
}.
Record state := { heap : list dict; execs : nat -> option exec }.

Inductive action :=
| ABegin (i : nat)        (* run_task of execution i writes its Context and creates the resolver context *)
| ATraverse (i c : nat)   (* resolver context c of execution i starts traverse_deps: cache = copy(initial_cache) *)
| ARead (i c : nat)       (* kwargs[param] = cache[Context] in context c (for a dependency or for the task function) *)
| ABody (i : nat)         (* target( *message.args, **kwargs ): which message's arguments does the body see *)
| AResult (i : nat)       (* returned = await target_future / found_exception = exc : the body's value or exception *)
| ASave (i : nat).        (* set_result(taskiq_msg.task_id, result) *)
Inductive value :=
| VUnit
| VCtx (o : option nat)                 (* whose Context was read (None: the key is missing) *)
| VMsg (m : nat)                        (* whose arguments the body received *)
| VSaved (tid : nat) (r : option nat).  (* task id used as key, and which message's body produced the value *)

Definition init : state := {| heap := [None]; execs := fun _ => None |}.
Definition hget (h : list dict) (a : addr) : dict := nth a h None.
Definition fupd {B} (f : nat -> option B) (k : nat) (v : B) : nat -> option B :=
  fun x => if x =? k then Some v else f x.

(* the three ways run_task can hand the dict to the resolver: the current code, and two defective ones *)
Definition begin_t := list dict -> nat -> list dict * addr.
(* broker_ctx.update({Context: ...}) ; async_ctx(broker_ctx.copy()) *)
Definition begin_copy : begin_t := fun h i =>
  let h1 := upd_nth 0 (Some i) h in (h1 ++ [hget h1 0], length h1).

Definition step (bg : begin_t) (st : state) (a : action) : option (state * value) :=
  match a with
  | ABegin i =>
      match execs st i with
      | Some _ => None
      | None =>
          let (h, ic) := bg (heap st) i in
          Some ({| heap := h;
                   execs := fupd (execs st) i {| ex_ic := ic; ex_cache := fun _ => None; ex_ret := None |} |}, VUnit)
      end
  | ATraverse i c =>
      match execs st i with
      | None => None
      | Some e =>
          match ex_cache e c with
          | Some _ => None
          | None =>
              let a := length (heap st) in
              Some ({| heap := heap st ++ [hget (heap st) (ex_ic e)];
                       execs := fupd (execs st) i
                                  {| ex_ic := ex_ic e; ex_cache := fupd (ex_cache e) c a; ex_ret := ex_ret e |} |},
                    VUnit)
          end
      end
  | ARead i c =>
      match execs st i with
      | None => None
      | Some e =>
          match ex_cache e c with
          | None => None
          | Some a => Some (st, VCtx (hget (heap st) a))
          end
      end
  | ABody i =>
      match execs st i with
      | None => None
      | Some e => Some (st, VMsg i)     (* `message` is a local of run_task: the body gets message i's arguments *)
      end
  | AResult i =>
      match execs st i with
      | None => None
      | Some e =>
          (* `returned` / `found_exception` are locals of run_task *)
          Some ({| heap := heap st;
                   execs := fupd (execs st) i
                              {| ex_ic := ex_ic e; ex_cache := ex_cache e; ex_ret := Some i |} |}, VUnit)
      end
  | ASave i =>
      match execs st i with
      | None => None
      | Some e => Some (st, VSaved i (ex_ret e))     (* taskiq_msg / result are locals of callback *)
      end
  end.

Fixpoint run (bg : begin_t) (st : state) (acts : list action) : option (list value) :=
  match acts with
  | [] => Some []
  | a :: t =>
      match step bg st a with
      | None => None
      | Some (st', v) => match run bg st' t with None => None | Some vs => Some (v :: vs) end
      end
  end.

(* the statement, per (action, value produced) *)
Definition own_value (a : action) (v : value) : bool :=
  match a, v with
  | ARead i _, VCtx (Some j) => i =? j
  | ARead _ _, _ => false
  | ABody i, VMsg m => i =? m
  | ABody _, _ => false
  | ASave i, VSaved tid None => i =? tid
  | ASave i, VSaved tid (Some m) => (i =? tid) && (i =? m)
  | ASave _, _ => false
  | _, _ => true
  end.
Fixpoint C06_check (acts : list action) (vals : list value) : bool :=
  match acts, vals with
  | [], [] => true
  | a :: ta, v :: tv => own_value a v && C06_check ta tv
  | _, _ => false
  end.

Definition oeqb (a b : option nat) : bool :=
  match a, b with Some x, Some y => x =? y | None, None => true | _, _ => false end.
Definition value_eqb (a b : value) : bool :=
  match a, b with
  | VUnit, VUnit => true
  | VCtx x, VCtx y => oeqb x y
  | VMsg x, VMsg y => x =? y
  | VSaved t r, VSaved t' r' => (t =? t') && oeqb r r'
  | _, _ => false
  end.
Fixpoint values_eqb (a b : list value) : bool :=
  match a, b with
  | [], [] => true
  | x :: a', y :: b' => value_eqb x y && values_eqb a' b'
  | _, _ => false
  end.
(* correspondence: the model accepts the observed action sequence and produces the observed values *)
Definition C06_accepts (acts : list action) (obs : list value) : bool :=
  match run begin_copy init acts with
  | Some vs => values_eqb vs obs
  | None => false
  end.

(* ------------------------------------------------------------------ order violations (used by C12_reverse_partial_sharp) *)
(* x occurs before y in l *)
Definition before (l : list nat) (x y : nat) : Prop := exists l1 l2, l = l1 ++ x :: l2 /\ In y l2.
(* s is a sub-context of c, at any depth *)
Inductive SubOf : rctx -> rctx -> Prop :=
| sub_here : forall c s, In (Sub s) c -> SubOf c s
| sub_deep : forall c s' s, In (Sub s') c -> SubOf s' s -> SubOf c s.
