(* Gallina reading of what taskiq.receiver.receiver.Receiver.run_task touches, for the source translator
   (harness/pygal_m.py + harness/pygal_run_task.py), over the alphabet of Pipeline.v (property C07; the second reading,
   over Deps.v's alphabet, is PyPreludeRunTaskDeps.v - same names, same generated text).

   The statement monad is PyStm.v with E = Pipeline.eff and X = rt_exn below.  Objects: the receiver `self` is the
   configuration pcfg plus what the model does not look at (is the task already known, validate_params, the function
   object its per-name caches were built for); the
   task function `target`, its dependency graph and the resolver context made from it ARE the configuration too: what
   they do when called / resolved / awaited / closed is what the configuration says.  Awaitables are values (rt_fut):
   creating a coroutine object or wrapping one in asyncio.wait_for has no effect, `await` is where things happen, in
   the virtual time of Pipeline.v (c_dur, c_tie, c_race).  Everything the model has no event for (signatures, hints,
   the dependency-context dict, args / kwargs, clock values) is opaque (unit).
   Trusted like PyPrelude.v: small, literal, no proofs here. *)
From Coq Require Import List Arith Bool ZArith.
From TQ Require Import Base Pipeline.
From TQ Require Import PyStm.
Import ListNotations.

(* ------------------------------------------------------------------------------------------ exceptions *)
Inductive rt_exn :=
| UserExc (cls : nat)     (* raised by the task function / a dependency / asyncio.wait_for: its class identifier, as in
                             Pipeline.res (E_NORESULT, E_TIMEOUT, E_DEP, E_GENEXIT, ...) *)
| PipeExc (x : xkind)     (* raised by a middleware hook: the kinds of exception that leave callback (Pipeline.xkind) *)
| Unmodelled.             (* a construct this prelude gives no meaning to was executed (no run of the model has it) *)
Definition RM (A : Type) : Type := PyStm.M eff rt_exn A.

(* class identifiers in the harness' table (harness/drivers/pipeline_driver.py EXC): 5 KeyboardInterrupt, 6 SystemExit,
   7 CancelledError, 8 GeneratorExit, 10 BaseExceptionGroup are BaseExceptions that are not Exceptions; 4 is the
   CustomError the hooks raise (XHook).  ConnectionError / SendTaskError (XBackend / XSend) have no identifier there
   and cannot arise inside run_task: 11, 12. *)
Definition base_only_classes : list nat := [5; 6; 7; 8; 10].
Definition exn_class (x : rt_exn) : nat :=
  match x with
  | UserExc e => e
  | PipeExc XHook => 4 | PipeExc XGenExit => E_GENEXIT | PipeExc XBackend => 11 | PipeExc XSend => 12
  | Unmodelled => 13
  end.
(*  except NoResultError / except BaseException / except Exception *)
Definition is_NoResultError (x : rt_exn) : bool :=
  match x with UserExc e => Nat.eqb e E_NORESULT | _ => false end.
Definition is_BaseException (x : rt_exn) : bool := match x with Unmodelled => false | _ => true end.
Definition is_CancelledError (x : rt_exn) : bool := match x with UserExc e => Nat.eqb e 7 | _ => false end.
Definition is_exception (x : rt_exn) : bool :=
  match x with
  | UserExc e => negb (existsb (Nat.eqb e) base_only_classes)
  | PipeExc XGenExit => false
  | PipeExc _ => true
  | Unmodelled => false
  end.
Definition try_else {R A B} := @try_else_on eff rt_exn R A B is_exception.
Definition try_except {R A} := @try_except_on eff rt_exn R A is_exception.

(* ------------------------------------------------------------------------------------------ objects *)
(* the identity of a Python object (id(x)): `a is b` holds iff the two are the same object *)
Notation rt_obj := (nat) (only parsing).
Record rt_self := mkself {
  rs_cfg : pcfg;
  rs_known : bool;          (* message.task_name in self.known_tasks *)
  rs_validate : bool;       (* self.validate_params *)
  rs_prepared : option rt_obj }.   (* self.prepared_handlers.get(message.task_name): the function object the caches of this
                                      name were built for, None if the table has no entry.  ANY content: the model does not
                                      look at it *)
(* the task function: what it does is what the configuration says; which object it is; the object its attribute
   `original_func` holds, if it has that attribute (a decorated task has, a plain function has not) *)
Record rt_func := mkfunc { fn_cfg : pcfg; fn_obj : rt_obj; fn_original : option rt_obj }.
Notation rt_msg := (msg) (only parsing).
Notation rt_res := (res) (only parsing).
Notation rt_val := (nat) (only parsing).                                (* return values are identifiers, as in Pipeline.bout *)
Notation rt_name := (unit) (only parsing).
Notation rt_sig := (unit) (only parsing).
Notation rt_hints := (unit) (only parsing).
Notation rt_graph := (pcfg) (only parsing).                             (* the task's DependencyGraph: its plan is c_dep *)
(* the resolver context made from it, with its propagate_excs flag (taskiq_dependencies: True unless async_ctx is told
   otherwise): an exception handed to close is thrown into a generator dependency only if the flag is set *)
Record rt_depctx := mkdepctx { dc_cfg : pcfg; dc_pe : bool }.
Notation rt_bctx := (unit) (only parsing).
Notation rt_entries := (unit) (only parsing).
Notation rt_context := (unit) (only parsing).
Notation rt_state := (unit) (only parsing).
Notation rt_overrides := (unit) (only parsing).
Notation rt_kwargs := (unit) (only parsing).
Notation rt_args := (unit) (only parsing).
Notation rt_stamp := (unit) (only parsing).
Notation rt_duration := (unit) (only parsing).
Notation rt_loop := (unit) (only parsing).
Notation rt_executor := (unit) (only parsing).
Notation rt_run_sync := (unit) (only parsing).
Record rt_labels := mklabels { l_id : nat; l_timeout : option Z }.   (* message.labels: identifier of its content, "timeout" entry *)
Notation rt_tlabel := (Z) (only parsing).
Notation rt_float := (Z) (only parsing).                                (* seconds as microseconds *)
Notation rt_excinfo := (option rt_exn) (only parsing).                  (* the exception among the three arguments of close, or None *)
Notation rt_mw := (nat * mw)%type (only parsing).                     (* a middleware object: (index in the stack, hook slots) *)

(* ------------------------------------------------------------------------------------------ bookkeeping before the try *)
Definition obj_truthy {A} (_ : A) : bool := true.        (* an object without __bool__ / __len__ is true *)
Definition is_not_none {A} (o : option A) (_ : option Empty_set) : bool :=       (* o is not None *)
  match o with Some _ => true | None => false end.
Definition get_running_loop : rt_loop := tt.             (* asyncio.get_running_loop() *)
Definition task_name (m : rt_msg) : rt_name := tt.
Definition known_tasks (s : rt_self) : rt_self := s.
Definition name_in (n : rt_name) (s : rt_self) : bool := rs_known s.
Definition validate_params (s : rt_self) : bool := rs_validate s.
Definition task_signatures (s : rt_self) : rt_self := s.
Definition task_hints (s : rt_self) : rt_self := s.
Definition dependency_graphs (s : rt_self) : rt_self := s.
Definition broker_of (s : rt_self) : rt_self := s.       (* self.broker: the same configuration *)
Definition executor_of (s : rt_self) : rt_executor := tt.
Definition propagate_exceptions (s : rt_self) : bool := c_prop (rs_cfg s).
(*  self.prepared_handlers.get(name) ; `target` as an operand of `is` ; getattr(target, "original_func", target) ;
    `a is b` with a an Optional function object (None is no function object), `a is not b` = negb of it *)
Definition prepared_handlers (s : rt_self) : rt_self := s.
Definition handlers_get (s : rt_self) (n : rt_name) : option rt_obj := rs_prepared s.
Definition func_object (f : rt_func) : rt_obj := fn_obj f.
Definition original_func_or_self (f : rt_func) : rt_obj :=
  match fn_original f with Some o => o | None => fn_obj f end.
Definition object_is (a : option rt_obj) (b : rt_obj) : bool :=
  match a with Some x => Nat.eqb x b | None => false end.
(*  self._prepare_task(name, target): fills the tables below (and prepared_handlers) for a task seen for the first time
    or registered again with another function; no event *)
Definition prepare_task (s : rt_self) (n : rt_name) (f : rt_func) : RM unit := ret tt.
Definition signatures_get (s : rt_self) (n : rt_name) : option rt_sig := Some tt.
Definition hints_get (s : rt_self) (n : rt_name) : option rt_hints := Some tt.
Definition hints_or_empty (h : option rt_hints) : rt_hints := tt.               (* h or {} *)
(*  self.dependency_graphs.get(name): every task the receiver executes has a graph - built by __init__ for the
    registered tasks and by _prepare_task above for the others *)
Definition graphs_get (s : rt_self) (n : rt_name) : option rt_graph := Some (rs_cfg s).
(*  parse_params(signature, hints, message): argument conversion (property C08); no event of this alphabet *)
Definition parse_params (sg : option rt_sig) (h : rt_hints) (m : rt_msg) : RM unit := ret tt.
(*  broker_ctx = self.broker.custom_dependency_context ; broker_ctx.update({Context: Context(message, self.broker),
    TaskiqState: self.broker.state}) ; dependency_graph.async_ctx(broker_ctx.copy(), overrides or None) *)
Definition custom_dependency_context (s : rt_self) : rt_bctx := tt.
Definition broker_state (s : rt_self) : rt_state := tt.
Definition dependency_overrides (s : rt_self) : rt_overrides := tt.
Definition overrides_or_none (o : rt_overrides) : rt_overrides := o.
Definition Context (m : rt_msg) (b : rt_self) : rt_context := tt.
Definition context_entries (c : rt_context) (st : rt_state) : rt_entries := tt.
Definition bctx_update (d : rt_bctx) (e : rt_entries) : RM rt_bctx := ret tt.
Definition bctx_copy (d : rt_bctx) : rt_bctx := d.
(*  ... async_ctx(initial_cache, overrides[, exception_propagation=pe]); pe defaults to True *)
Definition async_ctx (g : rt_graph) (initial_cache : rt_bctx) (o : rt_overrides) (pe : bool) : RM rt_depctx :=
  ret (mkdepctx g pe).

(* ------------------------------------------------------------------------------------------ the clock *)
(*  start_time = time()  /  execution_time = time() - start_time : the two clock reads of one execution *)
Definition clock_start : RM rt_stamp := emit FExecBegin.
Definition clock_elapsed (start : rt_stamp) : RM rt_duration := emit FExecEnd.
Definition round2 (d : rt_duration) : rt_duration := d.

(* ------------------------------------------------------------------------------------------ the try block *)
(*  kwargs = {} / await dep_ctx.resolve_kwargs() / kwargs.update(message.kwargs) / message.args *)
Definition empty_kwargs : rt_kwargs := tt.
Definition msg_args (m : rt_msg) : rt_args := tt.
Definition msg_kwargs (m : rt_msg) : rt_kwargs := tt.
Definition kwargs_update (k new : rt_kwargs) : RM rt_kwargs := ret tt.
(*  a generator dependency is observed entering; DFail: it raises while being opened *)
Definition resolve_kwargs (d : rt_depctx) : RM rt_kwargs :=
  match c_dep (dc_cfg d) with
  | DNone => ret tt
  | DOk => emit FDepOpen
  | DFail => emit FDepOpen ;;; raise (UserExc E_DEP)
  end.

(*  awaitables *)
Inductive rt_fut :=
| FutCoro (f : rt_func)                   (* target( *args, **kwargs ) of a coroutine function: a coroutine, not started *)
| FutExec (f : rt_func)                   (* loop.run_in_executor(executor, _run_sync, target, args, kwargs) *)
| FutWaitFor (inner : rt_fut) (t : Z).    (* asyncio.wait_for(inner, t): a coroutine, not started *)
Definition iscoroutinefunction (f : rt_func) : bool := c_async (fn_cfg f).
Definition call_coroutine_function (f : rt_func) (a : rt_args) (k : rt_kwargs) : rt_fut := FutCoro f.
Definition run_sync_helper : rt_run_sync := tt.
Definition run_in_executor (l : rt_loop) (e : rt_executor) (h : rt_run_sync) (f : rt_func) (a : rt_args) (k : rt_kwargs)
  : rt_fut := FutExec f.
Definition wait_for (f : rt_fut) (t : rt_float) : rt_fut := FutWaitFor f t.
Definition msg_labels (m : rt_msg) : rt_labels := mklabels (m_lab m) (m_tmo m).
Definition labels_get_timeout (l : rt_labels) : option rt_tlabel := l_timeout l.      (* labels.get("timeout") *)
Definition float_of_label (t : rt_tlabel) : rt_float := t.       (* float(timeout): m_tmo is the label through float() *)
Definition label_or_zero (o : option rt_tlabel) : rt_tlabel :=   (* label or 0 : None and a zero label both give 0 *)
  match o with Some t => t | None => 0%Z end.
Definition number_truthy (t : Z) : bool := negb (t =? 0)%Z.      (* truthiness of a number *)

(*  the body runs to its end: entered, left, then its value or its exception *)
Definition body_full (c : pcfg) : RM rt_val :=
  emit FTaskStart ;;; emit (FTaskEnd (BEnded (c_out c))) ;;;
  match c_out c with BRet v => ret v | BRaise e => raise (UserExc e) end.
(*  the body finishes before the timeout fires (equal instants: the event loop's choice c_tie) *)
Definition in_time (c : pcfg) (t : Z) : bool := (c_dur c <? t)%Z || ((c_dur c =? t)%Z && negb (c_tie c)).

(*  returned = await target_future
    wait_for with timeout <= 0: the inner awaitable is cancelled before it can take a step (a coroutine never starts; a
    pool thread may already be inside the function: c_race); timeout fires first: CancelledError is thrown into a
    coroutine, a pool thread is not interrupted and nobody waits for it; TimeoutError either way *)
Definition await_future (f : rt_fut) : RM rt_val :=
  match f with
  | FutCoro g | FutExec g => body_full (fn_cfg g)
  | FutWaitFor (FutCoro g) t =>
      if (t <=? 0)%Z then raise (UserExc E_TIMEOUT)
      else if in_time (fn_cfg g) t then body_full (fn_cfg g)
      else emit FTaskStart ;;; emit (FTaskEnd BCancelled) ;;; raise (UserExc E_TIMEOUT)
  | FutWaitFor (FutExec g) t =>
      if (t <=? 0)%Z then (if c_race (fn_cfg g) then emit FTaskStart else ret tt) ;;; raise (UserExc E_TIMEOUT)
      else if in_time (fn_cfg g) t then body_full (fn_cfg g)
      else emit FTaskStart ;;; raise (UserExc E_TIMEOUT)
  | FutWaitFor (FutWaitFor _ _) _ => raise Unmodelled
  end.

(* ------------------------------------------------------------------------------------------ after the try *)
(*  args = (None, None, None) / (type(e), e, e.__traceback__) ; await dep_ctx.close( *args ): an opened generator
    dependency sees the exception thrown into it iff the triple carries one, then is observed finalised *)
Definition no_exc_info : rt_excinfo := None.
Definition exc_info (x : rt_exn) : rt_excinfo := Some x.
Definition dep_close (d : rt_depctx) (a : rt_excinfo) : RM unit :=
  match c_dep (dc_cfg d) with
  | DOk => (match a with Some _ => if dc_pe d then emit FDepSaw else ret tt | None => ret tt end) ;;; emit FDepClose
  | _ => ret tt
  end.
(*  dep_ctx.opened_dependencies: what the root context itself opened and has to finalise (a list; empty = false) *)
Definition opened_dependencies (d : rt_depctx) : list unit := if is_opened (c_dep (dc_cfg d)) then [tt] else [].
Definition list_truthy {A} (l : list A) : bool := match l with [] => false | _ => true end.

(*  TaskiqResult(is_err=, log=None, return_value=, execution_time=, error=, labels=) *)
Definition TaskiqResult (is_err : bool) (return_value : option rt_val) (execution_time : rt_duration)
           (error : option rt_exn) (labels : rt_labels) : rt_res :=
  mkres is_err return_value (option_map exn_class error) (l_id labels).

(*  self.broker.middlewares ; middleware.__class__.on_error != TaskiqMiddleware.on_error ;
    await maybe_awaitable(middleware.on_error(message, result, exc)): an overriding hook is observed entering with the
    middleware's index, the message, the result object's content and the exception, then returns (the value is the
    mutable result's new content) or raises; the base class's hook does nothing *)
Fixpoint indexed_from (i : nat) (st : list mw) : list rt_mw :=
  match st with
  | [] => []
  | w :: st' => (i, w) :: indexed_from (S i) st'
  end.
Definition middlewares (s : rt_self) : list rt_mw := indexed_from 0 (c_stack (rs_cfg s)).
Inductive base_hook := TaskiqMiddleware_hook.
Definition differs_from_base {F : Type} (impl : option F) (_ : base_hook) : bool :=
  match impl with Some _ => true | None => false end.
Definition class_on_error (w : rt_mw) := h_on_error (snd w).
Definition call_on_error (w : rt_mw) (m : rt_msg) (r : rt_res) (x : rt_exn) : RM rt_res :=
  match h_on_error (snd w) with
  | Some f => emit (FHookR HOnError (fst w) m r (Some (exn_class x))) ;;;
              match f r with Some r' => ret r' | None => raise (PipeExc XHook) end
  | None => ret r
  end.
