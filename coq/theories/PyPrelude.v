(* Gallina reading of the Python / datetime / pytz / pycron primitives that the source translator
   (harness/pygal.py) is allowed to emit.  The translator turns a function of /repo into a Gallina
   definition that calls ONLY these; each definition below is therefore part of the trusted base of every
   "*_src" theorem (coq/srcproofs), and is kept as small and literal as possible.  No proofs here.

   datetime values
     aware datetime  = (UTC instant in microseconds since the epoch, utcoffset in microseconds)
     naive datetime  = wall-clock microseconds since 0000 of the epoch day count, no zone
     pydt            = Naive | Aware  (what `datetime` annotates)
   timedelta         = Z microseconds (Python normalises to days/seconds/microseconds with
                       0 <= microseconds < 10^6: `.microseconds` is the floor remainder)
   str               = Coq string;  pytz zone = its name;  cron text = the parsed five-field expression
                       (pycron's own parser is third-party code modelled by Cron.v)

   Conventions that the datetime module guarantees and that are used below:
     aware + timedelta          wall-clock arithmetic with the same tzinfo: instant + delta, same offset
     aware.replace(second, us)  same wall-clock minute, same tzinfo
     aware1 <= aware2, a1 - a2  compared / subtracted as UTC instants when the tzinfo objects differ; when
                                they are the same object the wall clocks are used - equal to the instants
                                as long as that object has one constant utcoffset (pytz.UTC, any pytz
                                tzinfo instance, datetime.timezone).  In the translated code one operand
                                is always `datetime.now(tz=pytz.UTC)` or derived from it.
     int(td.total_seconds())    truncation toward zero of the correctly rounded binary64 quotient; equal to
                                the integer quotient for |td| < 2^32 s (FloatTrunc.v, C14_float_trunc). *)
From Coq Require Import ZArith Bool String.
From TQ Require Import SchedDelay Civil Cron.
Open Scope Z_scope.

Record adt : Set := mkA { a_inst : Z; a_off : Z }.
Inductive pydt : Set := Naive (wall : Z) | Aware (a : adt).

Definition a_wall (a : adt) : Z := a_inst a + a_off a.

(* datetime.now(tz=pytz.UTC) at the instant `now0` *)
Definition now_utc (now0 : Z) : adt := mkA now0 0.
(* naive.replace(tzinfo=pytz.UTC): same wall clock, read as UTC *)
Definition naive_as_utc (wall : Z) : adt := mkA wall 0.

(* timedelta(days=, seconds=, microseconds=, milliseconds=, minutes=, hours=, weeks=) *)
Definition td_make (days seconds microseconds milliseconds minutes hours weeks : Z) : Z :=
  microseconds + 1000 * milliseconds + US * (seconds + 60 * minutes + 3600 * hours + 86400 * (days + 7 * weeks)).
Definition td_microseconds (d : Z) : Z := d mod US.
Definition td_int_total_seconds (d : Z) : Z := Z.quot d US.

Definition a_add (a : adt) (d : Z) : adt := mkA (a_inst a + d) (a_off a).
Definition a_sub (a b : adt) : Z := a_inst a - a_inst b.
Definition a_le (a b : adt) : bool := a_inst a <=? a_inst b.
Definition a_lt (a b : adt) : bool := a_inst a <? a_inst b.
Definition a_eq (a b : adt) : bool := a_inst a =? a_inst b.

(* aware.replace(second=s, microsecond=us)   (0 <= s < 60, 0 <= us < 10^6) *)
Definition a_replace_s_us (a : adt) (s us : Z) : adt :=
  mkA (floor_minute (a_wall a) + s * US + us - a_off a) (a_off a).

(* pytz.timezone(name) *)
Definition pytz_timezone (name : string) : string := name.

Section Zones.
  (* pytz: utcoffset (microseconds) of the named zone at a UTC instant *)
  Variable tzoff : string -> Z -> Z.
  (* aware.astimezone(zone): same instant, the zone's offset at that instant *)
  Definition a_astimezone (a : adt) (zone : string) : adt := mkA (a_inst a) (tzoff zone (a_inst a)).
End Zones.

(* pycron.is_now(expression, aware datetime): the five values are read from the wall clock *)
Definition is_now (e : expr) (d : adt) : bool := matches_b e (fields_of (a_wall d)).

(* truthiness *)
Definition truthy_Z (x : Z) : bool := negb (x =? 0).
Definition truthy_str (s : string) : bool := negb (String.eqb s EmptyString).

(* ---- the slice of taskiq.scheduler.scheduled_task.ScheduledTask that get_task_delay reads *)
Inductive cron_offset_t : Set := CoNone | CoStr (s : string) | CoTd (d : Z).
Record sched_task : Set := mkST { st_cron : option expr; st_cron_offset : cron_offset_t; st_time : option pydt }.
