(* Per-message pipeline of taskiq: Receiver.callback / Receiver.run_task (taskiq/receiver/receiver.py) and the
   send side AsyncKicker.kiq (taskiq/kicker.py), written operationally, statement by statement, in a
   writer + exception monad.  A run of `callback` on one message is the list of its observable effects
   (`callback : pcfg -> list eff`), ending in FDone (returned) or FCrash (an exception left the coroutine).

   What is a parameter (pcfg) and what is computed:
     - the parsed message, the middleware stack (ANY length; every hook slot is `None` = not overridden by
       the middleware's class, or `Some f` with f the hook's behaviour as a function - `f x = None` means the
       hook raises an Exception), the acknowledge type, ackable or not, the dependency plan, what the task
       body does (sync/async, virtual duration, return / raise), whether the result backend accepts the save;
     - everything else (which hooks fire and with which message / result, the ack site, timeout handling,
       result construction, what is saved, where a failure propagates to) is computed as the code does.
   No proofs in this file (proofs/Pipeline*.v). *)
From Coq Require Import List Arith Bool ZArith.
From TQ Require Import Base.
Import ListNotations.

(* ------------------------------------------------------------------------------------------ data *)
(* TaskiqMessage as far as the pipeline looks at it: task_id, the labels dict (an identifier assigned by the
   harness to its canonical content) and the "timeout" label of that dict, already through float(), in us. *)
Record msg := mkmsg { m_id : nat; m_lab : nat; m_tmo : option Z }.

(* TaskiqResult(is_err, return_value, error, labels); exceptions are class identifiers *)
Record res := mkres { r_err : bool; r_val : option nat; r_exc : option nat; r_lab : nat }.

Definition E_NORESULT : nat := 0.   (* taskiq.exceptions.NoResultError *)
Definition E_TIMEOUT  : nat := 1.   (* TimeoutError (raised by asyncio.wait_for) *)
Definition E_DEP      : nat := 2.   (* the exception of a failing dependency *)
Definition E_GENEXIT  : nat := 8.   (* GeneratorExit *)

Inductive acktype := AckReceived | AckExecuted | AckSaved.
Inductive kind := KOk | KMalformed | KUnknown.
Inductive depplan := DNone | DOk | DFail.
Inductive bout := BRet (v : nat) | BRaise (e : nat).          (* what the function body does when it gets there *)
Inductive bend := BEnded (o : bout) | BCancelled.               (* how the body was left *)
Inductive hookk := HPreSend | HPostSend | HPreExec | HOnError | HPostExec | HPostSave.
Inductive xkind := XHook | XSend | XBackend | XGenExit.         (* which exception is propagating *)

Record mw := mkmw {
  h_pre_send  : option (msg -> option msg);
  h_post_send : option (msg -> bool);            (* false = raises *)
  h_pre_exec  : option (msg -> option msg);
  h_on_error  : option (res -> option res);      (* hooks receive the mutable TaskiqResult: new content *)
  h_post_exec : option (res -> option res);
  h_post_save : option (res -> option res) }.

Inductive eff :=
| FParseFail                                   (* formatter.loads / parse_labels raised *)
| FUnknownTask                                 (* broker.find_task returned None *)
| FHookM (k : hookk) (i : nat) (m : msg)       (* pre_send / post_send / pre_execute of middleware i entered with m *)
| FHookR (k : hookk) (i : nat) (m : msg) (r : res) (x : option nat)
                                               (* on_error (x = Some exception) / post_execute / post_save entered *)
| FAck                                         (* message.ack() called *)
| FExecBegin                                   (* start_time = time() *)
| FDepOpen                                     (* generator dependency entered *)
| FTaskStart                                   (* function body entered *)
| FTaskEnd (b : bend)                          (* function body left *)
| FExecEnd                                     (* execution_time = time() - start_time : the try block is over *)
| FDepSaw                                      (* exception thrown into the dependency (propagate_exceptions) *)
| FDepClose                                    (* dependency finalised *)
| FSaveBegin (id : nat) (r : res)              (* result_backend.set_result(id, r) entered *)
| FSaveOk                                      (* ... returned *)
| FSaveErr                                     (* ... raised *)
| FSaveSkip                                    (* ghost: set_result skipped because result.error is NoResultError *)
| FDumps (m : msg)                             (* formatter.dumps(m) entered *)
| FKick (m : msg)                              (* broker.kick entered with the dump of m *)
| FSent (id : nat)                             (* kiq returned AsyncTaskiqTask(task_id = id) *)
| FCrash (x : xkind)                           (* an exception left callback / kiq (XSend = SendTaskError) *)
| FDone.                                       (* callback returned *)

Record pcfg := mkcfg {
  c_kind : kind;                (* does the payload parse, is the task known *)
  c_msg : msg;                  (* the message after loads + parse_labels *)
  c_ackable : bool;             (* isinstance(message, AckableMessage) *)
  c_ack : acktype;              (* receiver.ack_time *)
  c_stack : list mw;            (* broker.middlewares *)
  c_dep : depplan;              (* the task has a generator dependency which opens / fails *)
  c_prop : bool;                (* receiver.propagate_exceptions *)
  c_async : bool;               (* asyncio.iscoroutinefunction(target) *)
  c_dur : Z;                    (* virtual duration of the body in us *)
  c_out : bout;                 (* what the body does at its end *)
  c_tie : bool;                 (* event loop's choice when duration = timeout: true = the timeout wins *)
  c_race : bool;                (* thread pool's choice for a sync body under timeout <= 0: body entered before the cancel *)
  c_save_ok : bool;             (* the result backend accepts this save *)
  c_raise_err : bool }.         (* callback(raise_err=...) : False in Receiver.runner *)

(* ------------------------------------------------------------------------------------------ monad *)
Inductive outc (A : Type) := Ok (a : A) | Exc (x : xkind).
Arguments Ok {A} a.
Arguments Exc {A} x.
Definition M (A : Type) : Type := (list eff * outc A)%type.
Definition ret {A} (a : A) : M A := ([], Ok a).
Definition emit (e : eff) : M unit := ([e], Ok tt).
Definition emits (es : list eff) : M unit := (es, Ok tt).
Definition raise {A} (x : xkind) : M A := ([], Exc x).
Definition bind {A B} (a : M A) (f : A -> M B) : M B :=
  match a with
  | (es, Exc x) => (es, Exc x)
  | (es, Ok v) => let (es', o) := f v in (es ++ es', o)
  end.
(* try: a  except Exception as x: h x *)
Definition catch {A} (a : M A) (h : xkind -> M A) : M A :=
  match a with
  | (es, Exc x) => let (es', o) := h x in (es ++ es', o)
  | ok => ok
  end.
Notation "x <- a ;; b" := (bind a (fun x => b)) (at level 61, a at next level, right associativity).
Notation "a ;;; b" := (bind a (fun _ => b)) (at level 61, right associativity).
Definition when (b : bool) (a : M unit) : M unit := if b then a else ret tt.
Definition finish {A} (a : M A) (done : A -> eff) : list eff :=
  match a with
  | (es, Ok v) => es ++ [done v]
  | (es, Exc x) => es ++ [FCrash x]
  end.

(* ------------------------------------------------------------------------------------------ hook loops *)
(*  for middleware in self.broker.middlewares:
        if middleware.__class__.HOOK != TaskiqMiddleware.HOOK:
            message = await maybe_awaitable(middleware.HOOK(message))        (pre_send, pre_execute) *)
Fixpoint msg_hook_loop (k : hookk) (sel : mw -> option (msg -> option msg)) (i : nat) (st : list mw) (m : msg)
  : M msg :=
  match st with
  | [] => ret m
  | w :: st' =>
    match sel w with
    | None => msg_hook_loop k sel (S i) st' m
    | Some f =>
      emit (FHookM k i m) ;;;
      m' <- (match f m with Some m' => ret m' | None => raise XHook end) ;;
      msg_hook_loop k sel (S i) st' m'
    end
  end.

(*  ... await maybe_awaitable(middleware.post_send(message)) *)
Fixpoint unit_hook_loop (k : hookk) (sel : mw -> option (msg -> bool)) (i : nat) (st : list mw) (m : msg) : M unit :=
  match st with
  | [] => ret tt
  | w :: st' =>
    match sel w with
    | None => unit_hook_loop k sel (S i) st' m
    | Some f =>
      emit (FHookM k i m) ;;;
      (if f m then ret tt else raise XHook) ;;;
      unit_hook_loop k sel (S i) st' m
    end
  end.

(*  ... await maybe_awaitable(middleware.HOOK(message, result[, exc]))   (on_error, post_execute, post_save);
    the TaskiqResult object is shared: what a hook writes into it is what the next one (and set_result) sees *)
Fixpoint res_hook_loop (k : hookk) (sel : mw -> option (res -> option res)) (x : option nat)
         (i : nat) (st : list mw) (m : msg) (r : res) : M res :=
  match st with
  | [] => ret r
  | w :: st' =>
    match sel w with
    | None => res_hook_loop k sel x (S i) st' m r
    | Some f =>
      emit (FHookR k i m r x) ;;;
      r' <- (match f r with Some r' => ret r' | None => raise XHook end) ;;
      res_hook_loop k sel x (S i) st' m r'
    end
  end.

(* ------------------------------------------------------------------------------------------ receive side *)
Definition acktype_eqb (a b : acktype) : bool :=
  match a, b with
  | AckReceived, AckReceived | AckExecuted, AckExecuted | AckSaved, AckSaved => true
  | _, _ => false
  end.

(*  if self.ack_time == AcknowledgeType.X and isinstance(message, AckableMessage):
        await maybe_awaitable(message.ack()) *)
Definition ack_site (c : pcfg) (a : acktype) : M unit :=
  when (acktype_eqb (c_ack c) a && c_ackable c) (emit FAck).

(* how the awaited target ends, given the timeout label of the message run_task received *)
Inductive bodyrun := BodyFull | BodyNever | BodyCancelled | BodyDetached.
Definition body_run (c : pcfg) (m : msg) : bodyrun :=
  match m_tmo m with
  | None => BodyFull                                      (* returned = await target_future *)
  | Some t =>                                             (* wait_for(target_future, float(timeout)) *)
    if (t <=? 0)%Z then
      (* wait_for: timeout <= 0 -> ensure_future, not done, cancel: a coroutine never takes its first step;
         an executor future is cancelled, the pool thread may already be inside the function *)
      if c_async c then BodyNever else if c_race c then BodyDetached else BodyNever
    else if ((c_dur c <? t)%Z || ((c_dur c =? t)%Z && negb (c_tie c))) then BodyFull
    else if c_async c then BodyCancelled                  (* CancelledError thrown into the coroutine *)
    else BodyDetached                                     (* the thread is not interrupted; nobody waits for it *)
  end.

(* the try block of run_task: effects and found_exception / returned *)
Definition try_block (c : pcfg) (m : msg) : list eff * bout :=
  match c_dep c with
  | DFail => ([FDepOpen], BRaise E_DEP)                   (* kwargs = await dep_ctx.resolve_kwargs() raised *)
  | d =>
    let pre := match d with DOk => [FDepOpen] | _ => [] end in
    match body_run c m with
    | BodyFull => (pre ++ [FTaskStart; FTaskEnd (BEnded (c_out c))], c_out c)
    | BodyNever => (pre, BRaise E_TIMEOUT)
    | BodyCancelled => (pre ++ [FTaskStart; FTaskEnd BCancelled], BRaise E_TIMEOUT)
    | BodyDetached => (pre ++ [FTaskStart], BRaise E_TIMEOUT)
    end
  end.

(*  TaskiqResult(is_err=found_exception is not None, return_value=returned, error=found_exception,
                 labels=message.labels) *)
Definition raw_res (m : msg) (o : bout) : res :=
  match o with
  | BRet v => mkres false (Some v) None (m_lab m)
  | BRaise e => mkres true None (Some e) (m_lab m)
  end.

Definition is_opened (d : depplan) : bool := match d with DOk => true | _ => false end.
Definition is_raise (o : bout) : bool := match o with BRaise _ => true | _ => false end.

(* Finding D10.  A SYNC function that raises GeneratorExit: the executor future carries it, Task.__step throws it
   into the callback coroutine, and coroutine.throw(GeneratorExit) first close()s the delegate run_task coroutine
   (whose `except BaseException` swallows it and carries on in "close mode" until its first real suspension or its
   return) and then raises GeneratorExit - or RuntimeError("coroutine ignored GeneratorExit") - in callback at
   `await self.run_task(...)`, outside any try.  The model says: nothing of the pipeline after the function body is
   reached and the callback raises; which on_error hooks / dependency finalisers still ran in close mode is
   abstracted (the correspondence drops those events for exactly this region). *)
Definition bout_is (o : bout) (e : nat) : bool := match o with BRaise x => Nat.eqb x e | BRet _ => false end.
Definition closes_coroutine (c : pcfg) (m : msg) : bool :=
  negb (c_async c) && bout_is (c_out c) E_GENEXIT &&
  match c_dep c with DFail => false | _ => match body_run c m with BodyFull => true | _ => false end end.

Definition run_task (c : pcfg) (m : msg) : M res :=
  emit FExecBegin ;;;                                          (* start_time = time() *)
  let (es, o) := try_block c m in
  emits es ;;;                                                 (* try: ... except NoResultError / BaseException *)
  (if closes_coroutine c m then raise XGenExit else ret tt) ;;;
  emit FExecEnd ;;;                                            (* execution_time = time() - start_time *)
  when (is_opened (c_dep c))                                   (* if dep_ctx: await dep_ctx.close(args) *)
       (when (is_raise o && c_prop c) (emit FDepSaw) ;;; emit FDepClose) ;;;
  let r := raw_res m o in
  match o with                                                 (* if found_exception is not None: on_error loop *)
  | BRaise e => res_hook_loop HOnError h_on_error (Some e) 0 (c_stack c) m r
  | BRet _ => ret r
  end.

(*  isinstance(result.error, NoResultError) *)
Definition is_nores (r : res) : bool :=
  match r_exc r with Some e => Nat.eqb e E_NORESULT | None => false end.

Definition save_block (c : pcfg) (m : msg) (r : res) : M unit :=
  catch                                                        (* try: *)
    (if is_nores r then emit FSaveSkip
     else
       emit (FSaveBegin (m_id m) r) ;;;                        (* await result_backend.set_result(task_id, result) *)
       (if c_save_ok c then emit FSaveOk else (emit FSaveErr ;;; raise XBackend)) ;;;
       _ <- res_hook_loop HPostSave h_post_save None 0 (c_stack c) m r ;;
       ret tt)
    (fun x => if c_raise_err c then raise x else ret tt).     (* except Exception: log; if raise_err: raise *)

Definition callback_m (c : pcfg) : M unit :=
  match c_kind c with
  | KMalformed => emit FParseFail                              (* except Exception: ... return *)
  | KUnknown => emit FUnknownTask                              (* if task is None: ... return *)
  | KOk =>
    m <- msg_hook_loop HPreExec h_pre_exec 0 (c_stack c) (c_msg c) ;;
    ack_site c AckReceived ;;;
    r <- run_task c m ;;
    ack_site c AckExecuted ;;;
    r' <- res_hook_loop HPostExec h_post_exec None 0 (c_stack c) m r ;;
    save_block c m r' ;;;
    ack_site c AckSaved
  end.

Definition callback (c : pcfg) : list eff := finish (callback_m c) (fun _ => FDone).

(* ------------------------------------------------------------------------------------------ send side *)
Inductive kickres := KickOk | DumpsFail | KickFail.

Definition kiq_m (st : list mw) (m0 : msg) (k : kickres) : M nat :=
  m <- msg_hook_loop HPreSend h_pre_send 0 st m0 ;;
  catch                                                        (* try: await broker.kick(formatter.dumps(message)) *)
    (emit (FDumps m) ;;;
     match k with
     | DumpsFail => raise XBackend
     | KickFail => emit (FKick m) ;;; raise XBackend
     | KickOk => emit (FKick m)
     end)
    (fun _ => raise XSend) ;;;                                 (* except Exception as exc: raise SendTaskError from exc *)
  unit_hook_loop HPostSend h_post_send 0 st m ;;;
  ret (m_id m).                                                (* AsyncTaskiqTask(task_id=message.task_id, ...) *)

Definition kiq (st : list mw) (m0 : msg) (k : kickres) : list eff := finish (kiq_m st m0 k) FSent.

(* ------------------------------------------------------------------------------------------ equality tests *)
Definition opt_eqb {A} (e : A -> A -> bool) (a b : option A) : bool :=
  match a, b with Some x, Some y => e x y | None, None => true | _, _ => false end.
Definition msg_eqb (a b : msg) : bool :=
  Nat.eqb (m_id a) (m_id b) && Nat.eqb (m_lab a) (m_lab b) && opt_eqb Z.eqb (m_tmo a) (m_tmo b).
Definition res_eqb (a b : res) : bool :=
  Bool.eqb (r_err a) (r_err b) && opt_eqb Nat.eqb (r_val a) (r_val b) && opt_eqb Nat.eqb (r_exc a) (r_exc b)
  && Nat.eqb (r_lab a) (r_lab b).
Definition hookk_eqb (a b : hookk) : bool :=
  match a, b with
  | HPreSend, HPreSend | HPostSend, HPostSend | HPreExec, HPreExec | HOnError, HOnError
  | HPostExec, HPostExec | HPostSave, HPostSave => true
  | _, _ => false
  end.
Definition bout_eqb (a b : bout) : bool :=
  match a, b with BRet x, BRet y => Nat.eqb x y | BRaise x, BRaise y => Nat.eqb x y | _, _ => false end.
Definition bend_eqb (a b : bend) : bool :=
  match a, b with BEnded x, BEnded y => bout_eqb x y | BCancelled, BCancelled => true | _, _ => false end.
Definition xkind_eqb (a b : xkind) : bool :=
  match a, b with XHook, XHook | XSend, XSend | XBackend, XBackend | XGenExit, XGenExit => true | _, _ => false end.
Definition eff_eqb (a b : eff) : bool :=
  match a, b with
  | FParseFail, FParseFail | FUnknownTask, FUnknownTask | FAck, FAck | FExecBegin, FExecBegin
  | FDepOpen, FDepOpen | FTaskStart, FTaskStart | FExecEnd, FExecEnd | FDepSaw, FDepSaw
  | FDepClose, FDepClose | FSaveOk, FSaveOk | FSaveErr, FSaveErr | FSaveSkip, FSaveSkip | FDone, FDone => true
  | FHookM k i m, FHookM k' i' m' => hookk_eqb k k' && Nat.eqb i i' && msg_eqb m m'
  | FHookR k i m r x, FHookR k' i' m' r' x' =>
      hookk_eqb k k' && Nat.eqb i i' && msg_eqb m m' && res_eqb r r' && opt_eqb Nat.eqb x x'
  | FTaskEnd b, FTaskEnd b' => bend_eqb b b'
  | FSaveBegin i r, FSaveBegin i' r' => Nat.eqb i i' && res_eqb r r'
  | FDumps m, FDumps m' => msg_eqb m m'
  | FKick m, FKick m' => msg_eqb m m'
  | FSent i, FSent i' => Nat.eqb i i'
  | FCrash x, FCrash x' => xkind_eqb x x'
  | _, _ => false
  end.

(* ------------------------------------------------------------------------------------------ recognisers *)
Definition is_ack (e : eff) : bool := match e with FAck => true | _ => false end.
Definition is_start (e : eff) : bool := match e with FTaskStart => true | _ => false end.
Definition is_taskend (e : eff) : bool := match e with FTaskEnd _ => true | _ => false end.
Definition is_execend (e : eff) : bool := match e with FExecEnd => true | _ => false end.
Definition is_savebegin (e : eff) : bool := match e with FSaveBegin _ _ => true | _ => false end.
Definition is_saveok (e : eff) : bool := match e with FSaveOk => true | _ => false end.
Definition is_savedone (e : eff) : bool := match e with FSaveOk | FSaveErr | FSaveSkip => true | _ => false end.
Definition is_done (e : eff) : bool := match e with FDone => true | _ => false end.
Definition is_hook (k : hookk) (e : eff) : bool :=
  match e with FHookM k' _ _ => hookk_eqb k k' | FHookR k' _ _ _ _ => hookk_eqb k k' | _ => false end.
Definition hook_index (e : eff) : nat :=
  match e with FHookM _ i _ => i | FHookR _ i _ _ _ => i | _ => 0 end.
Definition observable (e : eff) : bool := match e with FSaveSkip => false | _ => true end.

(* indices of the middlewares whose class overrides a hook, ascending from i *)
Fixpoint overridden {F : Type} (sel : mw -> option F) (i : nat) (st : list mw) : list nat :=
  match st with
  | [] => []
  | w :: st' => match sel w with Some _ => i :: overridden sel (S i) st' | None => overridden sel (S i) st' end
  end.

(* declarative reading of a chain of hooks: applied in registration order, each to its predecessor's output
   (a hook that is not overridden - or that raises - contributes nothing) *)
Definition fold_hook {X : Type} (sel : mw -> option (X -> option X)) (st : list mw) (x : X) : X :=
  fold_left (fun x w => match sel w with
                        | Some f => match f x with Some y => y | None => x end
                        | None => x end) st x.

(* hypotheses of the property theorems: no hook of the given slot raises *)
Definition total_hook {X : Type} (sel : mw -> option (X -> option X)) (st : list mw) : Prop :=
  Forall (fun w => match sel w with Some f => forall x, f x <> None | None => True end) st.
Definition total_post_send (st : list mw) : Prop :=
  Forall (fun w => match h_post_send w with Some f => forall x, f x = true | None => True end) st.

(* the quantification domain of C02 / C07 / C10 (receive side): a well-formed message of a known task,
   processed by the worker loop (raise_err = False), no raising pre_execute / on_error / post_execute hook.
   A raising post_save hook is allowed (it is swallowed by the save try-block).  Excluded region (finding D10, see
   closes_coroutine): a sync function raising GeneratorExit - there the full statements are refuted. *)
Definition sync_genexit (c : pcfg) : bool := negb (c_async c) && bout_is (c_out c) E_GENEXIT.
Definition wf_recv (c : pcfg) : Prop :=
  c_kind c = KOk /\ c_raise_err c = false /\ sync_genexit c = false /\
  total_hook h_pre_exec (c_stack c) /\ total_hook h_on_error (c_stack c) /\ total_hook h_post_exec (c_stack c).

(* ------------------------------------------------------------------------------------------ statements *)
(* the point selected by the acknowledge type has been reached after the events `seen`:
   when_received - the function body has not started; when_executed - the try block around the function is over
   (it returned, raised or timed out) and, for a coroutine function, a started body has been left;
   when_saved - set_result returned or raised, or was skipped for a no-result outcome *)
Definition reached (c : pcfg) (seen : list eff) : Prop :=
  match c_ack c with
  | AckReceived => ~ In FTaskStart seen
  | AckExecuted => In FExecEnd seen /\ (c_async c = true -> In FTaskStart seen -> exists b, In (FTaskEnd b) seen)
  | AckSaved => In FSaveOk seen \/ In FSaveErr seen \/ In FSaveSkip seen
  end.

(* every ack of the run l sits after the configured point; for when_received the body does not start un-acked *)
Definition ack_not_before (c : pcfg) (l : list eff) : Prop :=
  (forall p1 p2, l = p1 ++ FAck :: p2 -> reached c p1) /\
  (c_ack c = AckReceived -> c_ackable c = true -> forall p1 p2, l = p1 ++ FTaskStart :: p2 -> In FAck p1).

(* Boolean form over an observed (implementation) sequence; FSaveSkip is not observable, so for when_saved the
   skipped save is recognised by: execution over and no set_result anywhere in the run *)
Definition reachedb (a : acktype) (sync_detached : bool) (whole seen : list eff) : bool :=
  match a with
  | AckReceived => negb (existsb is_start seen)
  | AckExecuted => existsb is_execend seen && (negb (existsb is_start seen) || existsb is_taskend seen || sync_detached)
  | AckSaved => existsb is_savedone seen || (existsb is_execend seen && negb (existsb is_savebegin whole))
  end.
Fixpoint ack_posb (a : acktype) (ackable det : bool) (whole seen l : list eff) : bool :=
  match l with
  | [] => true
  | e :: t =>
    (match e with
     | FAck => reachedb a det whole seen
     | FTaskStart => match a with AckReceived => negb ackable || existsb is_ack seen | _ => true end
     | _ => true
     end) && ack_posb a ackable det whole (e :: seen) t
  end.
Definition C02_check (c : pcfg) (det : bool) (l : list eff) : bool :=
  ack_posb (c_ack c) (c_ackable c) det l [] l &&
  (if existsb is_done l then Nat.eqb (countb is_ack l) (if c_ackable c then 1 else 0)
   else Nat.leb (countb is_ack l) 1).

(* C07, Boolean form over an observed sequence: at most one set_result; if the run completed, exactly one
   unless the result is the no-result signal; the saved result has is_err = (error is not None) *)
Definition C07_check (l : list eff) : bool :=
  Nat.leb (countb is_savebegin l) 1 &&
  forallb (fun e => match e with
                    | FSaveBegin _ r => Bool.eqb (r_err r) (match r_exc r with Some _ => true | None => false end)
                                        && negb (is_nores r)
                                        && (match r_exc r with Some _ => match r_val r with None => true | _ => false end | None => true end)
                    | _ => true end) l.

(* C10, Boolean form: hooks of one kind appear with strictly increasing middleware index *)
Fixpoint increasing (l : list nat) : bool :=
  match l with
  | a :: ((b :: _) as t) => Nat.ltb a b && increasing t
  | _ => true
  end.
Definition hook_indices (k : hookk) (l : list eff) : list nat := map hook_index (filter (is_hook k) l).
Definition C10_check (l : list eff) : bool :=
  forallb (fun k => increasing (hook_indices k l)) [HPreSend; HPostSend; HPreExec; HOnError; HPostExec; HPostSave].

(* phases of one message's processing; C10_exec_order says every run is sorted by phase *)
Definition phase (a : acktype) (e : eff) : nat :=
  match e with
  | FParseFail | FUnknownTask => 0
  | FHookM HPreExec _ _ => 0
  | FExecBegin => 2
  | FDepOpen => 3
  | FTaskStart => 4
  | FTaskEnd _ => 5
  | FExecEnd => 6
  | FDepSaw => 7
  | FDepClose => 8
  | FHookR HOnError _ _ _ _ => 9
  | FHookR HPostExec _ _ _ _ => 11
  | FSaveBegin _ _ => 12
  | FSaveOk | FSaveErr | FSaveSkip => 13
  | FHookR HPostSave _ _ _ _ => 14
  | FAck => match a with AckReceived => 1 | AckExecuted => 10 | AckSaved => 15 end
  | FDone | FCrash _ => 16
  | FHookM HPreSend _ _ => 0
  | FDumps _ => 1
  | FKick _ => 2
  | FHookM HPostSend _ _ => 3
  | FSent _ => 16
  | FHookM _ _ _ => 16
  | FHookR _ _ _ _ _ => 16
  end.
Fixpoint sortedb (l : list nat) : bool :=
  match l with
  | a :: ((b :: _) as t) => Nat.leb a b && sortedb t
  | _ => true
  end.

(* ------------------------------------------------------------------------------------------ correspondence *)
(* one concurrent run: the configurations of the n messages and the global tagged log of the implementation.
   Returns true iff the log is an interleaving of the model's per-message sequences (observable part). *)
Definition seq_eqb := @list_eqb eff eff_eqb.
Definition model_obs (c : pcfg) : list eff := filter observable (callback c).
Fixpoint all_idx {A} (f : nat -> A -> bool) (i : nat) (l : list A) : bool :=
  match l with [] => true | x :: t => f i x && all_idx f (S i) t end.
Definition run_matches (cs : list pcfg) (g : list (nat * eff)) : bool :=
  tags_in_range (length cs) g && all_idx (fun i c => seq_eqb (project i g) (model_obs c)) 0 cs.
