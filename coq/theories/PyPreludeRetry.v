(* Gallina reading of what taskiq.middlewares.retry_middleware.SimpleRetryMiddleware.on_error touches, for the
   source translator (harness/pygal.py + harness/pygal_retry.py).  Label values, dictionaries, int() on a label value
   (`py_int`), str.lower / == "true" (`is_true`'s ingredients) and Python truthiness of a label value (`Retry.truthy`)
   are the ones of the hand-written models Labels.v / Retry.v.  Trusted like PyPrelude.v.  No proofs here. *)
From Coq Require Import ZArith NArith List Bool String.
From TQ Require Import Base64 Labels Retry.
Import ListNotations.

(* the slice of TaskiqMessage / SimpleRetryMiddleware that on_error reads; names, ids, args are opaque identifiers *)
Record rmsg := mkRMsg { rm_labels : dict lval; rm_name : N; rm_tid : N; rm_args : N; rm_kwargs : N }.
Record rself := mkRSelf { rs_count : Z; rs_label : bool; rs_nror : bool; rs_broker : N }.

(* AsyncKicker(task_name=, broker=, labels=) / .with_task_id / .with_labels(k=v): with_labels REBINDS the kicker's
   labels to a new dict {**labels, k: v} (taskiq/kicker.py) *)
Record rkicker := mkRK { rk_name : N; rk_broker : N; rk_tid : option N; rk_labels : dict lval }.
Definition new_kicker (name broker : N) (labels : dict lval) : rkicker := mkRK name broker None labels.
Definition kicker_with_task_id (k : rkicker) (tid : N) : rkicker := mkRK (rk_name k) (rk_broker k) (Some tid) (rk_labels k).
Definition kicker_with_label (k : rkicker) (key : key) (v : lval) : rkicker :=
  mkRK (rk_name k) (rk_broker k) (rk_tid k) (dmerge (rk_labels k) [(key, v)]).

(* observable effects of on_error, in order *)
Inductive reff := EKiq (k : rkicker) (args kwargs : N) | ESetNoResult.

(* labels.get(key, default) *)
Definition labels_get_default (k : key) (d : lval) (L : dict lval) : lval :=
  match dget k L with Some v => v | None => d end.
