(* Gallina reading of what taskiq.receiver.receiver.Receiver.run_task touches, for the source translator
   (harness/pygal_m.py + harness/pygal_run_task.py), over the alphabet of Deps.v part 2 (property C12).  Second reading
   of the SAME generated text as PyPreludeRunTask.v (which is over Pipeline.v's alphabet): same names, other meanings.

   The statement monad is PyStm.v with E = Deps.eff and X = rt_exn below.  One record `dworld` describes one execution
   the way Deps.v's run_task_effs is parameterised: the configuration cfg, the tree of resolver contexts that resolving
   the task's dependencies opens (rctx; a tree opened only in part - a failure part-way - is a tree), whether resolution
   succeeds, how the task function's body ends; plus what this model does not look at (sync / async, the timeout label,
   known_tasks, validate_params, object identities: the function, its original_func, the entry of prepared_handlers).  The receiver, its broker, the task function, the message, the task's dependency
   graph and the resolver context are all that one record seen through different attribute paths.  How the body ends
   (a timeout included) is an input here, so asyncio.wait_for is transparent and `await` just observes the body.
   Trusted like PyPrelude.v: small, literal, no proofs here. *)
From Coq Require Import List Arith Bool ZArith.
From TQ Require Import Deps PyStm.
Import ListNotations.

(* ------------------------------------------------------------------------------------------ the execution *)
Record dworld := mkworld {
  dw_cf : cfg;               (* propagate_exceptions, ack type, ackable, a recording middleware, backend *)
  dw_tree : rctx;            (* what resolve_kwargs() opens, in the order things are appended to the contexts *)
  dw_resolve_ok : bool;      (* false: a dependency raises while being opened (the tree is what was opened before) *)
  dw_body : outcome;         (* how the task function's body ends when it is awaited *)
  dw_async : bool;           (* asyncio.iscoroutinefunction(target) *)
  dw_timeout : option Z;     (* message.labels.get("timeout") *)
  dw_known : bool;           (* message.task_name in self.known_tasks *)
  dw_validate : bool;        (* self.validate_params *)
  dw_prepared : option nat;  (* self.prepared_handlers.get(message.task_name): the function object (its identity) the caches
                                of this name were built for, None if the table has no entry.  ANY content *)
  dw_obj : nat;              (* which object the task function `target` is (its identity) *)
  dw_original : option nat }.   (* the object target.original_func holds, if target has that attribute *)
(* the model's `resolution` of this execution *)
Definition resolution_of (w : dworld) : resolution := if dw_resolve_ok w then RDone (dw_body w) else RFail.

(* ------------------------------------------------------------------------------------------ exceptions *)
Inductive rt_exn :=
| DepExc                    (* raised by the failing dependency inside resolve_kwargs() *)
| BodyExc (o : outcome)     (* the awaited body ended in o <> OReturn: ORaise an Exception, OBase a BaseException that is
                               not an Exception, OTimeout asyncio's TimeoutError, ONoResult taskiq's NoResultError *)
| HookExc                   (* raised by a middleware hook (the recording middleware of this model never does) *)
| Unmodelled.               (* a construct this prelude gives no meaning to was executed (no run of the model has it) *)
Definition RM (A : Type) : Type := PyStm.M eff rt_exn A.
Definition emits (es : list eff) : RM unit := (es, Ok tt).

(*  except NoResultError / except BaseException / except Exception *)
Definition is_NoResultError (x : rt_exn) : bool := match x with BodyExc ONoResult => true | _ => false end.
Definition is_BaseException (x : rt_exn) : bool := match x with Unmodelled => false | _ => true end.
(*  no outcome of this model is an asyncio.CancelledError (OBase is the harness' own BaseException subclass) *)
Definition is_CancelledError (x : rt_exn) : bool := false.
Definition is_exception (x : rt_exn) : bool :=
  match x with BodyExc OBase => false | Unmodelled => false | _ => true end.
Definition try_else {R A B} := @try_else_on eff rt_exn R A B is_exception.
Definition try_except {R A} := @try_except_on eff rt_exn R A is_exception.

(* ------------------------------------------------------------------------------------------ objects *)
Notation rt_self := (dworld) (only parsing).
Notation rt_func := (dworld) (only parsing).
Notation rt_msg := (dworld) (only parsing).
Notation rt_graph := (dworld) (only parsing).
Notation rt_obj := (nat) (only parsing).                 (* the identity of a Python object: `a is b` iff the same object *)
(* the root resolver context of the execution, with its propagate_excs flag (Deps.close_ctx's `pe`; taskiq_dependencies'
   default is True) *)
Record rt_depctx := mkdepctx { dc_world : dworld; dc_pe : bool }.
Notation rt_labels := (dworld) (only parsing).
Record rt_res := mkdres { dr_is_err : bool; dr_has_error : bool }.     (* TaskiqResult: is_err, error is not None *)
Notation rt_val := (unit) (only parsing).
Notation rt_name := (unit) (only parsing).
Notation rt_sig := (unit) (only parsing).
Notation rt_hints := (unit) (only parsing).
Notation rt_bctx := (unit) (only parsing).
Notation rt_entries := (unit) (only parsing).
Notation rt_context := (unit) (only parsing).
Notation rt_state := (unit) (only parsing).
Notation rt_overrides := (unit) (only parsing).
Notation rt_kwargs := (unit) (only parsing).
Notation rt_args := (unit) (only parsing).
Notation rt_stamp := (unit) (only parsing).
Notation rt_duration := (unit) (only parsing).
Notation rt_loop := (unit) (only parsing).
Notation rt_executor := (unit) (only parsing).
Notation rt_run_sync := (unit) (only parsing).
Notation rt_tlabel := (Z) (only parsing).
Notation rt_float := (Z) (only parsing).
Notation rt_excinfo := (option rt_exn) (only parsing).   (* the exception among the three arguments of close, or None *)
Notation rt_mw := (unit) (only parsing).                 (* the recording middleware *)

(* ------------------------------------------------------------------------------------------ bookkeeping before the try *)
Definition obj_truthy {A} (_ : A) : bool := true.        (* an object without __bool__ / __len__ is true *)
Definition is_not_none {A} (o : option A) (_ : option Empty_set) : bool :=       (* o is not None *)
  match o with Some _ => true | None => false end.
Definition get_running_loop : rt_loop := tt.
Definition task_name (m : rt_msg) : rt_name := tt.
Definition known_tasks (s : rt_self) : rt_self := s.
Definition name_in (n : rt_name) (s : rt_self) : bool := dw_known s.
Definition validate_params (s : rt_self) : bool := dw_validate s.
Definition task_signatures (s : rt_self) : rt_self := s.
Definition task_hints (s : rt_self) : rt_self := s.
Definition dependency_graphs (s : rt_self) : rt_self := s.
Definition broker_of (s : rt_self) : rt_self := s.
Definition executor_of (s : rt_self) : rt_executor := tt.
Definition propagate_exceptions (s : rt_self) : bool := propagate (dw_cf s).
(*  self.prepared_handlers.get(name) ; `target` as an operand of `is` ; getattr(target, "original_func", target) ;
    `a is b` with a an Optional function object (None is no function object), `a is not b` = negb of it *)
Definition prepared_handlers (s : rt_self) : rt_self := s.
Definition handlers_get (s : rt_self) (n : rt_name) : option rt_obj := dw_prepared s.
Definition func_object (f : rt_func) : rt_obj := dw_obj f.
Definition original_func_or_self (f : rt_func) : rt_obj :=
  match dw_original f with Some o => o | None => dw_obj f end.
Definition object_is (a : option rt_obj) (b : rt_obj) : bool :=
  match a with Some x => Nat.eqb x b | None => false end.
(*  self._prepare_task(name, target): fills the tables (and prepared_handlers); no event *)
Definition prepare_task (s : rt_self) (n : rt_name) (f : rt_func) : RM unit := ret tt.
Definition signatures_get (s : rt_self) (n : rt_name) : option rt_sig := Some tt.
Definition hints_get (s : rt_self) (n : rt_name) : option rt_hints := Some tt.
Definition hints_or_empty (h : option rt_hints) : rt_hints := tt.
(*  every task the receiver executes has a graph (__init__ / _prepare_task) *)
Definition graphs_get (s : rt_self) (n : rt_name) : option rt_graph := Some s.
Definition parse_params (sg : option rt_sig) (h : rt_hints) (m : rt_msg) : RM unit := ret tt.
Definition custom_dependency_context (s : rt_self) : rt_bctx := tt.
Definition broker_state (s : rt_self) : rt_state := tt.
Definition dependency_overrides (s : rt_self) : rt_overrides := tt.
Definition overrides_or_none (o : rt_overrides) : rt_overrides := o.
Definition Context (m : rt_msg) (b : rt_self) : rt_context := tt.
Definition context_entries (c : rt_context) (st : rt_state) : rt_entries := tt.
Definition bctx_update (d : rt_bctx) (e : rt_entries) : RM rt_bctx := ret tt.
Definition bctx_copy (d : rt_bctx) : rt_bctx := d.
(*  dependency_graph.async_ctx(initial_cache, overrides): the execution's root resolver context is created (FBegin) *)
Definition async_ctx (g : rt_graph) (initial_cache : rt_bctx) (o : rt_overrides) (pe : bool) : RM rt_depctx :=
  emit FBegin ;;; ret (mkdepctx g pe).

(* ------------------------------------------------------------------------------------------ the clock (no event here) *)
Definition clock_start : RM rt_stamp := ret tt.
Definition clock_elapsed (start : rt_stamp) : RM rt_duration := ret tt.
Definition round2 (d : rt_duration) : rt_duration := d.

(* ------------------------------------------------------------------------------------------ the try block *)
Definition empty_kwargs : rt_kwargs := tt.
Definition msg_args (m : rt_msg) : rt_args := tt.
Definition msg_kwargs (m : rt_msg) : rt_kwargs := tt.
Definition kwargs_update (k new : rt_kwargs) : RM rt_kwargs := ret tt.
(*  await dep_ctx.resolve_kwargs(): every dependency of the tree is opened, in order; then the failing one raises *)
Definition resolve_kwargs (d : rt_depctx) : RM rt_kwargs :=
  emits (map FOpen (open_order (dw_tree (dc_world d)))) ;;;
  if dw_resolve_ok (dc_world d) then ret tt else emit FDepFail ;;; raise DepExc.

Inductive rt_fut :=
| FutCoro (f : rt_func)
| FutExec (f : rt_func)
| FutWaitFor (inner : rt_fut) (t : Z).
Definition iscoroutinefunction (f : rt_func) : bool := dw_async f.
Definition call_coroutine_function (f : rt_func) (a : rt_args) (k : rt_kwargs) : rt_fut := FutCoro f.
Definition run_sync_helper : rt_run_sync := tt.
Definition run_in_executor (l : rt_loop) (e : rt_executor) (h : rt_run_sync) (f : rt_func) (a : rt_args) (k : rt_kwargs)
  : rt_fut := FutExec f.
Definition wait_for (f : rt_fut) (t : rt_float) : rt_fut := FutWaitFor f t.
Definition msg_labels (m : rt_msg) : rt_labels := m.
Definition labels_get_timeout (l : rt_labels) : option rt_tlabel := dw_timeout l.
Definition float_of_label (t : rt_tlabel) : rt_float := t.
Definition label_or_zero (o : option rt_tlabel) : rt_tlabel := match o with Some t => t | None => 0%Z end.
Definition number_truthy (t : Z) : bool := negb (t =? 0)%Z.
(*  whose body an awaitable runs: wait_for is transparent (how the body ends - a timeout included - is dw_body) *)
Fixpoint fut_func (f : rt_fut) : rt_func :=
  match f with FutCoro g | FutExec g => g | FutWaitFor i _ => fut_func i end.
(*  returned = await target_future: the body is observed entering and ending, then its value or its exception *)
Definition await_future (f : rt_fut) : RM rt_val :=
  emit FTaskStart ;;; emit (FTaskEnd (dw_body (fut_func f))) ;;;
  match dw_body (fut_func f) with OReturn => ret tt | o => raise (BodyExc o) end.

(* ------------------------------------------------------------------------------------------ after the try *)
(*  await dep_ctx.close( *args ): taskiq_dependencies' teardown of the context tree (Deps.close_ctx with the root context's
    propagate_excs flag); every finaliser is observed with whether it saw the exception *)
Definition no_exc_info : rt_excinfo := None.
Definition exc_info (x : rt_exn) : rt_excinfo := Some x.
Definition has_exc (a : rt_excinfo) : bool := match a with Some _ => true | None => false end.
Definition dep_close (d : rt_depctx) (a : rt_excinfo) : RM unit :=
  emits (map (fun p => FClose (fst p) (snd p)) (close_ctx (dc_pe d) (has_exc a) (dw_tree (dc_world d)))).
(*  dep_ctx.opened_dependencies: what the root context itself opened (not its sub-contexts); empty = false *)
Definition opened_dependencies (d : rt_depctx) : list (nat * style) := owns (dw_tree (dc_world d)).
Definition list_truthy {A} (l : list A) : bool := match l with [] => false | _ => true end.

Definition TaskiqResult (is_err : bool) (return_value : option rt_val) (execution_time : rt_duration)
           (error : option rt_exn) (labels : rt_labels) : rt_res :=
  mkdres is_err (match error with Some _ => true | None => false end).

(*  self.broker.middlewares: the recording middleware (its class overrides on_error), or none *)
Definition middlewares (s : rt_self) : list rt_mw := if has_mw (dw_cf s) then [tt] else [].
Inductive base_hook := TaskiqMiddleware_hook.
Definition differs_from_base {F : Type} (impl : option F) (_ : base_hook) : bool :=
  match impl with Some _ => true | None => false end.
Definition class_on_error (w : rt_mw) : option unit := Some tt.
Definition call_on_error (w : rt_mw) (m : rt_msg) (r : rt_res) (x : rt_exn) : RM rt_res := emit FOnError ;;; ret r.
