(* Model of the cron branch of taskiq.cli.scheduler.run.get_task_delay and of pycron 3.3.0's is_now,
   on the numeric five-field grammar  field ::= "*" | "*/n" | item ("," item)*,
   item ::= a | a-b | a-b/s  (a, b, s, n decimal naturals; the theorems ask for steps >= 1).

     now = datetime.now(tz=pytz.UTC)                                   (* instant `now`, Z microseconds *)
     if task.cron_offset and isinstance(task.cron_offset, timedelta):
         now += task.cron_offset                                       (* Delta us: fields of now + us  *)
     elif task.cron_offset and isinstance(task.cron_offset, str):
         now = now.astimezone(pytz.timezone(task.cron_offset))         (* Zone z: fields of now + tzoff z now *)
     if is_now(task.cron, now): return 0                               (* Some 0 *)
     return None                                                       (* None   *)

   pycron.is_now(s, dt):
     minute, hour, dom, month, dow = s.split(" ");  weekday = dt.isoweekday()
     if "*" not in dom and "*" not in dow:  day_rule = P(dom, dt.day, 1) or  P(dow, 0 if weekday == 7 else weekday, 0)
     else:                                  day_rule = P(dom, dt.day, 1) and P(dow, ..., 0)
     return P(minute, dt.minute, 0) and P(hour, dt.hour, 0) and P(month, dt.month, 1) and day_rule
   pycron._parse_arg(value, target, min_value) = P:
     "*" -> True;  otherwise any item of value.split(","):
        int(item) == target  |  target in range(a, b+1)  |  target in range(a, b+1, s)  |
        "*/n": (target - min_value) % n == 0
   (pycron never range-checks numbers: 61 in the minute field or 7 in the weekday field simply never
   match; `_parse_arg` has no error on the grammar above except step 0: ZeroDivisionError for "*/0",
   ValueError from range() for "a-b/0" - excluded by `wf_*`.)  No proofs here. *)
From Coq Require Import ZArith Bool List.
From TQ Require Import SchedDelay Civil.
Import ListNotations.
Open Scope Z_scope.

Inductive item : Set :=
| Num (a : Z)
| Range (a b : Z)
| RangeStep (a b s : Z).

Inductive field : Set :=
| Star
| StarStep (n : Z)
| Items (l : list item).

Record expr : Set := mkE {
  e_minute : field; e_hour : field; e_dom : field; e_month : field; e_dow : field }.

(* target in range(a, b + 1, s)   (s >= 1) *)
Definition match_item (it : item) (v : Z) : bool :=
  match it with
  | Num a => v =? a
  | Range a b => (a <=? v) && (v <=? b)
  | RangeStep a b s => (a <=? v) && (v <=? b) && ((v - a) mod s =? 0)
  end.

(* _parse_arg(field, v, min_value=lo) *)
Definition match_field (lo : Z) (f : field) (v : Z) : bool :=
  match f with
  | Star => true
  | StarStep n => (v - lo) mod n =? 0
  | Items l => existsb (fun it => match_item it v) l
  end.

(* "*" in the field's text *)
Definition has_star (f : field) : bool :=
  match f with Items _ => false | _ => true end.

Definition day_rule (e : expr) (fl : fields) : bool :=
  let a := match_field 1 (e_dom e) (f_dom fl) in
  let b := match_field 0 (e_dow e) (f_dow fl) in
  if negb (has_star (e_dom e)) && negb (has_star (e_dow e)) then a || b else a && b.

(* pycron.is_now on the five values read from the datetime *)
Definition matches_b (e : expr) (fl : fields) : bool :=
  match_field 0 (e_minute e) (f_minute fl) && match_field 0 (e_hour e) (f_hour fl) &&
  match_field 1 (e_month e) (f_month fl) && day_rule e fl.

(* the grammar the theorems speak about: naturals, steps >= 1 (ranges a <= b are what the generators
   produce; the theorems do not need it: an empty range matches nothing on either side) *)
Definition wf_item (it : item) : bool :=
  match it with
  | Num a => 0 <=? a
  | Range a b => (0 <=? a) && (0 <=? b)
  | RangeStep a b s => (0 <=? a) && (0 <=? b) && (1 <=? s)
  end.

Definition wf_field (f : field) : bool :=
  match f with
  | Star => true
  | StarStep n => 1 <=? n
  | Items l => forallb wf_item l
  end.

Definition wf_expr (e : expr) : bool :=
  wf_field (e_minute e) && wf_field (e_hour e) && wf_field (e_dom e) && wf_field (e_month e) &&
  wf_field (e_dow e).

Inductive offset : Set :=
| NoOffset                (* cron_offset None (or falsy: timedelta(0), "") *)
| Delta (us : Z)          (* cron_offset a timedelta, in microseconds *)
| Zone (z : nat).         (* cron_offset the name of an IANA zone *)

Section Due.
  (* pytz: UTC offset (microseconds) of zone z at the UTC instant t *)
  Variable tzoff : nat -> Z -> Z.

  Definition shift (off : offset) (now : Z) : Z :=
    match off with
    | NoOffset => 0
    | Delta us => us
    | Zone z => tzoff z now
    end.

  Definition cron_due (e : expr) (off : offset) (now : Z) : bool :=
    matches_b e (fields_of (now + shift off now)).

  (* what get_task_delay returns for a cron schedule *)
  Definition cron_delay (e : expr) (off : offset) (now : Z) : option Z :=
    if cron_due e off now then Some 0 else None.
End Due.

(* ---- relational reading of an expression (the specification side of C13_spec / C13_due_iff) *)

Inductive in_item : item -> Z -> Prop :=
| in_num a : in_item (Num a) a
| in_range a b v : a <= v <= b -> in_item (Range a b) v
| in_rstep a b s k : 1 <= s -> 0 <= k -> a + k * s <= b -> in_item (RangeStep a b s) (a + k * s).

(* lo = first value of the field's range (0 for minute, hour, weekday; 1 for day, month) *)
Inductive in_field (lo : Z) : field -> Z -> Prop :=
| in_star v : in_field lo Star v
| in_sstep n k : 1 <= n -> 0 <= k -> in_field lo (StarStep n) (lo + k * n)
| in_items l it v : In it l -> in_item it v -> in_field lo (Items l) v.

Definition restricted (f : field) : Prop := exists l, f = Items l.

(* Vixie's day rule: when both day fields are restricted either may match, otherwise both must *)
Definition DayMatches (e : expr) (fl : fields) : Prop :=
  let A := in_field 1 (e_dom e) (f_dom fl) in
  let B := in_field 0 (e_dow e) (f_dow fl) in
  (restricted (e_dom e) /\ restricted (e_dow e) /\ (A \/ B)) \/
  (~ (restricted (e_dom e) /\ restricted (e_dow e)) /\ A /\ B).

Definition Matches (e : expr) (fl : fields) : Prop :=
  in_field 0 (e_minute e) (f_minute fl) /\ in_field 0 (e_hour e) (f_hour fl) /\
  in_field 1 (e_month e) (f_month fl) /\ DayMatches e fl.

(* ---- a second, structurally different reading of an expression: each field expanded to the
   finite set of values it names inside the field's range lo..hi (the way Vixie cron builds its
   bit sets).  Used for the Boolean form of the property that is evaluated on implementation
   observations, and proved equal to match_field on lo..hi in CronProofs.v. *)

(* a, a+s, a+2s, ... while <= b; fuel = number of candidates *)
Fixpoint upfrom (fuel : nat) (a s b : Z) : list Z :=
  match fuel with
  | O => []
  | S k => if a <=? b then a :: upfrom k (a + s) s b else []
  end.

Definition expand_item (lo hi : Z) (it : item) : list Z :=
  match it with
  | Num a => if (lo <=? a) && (a <=? hi) then [a] else []
  | Range a b => upfrom (Z.to_nat (hi - lo + 1)) (Z.max a lo) 1 (Z.min b hi)
  | RangeStep a b s =>
      filter (fun v => lo <=? v) (upfrom (Z.to_nat (hi + 1)) a s (Z.min b hi))
  end.

Definition expand_field (lo hi : Z) (f : field) : list Z :=
  match f with
  | Star => upfrom (Z.to_nat (hi - lo + 1)) lo 1 hi
  | StarStep n => upfrom (Z.to_nat (hi - lo + 1)) lo n hi
  | Items l => flat_map (expand_item lo hi) l
  end.

Definition memZ (v : Z) (l : list Z) : bool := existsb (fun x => x =? v) l.

Definition spec_due (e : expr) (fl : fields) : bool :=
  let mi := memZ (f_minute fl) (expand_field 0 59 (e_minute e)) in
  let h := memZ (f_hour fl) (expand_field 0 23 (e_hour e)) in
  let mo := memZ (f_month fl) (expand_field 1 12 (e_month e)) in
  let dm := memZ (f_dom fl) (expand_field 1 31 (e_dom e)) in
  let dw := memZ (f_dow fl) (expand_field 0 6 (e_dow e)) in
  let day := if has_star (e_dom e) || has_star (e_dow e) then dm && dw else dm || dw in
  mi && h && mo && day.

(* Boolean form of the statement on one implementation observation (obs = what get_task_delay
   returned; `sh` = the shift the oracle reader reports for this instant) *)
Definition C13_check (e : expr) (sh now : Z) (obs : option Z) : bool :=
  match obs with
  | Some d => (d =? 0) && spec_due e (fields_of (now + sh))
  | None => negb (spec_due e (fields_of (now + sh)))
  end.
