(* Gallina reading of what taskiq/cli/worker/process_manager.py touches - ProcessManager.start / prepare_workers,
   ReloadAllAction.handle, ReloadOneAction.handle - for the source translator (harness/pygal_m.py driven by
   harness/pygal_procman.py).

   Part 1: the statement monad.  The same combinators, under the same names, as PyStm.v, over a STATE + writer +
   exception monad: the state is the hand-written model's ProcMan.state (self.workers, the content of
   self.action_queue, the local `restarts` of start(), the next free pid) together with what is left of the tick's
   script of asynchronous events (ProcMan.tick_events); the writer collects ProcMan.effect.  A statement can end in a
   fourth way: `continue` (carrying the loop-carried variables of the innermost loop).
   Part 2: the primitives - exactly the calls the four functions make on their environment.

   Trusted: small, literal, NO proofs here.  Every definition is the meaning given to one Python construct. *)
From Coq Require Import List Arith Bool ZArith.
From TQ Require Import ProcMan.
Import ListNotations.

(* ============================================================ part 1: the monad *)
Record pms := mkPms { ms_st : state; ms_te : tick_events }.

Inductive pexc :=
| XProcessLookup (p : nat)   (* ProcessLookupError: os.kill on a pid nobody owns any more *)
| XValueError                (* ValueError *)
| XIndexError                (* IndexError: list index out of range *)
| XAssertion                 (* AssertionError (multiprocessing: "cannot start a process twice") *)
| XStuck                     (* the program did something this prelude has no reading for; not an Exception: nothing catches it *)
| XOutOfFuel.                (* a `while` loop exceeded loop_fuel (see while_); nothing catches it *)

Inductive outc (A : Type) := Ok (a : A) | Exc (x : pexc).
Arguments Ok {A} a.
Arguments Exc {A} x.
Definition PM (A : Type) : Type := pms -> pms * list effect * outc A.

Definition ret {A} (a : A) : PM A := fun ms => (ms, [], Ok a).
Definition raise {A} (x : pexc) : PM A := fun ms => (ms, [], Exc x).
Definition emit (e : effect) : PM unit := fun ms => (ms, [e], Ok tt).
Definition bind {A B} (a : PM A) (f : A -> PM B) : PM B := fun ms =>
  match a ms with
  | (ms1, e1, Exc x) => (ms1, e1, Exc x)
  | (ms1, e1, Ok v) => let '(ms2, e2, o) := f v ms1 in (ms2, e1 ++ e2, o)
  end.
Notation "x <- a ;; b" := (bind a (fun x => b)) (at level 61, a at next level, right associativity).
Notation "a ;;; b" := (bind a (fun _ => b)) (at level 61, right associativity).
Definition get_st : PM state := fun ms => (ms, [], Ok (ms_st ms)).
Definition put_st (st : state) : PM unit := fun ms => (mkPms st (ms_te ms), [], Ok tt).

(* how a statement (block) ends when no exception propagates: falls through (with the variables it re-bound), executed
   `return r`, or executed `continue` (s = the loop-carried variables of the innermost enclosing loop) *)
Inductive ctl (S R A : Type) := Normal (a : A) | Return (r : R) | Continue (s : S).
Arguments Normal {S R A} a.
Arguments Return {S R A} r.
Arguments Continue {S R A} s.
Definition stm (S R A : Type) : Type := PM (ctl S R A).

Definition next {S R A} (a : A) : stm S R A := ret (Normal a).
Definition return_ {S A} : stm S unit A := ret (Return tt).
Definition return_v {S R A} (r : R) : stm S R A := ret (Return r).
Definition continue_ {S R A} (s : S) : stm S R A := ret (Continue s).
Definition raise_ {S R A} (x : pexc) : stm S R A := raise x.
Definition lift {S R A} (a : PM A) : stm S R A := bind a (fun v => ret (Normal v)).
Definition sbind {S R A B} (a : stm S R A) (f : A -> stm S R B) : stm S R B :=
  bind a (fun c => match c with Normal v => f v | Return r => ret (Return r) | Continue s => ret (Continue s) end).
Notation "x <~ a ;; b" := (sbind a (fun x => b)) (at level 61, a at next level, right associativity).

(*  try: a   except C [as x]: h x   [else: e]     `catches x` = x is an instance of C *)
Definition try_else_on {S R A B} (catches : pexc -> bool) (a : stm S R A) (h : pexc -> stm S R B)
           (e : A -> stm S R B) : stm S R B := fun ms =>
  match a ms with
  | (ms1, e1, Exc x) => if catches x then (let '(ms2, e2, o) := h x ms1 in (ms2, e1 ++ e2, o)) else (ms1, e1, Exc x)
  | (ms1, e1, Ok (Normal v)) => let '(ms2, e2, o) := e v ms1 in (ms2, e1 ++ e2, o)
  | (ms1, e1, Ok (Return r)) => (ms1, e1, Ok (Return r))
  | (ms1, e1, Ok (Continue s)) => (ms1, e1, Ok (Continue s))
  end.
Definition try_except_on {S R A} (catches : pexc -> bool) (a : stm S R A) (h : pexc -> stm S R A) : stm S R A :=
  try_else_on catches a h next.
Definition is_ValueError (x : pexc) : bool := match x with XValueError => true | _ => false end.
Definition is_exception (x : pexc) : bool := match x with XStuck | XOutOfFuel => false | _ => true end.
Definition try_else {S R A B} := @try_else_on S R A B is_exception.
Definition try_except {S R A} := @try_except_on S R A is_exception.

(* one iteration of a loop body, then the rest of the loop: falling off the body's end and `continue` both go on with
   the loop-carried variables, `return` leaves the function *)
Definition loop_bind {S0 R St} (a : stm St R St) (k : St -> stm S0 R St) : stm S0 R St :=
  bind a (fun c => match c with Normal s => k s | Continue s => k s | Return r => ret (Return r) end).

(*  for x in l: body      with the variables the body re-binds as the loop-carried state s *)
Fixpoint for_ {S0 R Y St : Type} (l : list Y) (body : Y -> St -> stm St R St) (s : St) : stm S0 R St :=
  match l with
  | [] => next s
  | x :: l' => loop_bind (body x s) (for_ l' body)
  end.

(*  while cond: body      Gallina has no unbounded loop: the loop is iterated at most `loop_fuel` times, computed from
    the state in which the loop is entered - ProcMan.fuel_of, the bound the hand-written model uses for the same loop
    (every action in the queue and every action the scripted events will still put, a reload-all counted with the
    reloads it expands to).  Exceeding it is the explicit, uncatchable outcome XOutOfFuel - never a silent stop. *)
Fixpoint while_fuel {S0 R St : Type} (fuel : nat) (cond : St -> PM bool) (body : St -> stm St R St) (s : St)
  : stm S0 R St :=
  match fuel with
  | O => raise XOutOfFuel
  | S f => bind (cond s) (fun b => if b then loop_bind (body s) (while_fuel f cond body) else next s)
  end.
Definition loop_fuel (ms : pms) : nat := fuel_of (ms_st ms) (te_drain (ms_te ms)).
Definition while_ {S0 R St : Type} (cond : St -> PM bool) (body : St -> stm St R St) (s : St) : stm S0 R St :=
  fun ms => while_fuel (loop_fuel ms) cond body s ms.

(*  a and b / a or b / not a     on tests that call primitives (short circuit) *)
Definition mand (a b : PM bool) : PM bool := bind a (fun x => if x then b else ret false).
Definition mor (a b : PM bool) : PM bool := bind a (fun x => if x then ret true else b).
Definition mnot (a : PM bool) : PM bool := bind a (fun x => ret (negb x)).

(* the body of a function returning None; of a function with a declared result (every path returns or raises) - outside
   a loop there is no `continue`: S = Empty_set; of one iteration of `while True:` (None: go on with the next iteration - fell off the end or `continue`;
   Some r: the function returned r) *)
Definition run_fn (a : stm Empty_set unit unit) : PM unit := bind a (fun _ => ret tt).
Definition run_fn_ret {R} (a : stm Empty_set R Empty_set) : PM R :=
  bind a (fun c => match c with Normal e => match e with end | Return r => ret r | Continue s => match s with end end).
Definition run_iter {R} (a : stm unit R unit) : PM (option R) :=
  bind a (fun c => match c with Normal _ => ret None | Continue _ => ret None | Return r => ret (Some r) end).

(* ============================================================ part 2: the primitives *)
(* ---- self.action_queue / self.workers / self.worker_function: references to objects whose content is in the state *)
Definition action_queue_of (self : cfg) : unit := tt.
Definition workers_of (self : cfg) : unit := tt.
Definition worker_function_of (self : cfg) : unit := tt.

(* ---- integers that index: range(n), enumerate, len(...), action.worker_num are naturals; compared as ints *)
Definition range_ (n : nat) : list nat := seq 0 n.

(* ---- time.sleep(s): the asynchronous events of the tick's sleep happen *)
Definition sleep (seconds : Z) : PM unit := fun ms =>
  (mkPms (deliver (ms_st ms) (te_sleep (ms_te ms))) (mkTE [] (te_drain (ms_te ms)) (te_alive (ms_te ms))), [], Ok tt).

(* ---- the local `restarts` of start(): assigned before `while True:`, it lives across the iterations *)
Definition load_restarts : PM Z := st <- get_st ;; ret (restarts st).
Definition store_restarts (r : Z) : PM unit := st <- get_st ;; put_st (set_restarts st r).

(* ---- self.action_queue (one object; `q` stands for the reference) *)
(*  .empty(): the next entry of the drain script happens first *)
Definition queue_empty (q : unit) : PM bool := fun ms =>
  let (ev, devs') := pop (te_drain (ms_te ms)) in
  let st1 := deliver (ms_st ms) ev in
  (mkPms st1 (mkTE (te_sleep (ms_te ms)) devs' (te_alive (ms_te ms))), [],
   Ok (match queue st1 with [] => true | _ => false end)).
(*  .get(): on an empty queue it would block for ever - no reading *)
Definition queue_get (q : unit) : PM action :=
  st <- get_st ;;
  match queue st with
  | [] => raise XStuck
  | a :: rest => put_st (set_queue st rest) ;;; emit (Got a) ;;; ret a
  end.
Definition queue_put (q : unit) (a : action) : PM unit := st <- get_st ;; put_st (enq st [a]).

(* ---- action objects.  isinstance(action, C) is a `match` on ProcMan.action; a ReloadOneAction narrowed by it: *)
Record rone := mkRone { ro_num : nat; ro_all : bool }.
Definition ReloadOneAction (worker_num : nat) (is_reload_all : bool) : action := ReloadOne worker_num is_reload_all.

(* ---- reloaded_workers = set() / x in s / s.add(x) *)
Definition set_new : list nat := [].
Definition set_mem (x : nat) (s : list nat) : bool := existsb (Nat.eqb x) s.
Definition set_add (s : list nat) (x : nat) : PM (list nat) := ret (x :: s).

(* ---- Event() and a local list of them *)
Definition Event_new : unit := tt.
Definition list_append {A} (l : list A) (x : A) : PM (list A) := ret (l ++ [x]).

(* ---- Process objects.  One that is an element of self.workers is referred to by its POSITION k (a `for` over the
   list, workers[k]); the translator drops such a reference when the position is assigned.  One that is not (yet) in
   the list is carried by value. *)
Inductive pobj := Unstarted (slot : nat) | Started (p : proc).
(*  Process(target=.., kwargs={"args": ..}, name=f"worker-{slot}", daemon=False) *)
Definition Process_new (slot : nat) : pobj := Unstarted slot.
(*  .start(): forks - the next free pid, observed as Start slot pid; the object is now a live process *)
Definition pobj_start (o : pobj) : PM pobj :=
  match o with
  | Unstarted slot =>
      st <- get_st ;;
      put_st (mkState (workers st) (queue st) (restarts st) (S (next_pid st))) ;;;
      emit (Start slot (next_pid st)) ;;; ret (Started (mkProc (next_pid st) Live))
  | Started _ => raise XAssertion
  end.

(* ---- self.workers (`w` stands for the reference to the list) *)
Definition workers_len (w : unit) : PM nat := st <- get_st ;; ret (length (workers st)).
(*  for worker in self.workers / enumerate(self.workers) / zip(self.workers, l): positions 0 .. len-1 *)
Definition workers_refs (w : unit) : PM (list nat) := st <- get_st ;; ret (seq 0 (length (workers st))).
Definition workers_enumerate (w : unit) : PM (list (nat * nat)) :=
  st <- get_st ;; ret (map (fun k => (k, k)) (seq 0 (length (workers st)))).
Definition workers_zip {A} (w : unit) (l : list A) : PM (list (nat * A)) :=
  st <- get_st ;; ret (combine (seq 0 (length (workers st))) l).
(*  workers[i]   (i >= 0) *)
Definition workers_getitem (w : unit) (i : nat) : PM nat :=
  st <- get_st ;; if i <? length (workers st) then ret i else raise XIndexError.
(*  workers[i] = o   (i >= 0); a process that was never started has no counterpart in ProcMan.proc *)
Definition workers_setitem (w : unit) (i : nat) (o : pobj) : PM unit :=
  st <- get_st ;;
  match o with
  | Unstarted _ => raise XStuck
  | Started p => if i <? length (workers st) then put_st (set_workers st (set_nth i p (workers st))) else raise XIndexError
  end.
(*  workers.append(o) *)
Definition workers_append (w : unit) (o : pobj) : PM unit :=
  st <- get_st ;;
  match o with
  | Unstarted _ => raise XStuck
  | Started p => put_st (set_workers st (workers st ++ [p]))
  end.

(* ---- methods of a worker in the list (k = its position) *)
Definition worker_at (st : state) (k : nat) : proc := nth k (workers st) dummy.
(*  .pid : None (falsy) is pid 0 *)
Definition proc_pid (k : nat) : PM nat := st <- get_st ;; ret (pid (worker_at st k)).
Definition truthy_pid (p : nat) : bool := negb (p =? 0).
(*  .is_alive(), called by start() itself: the next entry of the `alive` script happens first (a death polled by a
    startup wait cannot happen here: ProcMan.deliver_np); then waitpid(WNOHANG): a zombie is reaped *)
Definition proc_is_alive (k : nat) : PM bool := fun ms =>
  let (ev, aevs') := pop (te_alive (ms_te ms)) in
  let st1 := deliver_np (ms_st ms) ev in
  let (al, w') := is_alive (worker_at st1 k) in
  (mkPms (set_workers st1 (set_nth k w' (workers st1))) (mkTE (te_sleep (ms_te ms)) (te_drain (ms_te ms)) aevs'), [],
   Ok al).
(*  .terminate(): SIGTERM is sent (the death itself is asynchronous; join() waits for it) *)
Definition proc_terminate (k : nat) : PM unit := st <- get_st ;; emit (Terminate (pid (worker_at st k))).
(*  .join(): returns once the process has exited and has been waited for *)
Definition proc_join (k : nat) : PM unit :=
  st <- get_st ;;
  put_st (set_workers st (set_nth k (reap_proc (worker_at st k)) (workers st))) ;;;
  emit (Join (pid (worker_at st k))).

(* ---- os.kill(pid, signal.SIGINT): observed as Kill pid; ProcessLookupError unless the pid belongs to a current
   worker that has not been waited for (live or zombie) *)
Inductive signum := SIGINT.
Definition owns_pid (st : state) (p : nat) : bool :=
  existsb (fun w => andb (pid w =? p) (negb (pst_eqb (pst w) Reaped))) (workers st).
Definition os_kill (p : nat) (s : signum) : PM unit :=
  st <- get_st ;; emit (Kill p) ;;; if owns_pid st p then ret tt else raise (XProcessLookup p).

(* ---- _wait_for_worker_startup(process, event) - NOT translated.  It polls process.is_alive() once; what that poll
   sees is, in ProcMan.v, part of the delivery point that follows (DieS: a death it reaps); here it does nothing *)
Definition wait_for_worker_startup (k : nat) (e : unit) : PM unit := ret tt.
Definition wait_for_worker_startup_obj (o : pobj) (e : unit) : PM unit := ret tt.
