(* Gallina reading of what the load side of taskiq/serialization.py touches (exception_to_python, get_pickled_exception,
   _UnpickleableExceptionWrapper.restore, create_exception_cls, subclass_exception), for the source translator
   (harness/pygal_m.py + harness/pygal_load_gate.py).  The statement monad is PyStm.v with E = LoadGate.effect (the
   effects of the hand-written model LoadGate.conv) and X = lexc below.

   Objects: `sys.modules` is a LoadGate.env; what the lookup reaches (and a class made by type()) is a LoadGate.target;
   the validated argument of exception_to_python is a LoadGate.payload; the stored argument tuple is data (list N);
   what a call returns is a pyval.  Python's call expression on an object of the environment is LoadGate.pycall (the
   environment model's reading of `obj( *args)` for ANY object - that is not the function under the tie).
   Trusted: small, literal, no proofs here. *)
From Coq Require Import List NArith Bool.
From TQ Require Import LoadGate PyStm.
Import ListNotations.

(* which exception is propagating *)
Inductive lexc :=
| XKeyError               (* sys.modules[m]: m is not a key *)
| XAttributeError         (* getattr(o, n): no such attribute *)
| XValueError             (* type(name, ..): the name has a NUL / surrogate code point *)
| XTypeError              (* exception.__cause__ = <something that is neither None nor an exception> *)
| XSecurityError          (* taskiq.exceptions.SecurityError (a TaskiqError, an Exception) *)
| XCallException          (* the Exception (subclass) a called object raised: LoadGate.CRRaiseExc *)
| XCallBase (id : N)      (* the BaseException that is not an Exception raised by the constructor of class `id` *)
| XUnmodelled.            (* an operation on an object the environment model says nothing about (see py_getattr,
                             set_cause): it equals no outcome of the hand-written model *)

Definition LM (A : Type) : Type := M effect lexc A.

(* `except C`: is the propagating exception an instance of C *)
Definition is_KeyError (x : lexc) : bool := match x with XKeyError => true | _ => false end.
Definition is_AttributeError (x : lexc) : bool := match x with XAttributeError => true | _ => false end.
Definition is_ValueError (x : lexc) : bool := match x with XValueError => true | _ => false end.
Definition is_TypeError (x : lexc) : bool := match x with XTypeError => true | _ => false end.
Definition is_exception (x : lexc) : bool := match x with XCallBase _ | XUnmodelled => false | _ => true end.
Definition is_BaseException (x : lexc) : bool := match x with XUnmodelled => false | _ => true end.
Definition try_else {R A B} := @try_else_on effect lexc R A B is_exception.
Definition try_except {R A} := @try_except_on effect lexc R A is_exception.

(* sys.modules[m] : one dict lookup, nothing is imported *)
Definition sys_modules_getitem (e : env) (m : name) : LM target :=
  match assoc m e with Some o => ret (TEnv o) | None => raise XKeyError end.

(* sys.modules.get(m) : None when m is not a key *)
Definition sys_modules_get (e : env) (m : name) : LM (option target) := ret (option_map TEnv (assoc m e)).

(* importlib.import_module(m) : the loaded module when m is a key of sys.modules; otherwise m IS imported (the effect
   the property forbids) and what happens then is outside the environment model *)
Definition import_module (e : env) (m : name) : LM target :=
  match assoc m e with Some o => ret (TEnv o) | None => emit (Import m) ;;; raise XUnmodelled end.

(* getattr(o, n): a plain lookup in the object's attribute map (LoadGate.walk's step); the model gives objects outside
   the environment (a class made by type(), builtins.Exception) no attributes to look up *)
Definition py_getattr (t : target) (n : name) : LM target :=
  match t with
  | TEnv o => match assoc n (oattrs o) with Some o' => ret (TEnv o') | None => raise XAttributeError end
  | TSynth _ _ | TFallback => raise XUnmodelled
  end.
(* getattr(o, n, d) with o possibly None (None's own attributes are not modelled) *)
Definition py_getattr_default (t : option target) (n : name) (d : option target) : LM (option target) :=
  match t with
  | Some (TEnv o) => match assoc n (oattrs o) with Some o' => ret (Some (TEnv o')) | None => ret d end
  | _ => raise XUnmodelled
  end.

(* type(name, (parent,), {"__module__": module}): the model's synthetic class has the parent builtins.Exception; a
   class made with any other parent is not an object of the model *)
Inductive pyparent := PyException | PyBaseException.
Definition type_new (nm : name) (parent : pyparent) (md : smod) : LM target :=
  match parent with
  | PyException => if name_ok nm then emit (Synthesize nm md) ;;; ret (TSynth nm md) else raise XValueError
  | PyBaseException => raise XUnmodelled
  end.

(* what a call returned / what a variable holds *)
Inductive pyval :=
| VNone
| VExn (x : exn)          (* an exception instance the model's result type can name *)
| VWrapper (nm md : name) (args : list N)
                          (* a stored _UnpickleableExceptionWrapper instance itself (an exception; the model's results
                             never contain one: LoadGate.restore always unwraps) *)
| VOther.                 (* anything else *)

(* a stored instance used as a value *)
Definition inst_value (i : inst) : pyval :=
  match i with IPlain id => VExn (XOld id) | IWrapper nm md args => VWrapper nm md args end.

(* callee( *args) : Python's call expression, LoadGate.pycall; a new exception instance has no cause, no context,
   __suppress_context__ = False *)
Definition py_call (t : target) (args : list N) : LM pyval :=
  let '(r, es) := pycall t args in
  (es, match r with
       | CRInst c a => Ok (VExn (XNew c a None None false))
       | CRRaiseExc => Exc XCallException
       | CRRaiseBase id => Exc (XCallBase id)
       | CROther => Ok VOther
       end).

(* Exception(<text>) : builtins.Exception is the model's TFallback; the text is not data of the model *)
Definition new_fallback_exception (text : unit) : LM pyval := py_call TFallback [].

(* exception.__cause__ = v : BaseException's setter - v must be None or an exception (TypeError otherwise), and
   __suppress_context__ becomes True;   exception.__context__ = v : the same check, nothing else changes;
   exception.__suppress_context__ = b.
   On anything but an exception created by this load the model has no reading. *)
Definition set_cause (x v : pyval) : LM pyval :=
  match x, v with
  | VExn (XNew c a _ cx _), VNone => ret (VExn (XNew c a None cx true))
  | VExn (XNew c a _ cx _), VExn y => ret (VExn (XNew c a (Some y) cx true))
  | VExn (XNew _ _ _ _ _), VOther => raise XTypeError
  | _, _ => raise XUnmodelled
  end.
Definition set_context (x v : pyval) : LM pyval :=
  match x, v with
  | VExn (XNew c a ca _ s), VNone => ret (VExn (XNew c a ca None s))
  | VExn (XNew c a ca _ s), VExn y => ret (VExn (XNew c a ca (Some y) s))
  | VExn (XNew _ _ _ _ _), VOther => raise XTypeError
  | _, _ => raise XUnmodelled
  end.
Definition set_suppress_context (x : pyval) (b : bool) : LM pyval :=
  match x with
  | VExn (XNew c a ca cx _) => ret (VExn (XNew c a ca cx b))
  | _ => raise XUnmodelled
  end.

(* a _UnpickleableExceptionWrapper instance: self.exc_cls_name, self.exc_module, self.exc_args *)
Record wrapper := mkwrapper { w_cls_name : name; w_module : name; w_args : list N }.
