(* RecvLTS - labelled transition system of taskiq's concurrent receiver
   (taskiq/receiver/receiver.py: Receiver.listen / prefetcher / runner).

   One transition = one asyncio task step (the code between two suspension points), or one
   environment step (stop request, the broker generator yielding / ending, a callback coroutine
   ending, its done-callback running, listen() returning).  The system is an over-approximation
   of what asyncio can schedule; the correspondence run checks that every trace of the real
   Receiver.listen() (captured by logging shims) is accepted by [run].

   Models only - no proofs in this file. *)
From Coq Require Import List Arith Bool.
Import ListNotations.

(* cA = max_async_tasks (None or Some 0: unlimited, as `max_async_tasks is not None and > 0`),
   cP = max_prefetch, cN = max_tasks_to_execute (None or Some 0: no budget, Python truthiness),
   cW = wait_tasks_timeout is not None *)
Record cfg := mkcfg { cA : option nat; cP : nat; cN : option nat; cW : bool }.

Inductive item := IMsg (id : nat) | IDone.               (* hand-over queue items; IDone = QUEUE_DONE *)
Inductive pfpc := PFTop | PFAcq | PFPoll | PFExit | PFDone.
   (* PFTop: at `while True:` before finish_event.is_set()   (transient)
      PFAcq: in / before `await self.sem_prefetch.acquire()`
      PFPoll: suspended in `await asyncio.wait({current_message}, timeout=0.3)` holding a permit
      PFExit: left the loop, before cancel / put(QUEUE_DONE) / release  (transient)
      PFDone: prefetcher returned *)
Inductive rnpc := RNAcq | RNGet | RNWait | RNDone.
   (* RNAcq: in / before `await self.sem.acquire()`;  RNGet: owns a slot, released a prefetch permit,
      in `await queue.get()`;  RNWait: met QUEUE_DONE, in `await asyncio.wait(tasks, timeout=wtt)`;
      RNDone: runner returned *)
Inductive la := LANone | LANew | LAPending | LAHas (id : nat) | LAEnded | LACancelled.
   (* the look-ahead task `current_message`: LANew = created, not yet started (first step pending);
      LAPending = waiting inside broker.listen(); LAHas = done with a message; LAEnded = done with
      StopAsyncIteration; LANone = its message was consumed and no new task was created;
      LACancelled = cancelled by the prefetcher's exit path before it produced anything *)
Inductive cause := CStop | CBudget | CEnd.
Inductive how := AllDone | Timeout.

Record st := mkst {
  sem : nat;
  semp : nat;
  queue : list item;
  pf : pfpc;
  look : la;
  fetched : nat;
  rn : rnpc;
  live : list nat;
  ending : list nat;
  fin : bool;
  taken : list nat;
  started : list nat;
  finished : list nat;
  lost : list nat;
  tas : nat;
  timedout : bool;
  why : option cause;
  ret : bool }.

Definition set_sem (s : st) (v : nat) : st :=
  mkst v (semp s) (queue s) (pf s) (look s) (fetched s) (rn s) (live s) (ending s) (fin s) (taken s) (started s) (finished s) (lost s) (tas s) (timedout s) (why s) (ret s).
Definition set_semp (s : st) (v : nat) : st :=
  mkst (sem s) v (queue s) (pf s) (look s) (fetched s) (rn s) (live s) (ending s) (fin s) (taken s) (started s) (finished s) (lost s) (tas s) (timedout s) (why s) (ret s).
Definition set_queue (s : st) (v : list item) : st :=
  mkst (sem s) (semp s) v (pf s) (look s) (fetched s) (rn s) (live s) (ending s) (fin s) (taken s) (started s) (finished s) (lost s) (tas s) (timedout s) (why s) (ret s).
Definition set_pf (s : st) (v : pfpc) : st :=
  mkst (sem s) (semp s) (queue s) v (look s) (fetched s) (rn s) (live s) (ending s) (fin s) (taken s) (started s) (finished s) (lost s) (tas s) (timedout s) (why s) (ret s).
Definition set_look (s : st) (v : la) : st :=
  mkst (sem s) (semp s) (queue s) (pf s) v (fetched s) (rn s) (live s) (ending s) (fin s) (taken s) (started s) (finished s) (lost s) (tas s) (timedout s) (why s) (ret s).
Definition set_fetched (s : st) (v : nat) : st :=
  mkst (sem s) (semp s) (queue s) (pf s) (look s) v (rn s) (live s) (ending s) (fin s) (taken s) (started s) (finished s) (lost s) (tas s) (timedout s) (why s) (ret s).
Definition set_rn (s : st) (v : rnpc) : st :=
  mkst (sem s) (semp s) (queue s) (pf s) (look s) (fetched s) v (live s) (ending s) (fin s) (taken s) (started s) (finished s) (lost s) (tas s) (timedout s) (why s) (ret s).
Definition set_live (s : st) (v : list nat) : st :=
  mkst (sem s) (semp s) (queue s) (pf s) (look s) (fetched s) (rn s) v (ending s) (fin s) (taken s) (started s) (finished s) (lost s) (tas s) (timedout s) (why s) (ret s).
Definition set_ending (s : st) (v : list nat) : st :=
  mkst (sem s) (semp s) (queue s) (pf s) (look s) (fetched s) (rn s) (live s) v (fin s) (taken s) (started s) (finished s) (lost s) (tas s) (timedout s) (why s) (ret s).
Definition set_fin (s : st) (v : bool) : st :=
  mkst (sem s) (semp s) (queue s) (pf s) (look s) (fetched s) (rn s) (live s) (ending s) v (taken s) (started s) (finished s) (lost s) (tas s) (timedout s) (why s) (ret s).
Definition set_taken (s : st) (v : list nat) : st :=
  mkst (sem s) (semp s) (queue s) (pf s) (look s) (fetched s) (rn s) (live s) (ending s) (fin s) v (started s) (finished s) (lost s) (tas s) (timedout s) (why s) (ret s).
Definition set_started (s : st) (v : list nat) : st :=
  mkst (sem s) (semp s) (queue s) (pf s) (look s) (fetched s) (rn s) (live s) (ending s) (fin s) (taken s) v (finished s) (lost s) (tas s) (timedout s) (why s) (ret s).
Definition set_finished (s : st) (v : list nat) : st :=
  mkst (sem s) (semp s) (queue s) (pf s) (look s) (fetched s) (rn s) (live s) (ending s) (fin s) (taken s) (started s) v (lost s) (tas s) (timedout s) (why s) (ret s).
Definition set_lost (s : st) (v : list nat) : st :=
  mkst (sem s) (semp s) (queue s) (pf s) (look s) (fetched s) (rn s) (live s) (ending s) (fin s) (taken s) (started s) (finished s) v (tas s) (timedout s) (why s) (ret s).
Definition set_tas (s : st) (v : nat) : st :=
  mkst (sem s) (semp s) (queue s) (pf s) (look s) (fetched s) (rn s) (live s) (ending s) (fin s) (taken s) (started s) (finished s) (lost s) v (timedout s) (why s) (ret s).
Definition set_timedout (s : st) (v : bool) : st :=
  mkst (sem s) (semp s) (queue s) (pf s) (look s) (fetched s) (rn s) (live s) (ending s) (fin s) (taken s) (started s) (finished s) (lost s) (tas s) v (why s) (ret s).
Definition set_why (s : st) (v : option cause) : st :=
  mkst (sem s) (semp s) (queue s) (pf s) (look s) (fetched s) (rn s) (live s) (ending s) (fin s) (taken s) (started s) (finished s) (lost s) (tas s) (timedout s) v (ret s).
Definition set_ret (s : st) (v : bool) : st :=
  mkst (sem s) (semp s) (queue s) (pf s) (look s) (fetched s) (rn s) (live s) (ending s) (fin s) (taken s) (started s) (finished s) (lost s) (tas s) (timedout s) (why s) v.


Inductive ev :=
| EStop                                  (* finish_event.set() *)
| ETake (id : nat)                       (* broker.listen() yields message id to the look-ahead task *)
| EEnd                                   (* broker.listen() generator returns *)
| EPfCheck (b : bool)                    (* finish_event.is_set() at the loop top returned b *)
| EPfAcquire                             (* sem_prefetch.acquire() returned to the prefetcher *)
| EPfTimeout                             (* wait returned nothing done; permit released; continue *)
| EPfGot (id : nat) (newla : bool)       (* wait returned the message; fetched+=1; new look-ahead created iff newla; queue.put *)
| EPfExhausted                           (* current_message.result() raised StopAsyncIteration; break *)
| EPfExit                                (* cancel look-ahead; queue.put(QUEUE_DONE); release; return *)
| ERnAcquire                             (* sem.acquire() returned (if limited); sem_prefetch.release() *)
| ERnGet (it : item)                     (* queue.get() returned it; message: callback task spawned *)
| ECbEnd (id : nat)                      (* callback coroutine of message id finished (any outcome) *)
| ECbDone (id : nat) (rel : bool)        (* its done-callback ran: tasks.discard; sem.release() iff rel *)
| ERnWaited (h : how)                    (* asyncio.wait(tasks, timeout) returned: no pending / some pending *)
| EReturn.                               (* Receiver.listen() returned *)

Definition limited (c : cfg) : bool := match cA c with Some (S _) => true | _ => false end.
Definition slots (c : cfg) : nat := match cA c with Some a => a | None => 0 end.
Definition reachedN (c : cfg) (f : nat) : bool :=
  match cN c with Some n => andb (0 <? n) (n <=? f) | None => false end.

Definition init (c : cfg) : st :=
  mkst (slots c) (cP c) [] PFTop LANew 0 RNAcq [] [] false [] [] [] [] 0 false None false.

Fixpoint remove1 (x : nat) (l : list nat) : list nat :=
  match l with [] => [] | y :: t => if Nat.eqb x y then t else y :: remove1 x t end.
Fixpoint mem (x : nat) (l : list nat) : bool :=
  match l with [] => false | y :: t => orb (Nat.eqb x y) (mem x t) end.
Definition isnil {A} (l : list A) : bool := match l with [] => true | _ => false end.

(* [d1] selects the defective pre-2fad6db prefetcher (a new look-ahead is created after every fetch,
   even when the budget is now reached); the current code is [d1 = false]. *)
Definition gstep (d1 : bool) (c : cfg) (s : st) (e : ev) : option st :=
  match e with
  | EStop => Some (set_fin s true)
  | ETake id =>
      match look s, pf s with
      | LAPending, PFAcq | LAPending, PFPoll =>
          if mem id (taken s) then None
          else Some (set_tas (set_taken (set_look s (LAHas id)) (id :: taken s))
                             (if fin s then S (tas s) else tas s))
      | _, _ => None
      end
  | EEnd =>
      match look s, pf s with
      | LAPending, PFAcq | LAPending, PFPoll => Some (set_look s LAEnded)
      | _, _ => None
      end
  | EPfCheck b =>
      match pf s with
      | PFTop =>
          if Bool.eqb b (fin s) then
            if b then Some (set_why (set_pf s PFExit) (Some CStop))
            else Some (set_look (set_pf s PFAcq) (match look s with LANew => LAPending | l => l end))
          else None
      | _ => None
      end
  | EPfAcquire =>
      match pf s, semp s with
      | PFAcq, S p =>
          if reachedN c (fetched s) then Some (set_why (set_pf (set_semp s p) PFExit) (Some CBudget))
          else Some (set_pf (set_semp s p) PFPoll)
      | _, _ => None
      end
  | EPfTimeout =>
      match pf s, look s with
      | PFPoll, LAPending => Some (set_pf (set_semp s (S (semp s))) PFTop)
      | _, _ => None
      end
  | EPfGot id newla =>
      match pf s, look s with
      | PFPoll, LAHas id' =>
          if andb (Nat.eqb id id') (Bool.eqb newla (orb d1 (negb (reachedN c (S (fetched s)))))) then
            Some (set_pf (set_look (set_fetched (set_queue s (queue s ++ [IMsg id])) (S (fetched s)))
                                   (if newla then LANew else LANone)) PFTop)
          else None
      | _, _ => None
      end
  | EPfExhausted =>
      match pf s, look s with
      | PFPoll, LAEnded => Some (set_why (set_pf s PFExit) (Some CEnd))
      | _, _ => None
      end
  | EPfExit =>
      match pf s with
      | PFExit =>
          Some (set_lost
                  (set_look (set_pf (set_queue (set_semp s (S (semp s))) (queue s ++ [IDone])) PFDone)
                            (match look s with LAEnded => LAEnded | LANone => LANone | _ => LACancelled end))
                  (match look s with LAHas id => id :: lost s | _ => lost s end))
      | _ => None
      end
  | ERnAcquire =>
      match rn s with
      | RNAcq =>
          if limited c then
            match sem s with
            | S k => Some (set_rn (set_semp (set_sem s k) (S (semp s))) RNGet)
            | O => None
            end
          else Some (set_rn (set_semp s (S (semp s))) RNGet)
      | _ => None
      end
  | ERnGet it =>
      match rn s, queue s, it with
      | RNGet, IMsg id :: q, IMsg id' =>
          if Nat.eqb id id' then
            Some (set_started (set_live (set_rn (set_queue s q) RNAcq) (id :: live s)) (id :: started s))
          else None
      | RNGet, IDone :: q, IDone =>
          Some (set_rn (set_queue s q) (if andb (isnil (live s)) (isnil (ending s)) then RNDone else RNWait))
      | _, _, _ => None
      end
  | ECbEnd id =>
      if mem id (live s) then
        Some (set_finished (set_ending (set_live s (remove1 id (live s))) (id :: ending s)) (id :: finished s))
      else None
  | ECbDone id rel =>
      if andb (mem id (ending s)) (Bool.eqb rel (limited c)) then
        Some (set_sem (set_ending s (remove1 id (ending s))) (if limited c then S (sem s) else sem s))
      else None
  | ERnWaited h =>
      match rn s, h with
      | RNWait, AllDone => if isnil (live s) then Some (set_rn s RNDone) else None
      | RNWait, Timeout =>
          if andb (negb (isnil (live s))) (cW c) then Some (set_timedout (set_rn s RNDone) true) else None
      | _, _ => None
      end
  | EReturn =>
      match pf s, rn s, ret s with
      | PFDone, RNDone, false => Some (set_ret s true)
      | _, _, _ => None
      end
  end.

Definition step := gstep false.

Fixpoint grun (d1 : bool) (c : cfg) (s : st) (tr : list ev) : option st :=
  match tr with
  | [] => Some s
  | e :: t => match gstep d1 c s e with Some s' => grun d1 c s' t | None => None end
  end.
Definition run := grun false.

(* index of the first rejected event, for the correspondence run *)
Fixpoint firstbad (c : cfg) (s : st) (k : nat) (tr : list ev) : option nat :=
  match tr with
  | [] => None
  | e :: t => match step c s e with Some s' => firstbad c s' (S k) t | None => Some k end
  end.

(* events of the prefetcher / runner themselves; the others are the environment
   (stop request, broker, callbacks, the task group returning) *)
Definition internal (e : ev) : bool :=
  match e with
  | EPfCheck _ | EPfAcquire | EPfTimeout | EPfGot _ _ | EPfExhausted | EPfExit
  | ERnAcquire | ERnGet _ | ERnWaited _ => true
  | _ => false
  end.

(* ---- observation functions used by the theorems and by the Boolean property forms *)
Definition is_msg (i : item) : bool := match i with IMsg _ => true | IDone => false end.
Fixpoint qids (q : list item) : list nat :=
  match q with [] => [] | IMsg id :: t => id :: qids t | IDone :: t => qids t end.
Definition nmsgs (q : list item) : nat := length (qids q).
Definition la_ids (l : la) : list nat := match l with LAHas id => [id] | _ => [] end.
Definition la_n (l : la) : nat := length (la_ids l).
Definition holds_slot (r : rnpc) : nat := match r with RNAcq => 0 | _ => 1 end.
Definition holds_permit (p : pfpc) : nat := match p with PFPoll => 1 | _ => 0 end.
Definition busy (s : st) : nat := length (live s) + length (ending s).
(* taken from the broker, callback task not yet gone *)
Definition unfinished (s : st) : nat := la_n (look s) + nmsgs (queue s) + busy s.

(* variant for C05_terminates *)
Definition pfw (p : pfpc) : nat :=
  match p with PFDone => 0 | PFExit => 3 | PFTop => 6 | PFPoll => 9 | PFAcq => 12 end.
Definition rnw (r : rnpc) : nat := match r with RNDone => 0 | RNWait => 1 | RNGet => 1 | RNAcq => 2 end.
Definition mu (s : st) : nat := pfw (pf s) + 2 * length (queue s) + rnw (rn s).

(* ---- Boolean forms of the properties, evaluated along every accepted real trace.
   [scan c chk s tr] runs the trace and requires [chk] in every visited state. *)
Fixpoint scan (c : cfg) (chk : st -> bool) (s : st) (tr : list ev) : bool :=
  andb (chk s)
       (match tr with
        | [] => true
        | e :: t => match step c s e with Some s' => scan c chk s' t | None => false end
        end).

Fixpoint nodupb (l : list nat) : bool :=
  match l with [] => true | x :: t => andb (negb (mem x t)) (nodupb t) end.
Fixpoint inclb (l m : list nat) : bool :=
  match l with [] => true | x :: t => andb (mem x m) (inclb t m) end.

Definition C04_check (c : cfg) (s : st) : bool :=
  match cA c with Some (S a) => unfinished s <=? S a + cP c + 1 | _ => true end.
Definition C03_check (c : cfg) (s : st) : bool :=
  match cA c with
  | Some (S a) => andb (busy s <=? S a) (sem s + busy s + holds_slot (rn s) =? S a)
  | _ => true
  end.
Definition C01_check (c : cfg) (s : st) : bool :=
  andb (andb (nodupb (started s)) (inclb (started s) (taken s)))
       (andb (isnil (lost s))
             (if andb (ret s) (isnil (live s)) then andb (inclb (taken s) (finished s)) (length (taken s) =? length (finished s)) else true)).
Definition C05_check (c : cfg) (s : st) : bool :=
  andb (andb (tas s <=? 1)
             (match cN c with Some (S n) => length (taken s) <=? S n | _ => true end))
       (if ret s then orb (isnil (live s)) (andb (timedout s) (cW c)) else true).
