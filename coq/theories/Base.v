(* Generic interleaving of per-message (per-thread) event sequences.

   A global run of n concurrent activities is a list of events tagged with the index of the activity that
   produced them.  `Interleave ts g` says that g is obtained by repeatedly taking the head event of one of
   the sequences ts.  `project i g` recovers activity i's own sequence; `prefix p g` is a crash point.
   (Lemmas: proofs/BaseProofs.v.)  No proofs in this file. *)
From Coq Require Import List Arith Bool.
Import ListNotations.

Section Interleave.
  Context {A : Type}.

  Fixpoint set_nth (ts : list (list A)) (i : nat) (t : list A) : list (list A) :=
    match ts, i with
    | [], _ => []
    | _ :: r, O => t :: r
    | x :: r, S j => x :: set_nth r j t
    end.

  Inductive Interleave : list (list A) -> list (nat * A) -> Prop :=
  | IL_nil : forall ts, Forall (fun t => t = []) ts -> Interleave ts []
  | IL_cons : forall ts i x t g,
      nth_error ts i = Some (x :: t) ->
      Interleave (set_nth ts i t) g ->
      Interleave ts ((i, x) :: g).

  Definition project (i : nat) (g : list (nat * A)) : list A :=
    map snd (filter (fun p => Nat.eqb (fst p) i) g).

  Definition prefix {B : Type} (p l : list B) : Prop := exists s, l = p ++ s.

  (* executable counterpart used by the correspondence run: g is an interleaving of ts iff every tag is in
     range and every projection is the corresponding sequence (BaseProofs.interleave_iff_project) *)
  Fixpoint list_eqb (eqb : A -> A -> bool) (a b : list A) : bool :=
    match a, b with
    | [], [] => true
    | x :: a', y :: b' => eqb x y && list_eqb eqb a' b'
    | _, _ => false
    end.

  Definition tags_in_range (n : nat) (g : list (nat * A)) : bool :=
    forallb (fun p => Nat.ltb (fst p) n) g.
End Interleave.

(* number of elements satisfying a Boolean predicate *)
Definition countb {A : Type} (f : A -> bool) (l : list A) : nat := length (filter f l).
