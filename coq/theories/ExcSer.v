(* ExcSer.v - model of taskiq's exception (de)serialisation (property C19).

   What is modelled (taskiq/serialization.py, taskiq/result/v2.py), statement by statement:
     prepare_exception / _prepare_exception   -> prep_exc   (explicit fuel; the seen-set is the recursion path)
     get_pickleable_exception                 -> the cascade  n_exc_rt / first_ok / wrapper  inside prep_exc
     find_pickleable_exception, _itermro      -> first_ok over n_mro (MRO up to Exception/BaseException/object)
     _UnpickleableExceptionWrapper.from_exception -> PWrap (its own recursive calls on cause / context included)
     ensure_serializable, safe_repr, _safe_str    -> ensure, text_form
     TaskiqResult.serialize_error + pydantic's encoder        -> enc_ok   (EText: model_dump_json, EDict: model_dump(mode="json"))
     TaskiqResult.__getstate__ + pickle                       -> prep_exc CPickle, load_pickle
     TaskiqResult._validate_error / exception_to_python,
       create_exception_cls, subclass_exception               -> load_json
   What is NOT modelled but summarised by flags the harness measures with the real functions on every case
   (json, pickle, repr, str, pydantic's encoder, type(), the constructors of the exception classes):
   every Boolean field of [arg], [mro] and [node] below.  The theorems are about the decision logic, the
   recursion, its termination and the cause / context / suppress bookkeeping built on those flags.
   No proofs in this file. *)
From Coq Require Import List Bool Arith.
Import ListNotations.

Inductive coder := CJson | CPickle.
Inductive enc := EText | EDict | EPickle.
Definition coder_of (e : enc) : coder := match e with EPickle => CPickle | _ => CJson end.

(* ---------------------------------------------------------------- measured descriptors *)
(* one exception argument *)
Record arg := mkArg {
  a_rt_json : bool;      (* json.loads(json.dumps(a)) does not raise *)
  a_rt_pickle : bool;    (* pickle.loads(pickle.dumps(a)) does not raise *)
  a_enc_text : bool;     (* pydantic encodes a to JSON text (model_dump_json of Tuple[Any, ...]) *)
  a_enc_dict : bool;     (* pydantic encodes a to a JSON-mode python value (model_dump(mode="json")) *)
  a_eq_text : bool;      (* ... and the value read back from the text equals a *)
  a_eq_dict : bool;      (* ... and the value read back from the dict equals a *)
  a_eq_pickle : bool;    (* the unpickled value equals a *)
  a_repr_ok : bool;      (* repr(a) does not raise *)
  a_str_ok : bool        (* str(a) does not raise *)
}.
Definition a_rt (c : coder) (a : arg) : bool := match c with CJson => a_rt_json a | CPickle => a_rt_pickle a end.
Definition a_enc (e : enc) (a : arg) : bool :=
  match e with EText => a_enc_text a | EDict => a_enc_dict a | EPickle => true end.
Definition a_eq (e : enc) (a : arg) : bool :=
  match e with EText => a_eq_text a | EDict => a_eq_dict a | EPickle => a_eq_pickle a end.

(* what a loaded argument is, relative to the original one at the same position *)
Inductive aform := AEq | AChanged | ARepr | AStr | AUnrep.
(* the arguments of a loaded exception, relative to the original ones *)
Inductive largs :=
| LArgs (l : list aform)   (* same length, position by position *)
| LRewritten               (* class (re)built them: cls( *args).args <> args *)
| LText                    (* generic Exception("<class ...>((args))") *)
| LMismatch.               (* different length - never predicted by the JSON model *)

(* one class of the MRO walked by find_pickleable_exception (takewhile not in Exception/BaseException/object) *)
Record mro := mkMro {
  m_ok_json : bool;      (* supercls( *exc.args) constructs and json round-trips *)
  m_ok_pickle : bool;    (* supercls( *exc.args) constructs and pickle round-trips (whatever its truth value: the
                            candidate is tested with `is not None`) *)
  m_loaded : largs;      (* the args of the unpickled supercls( *exc.args), relative to exc.args (Python's own pickling) *)
  m_is_exc : bool        (* issubclass(supercls, BaseException) - false for a mixin in the MRO: skipped *)
}.
Definition m_ok (c : coder) (m : mro) : bool := match c with CJson => m_ok_json m | CPickle => m_ok_pickle m end.

(* what  sys.modules[exc_module] + getattr chain over exc_type.split(".")  finds at load time *)
Inductive resolution := RSelf | ROther | RMissing | RNonExc.

Record node := mkNode {
  n_has_module : bool;       (* type(exc).__module__ is not None *)
  n_resolve : resolution;
  n_accepts_text : bool;     (* resolved class accepts the args as they are loaded from JSON text *)
  n_accepts_dict : bool;     (* ... from the JSON dict *)
  n_recon_text : bool;       (* and keeps them: cls( *loaded).args = loaded *)
  n_recon_dict : bool;
  n_exc_rt_json : bool;      (* json.loads(json.dumps(exc)) does not raise (never, with Python's json) *)
  n_exc_rt_pickle : bool;    (* pickle.loads(pickle.dumps(exc)) does not raise *)
  n_native : largs;          (* args of the unpickled exc relative to exc.args (Python's own pickling) *)
  n_mro : list mro;
  n_wrap_rt_json : bool;     (* the wrapper built for exc round-trips through json (never) *)
  n_wrap_rt_pickle : bool;   (* ... through pickle *)
  n_args : list arg;
  n_cause : option nat;      (* __cause__, index into the graph *)
  n_context : option nat;    (* __context__ *)
  n_suppress : bool          (* __suppress_context__ *)
}.
Definition n_accepts (e : enc) (n : node) : bool :=
  match e with EText => n_accepts_text n | EDict => n_accepts_dict n | EPickle => false end.
Definition n_recon (e : enc) (n : node) : bool :=
  match e with EText => n_recon_text n | EDict => n_recon_dict n | EPickle => false end.
Definition n_exc_rt (c : coder) (n : node) : bool :=
  match c with CJson => n_exc_rt_json n | CPickle => n_exc_rt_pickle n end.
Definition n_wrap_rt (c : coder) (n : node) : bool :=
  match c with CJson => n_wrap_rt_json n | CPickle => n_wrap_rt_pickle n end.

Definition graph := list node.

(* ---------------------------------------------------------------- ensure_serializable *)
(* safe_repr: repr, else _safe_str: str, else the "<Unrepresentable ...>" text *)
Definition text_form (a : arg) : aform :=
  if a_repr_ok a then ARepr else if a_str_ok a then AStr else AUnrep.
Inductive sarg := SKeep (a : arg) | SText (f : aform).
Definition ensure (c : coder) (l : list arg) : list sarg :=
  map (fun a => if a_rt c a then SKeep a else SText (text_form a)) l.

(* ---------------------------------------------------------------- prepare_exception *)
(* What _prepare_exception returns.  PNone is Python's None: no link, or a link cut by the seen-set.
   "No link" is `exc.__cause__ is None` / `exc.__context__ is None`: the truth value of an exception OBJECT (classes
   defining __bool__ / __len__) plays no part anywhere - not here, not in get_pickleable_exception (`nearest is not
   None`), not in the field serializer / __getstate__ / exception_to_python (`is None`).  Hence no flag for it. *)
Inductive prep :=
| PNone
| PExc (id : nat)                                         (* the exception object itself *)
| PBase (id i : nat)                                      (* MRO[i]( *exc.args), first i that round-trips *)
| PWrap (id : nat) (a : list sarg) (c x : prep) (s : bool) (* _UnpickleableExceptionWrapper *)
| PRepr (id : nat) (a : list sarg) (c x : prep) (s : bool). (* ExceptionRepr *)

(* find_pickleable_exception: classes that are not exceptions (mixins) are skipped (:204-206, repair of finding
   D10 - the defective variant is in coq/findings/FindingsExcSer.v), the first remaining one that can be rebuilt from
   the args and round-trips wins *)
Fixpoint first_ok (c : coder) (l : list mro) (i : nat) : option nat :=
  match l with
  | [] => None
  | m :: t => if m_is_exc m && m_ok c m then Some i else first_ok c t (S i)
  end.

Definition mem (x : nat) (l : list nat) : bool := existsb (Nat.eqb x) l.

(* seen = SEEN_EXCEPTIONS_CACHE = ids on the current recursion path (added on entry, discarded in `finally`).
   Result None = out of fuel, or an index outside the graph. *)
Fixpoint prep_exc (c : coder) (g : graph) (fuel : nat) (seen : list nat) (id : nat) {struct fuel} : option prep :=
  match fuel with
  | O => None
  | S f =>
    if mem id seen then Some PNone else                                   (* :284 *)
    match nth_error g id with
    | None => None
    | Some n =>
      let seen' := id :: seen in                                          (* :287 *)
      let go := fun (o : option nat) =>
        match o with None => Some PNone | Some j => prep_exc c g f seen' j end in
      let octx := if n_suppress n then None else n_context n in          (* :162, :299 *)
      if n_exc_rt c n then Some (PExc id) else                            (* :225-226, then :291-292 *)
      match first_ok c (n_mro n) 0 with                                   (* :230-232 *)
      | Some i => Some (PBase id i)
      | None =>
        match go (n_cause n) with None => None | Some wc =>               (* :161 from_exception *)
        match go octx with None => None | Some wx =>                      (* :163 *)
          if n_wrap_rt c n then Some (PWrap id (ensure c (n_args n)) wc wx (n_suppress n))   (* :291-292 *)
          else
            match go (n_cause n) with None => None | Some rc =>           (* :298 - the recursion is done again *)
            match go octx with None => None | Some rx =>                  (* :300 *)
              Some (PRepr id (ensure c (n_args n)) rc rx (n_suppress n))  (* :304 *)
            end end
        end end
      end
    end
  end.

(* prepare_exception clears the cache and starts the recursion; fuel = S (length g) always suffices (C19_total) *)
Definition prepare (c : coder) (g : graph) (root : nat) : option prep := prep_exc c g (S (length g)) [] root.

(* ---------------------------------------------------------------- the encoder behind the field serializer *)
Definition sarg_enc (e : enc) (s : sarg) : bool := match s with SKeep a => a_enc e a | SText _ => true end.
Fixpoint enc_ok (e : enc) (p : prep) : bool :=
  match p with
  | PNone => true
  | PExc _ | PBase _ _ | PWrap _ _ _ _ _ =>
      match e with EPickle => true | _ => false end     (* pydantic cannot encode an exception object to JSON *)
  | PRepr _ a c x _ =>
      match e with
      | EPickle => true
      | _ => forallb (sarg_enc e) a && enc_ok e c && enc_ok e x
      end
  end.

(* ---------------------------------------------------------------- loading *)
Inductive lkind :=
| KOrig       (* the original class *)
| KOther      (* another exception class found under the same module + qualified name *)
| KSynth      (* create_exception_cls(exc_type, "taskiq.exceptions") *)
| KSynthSer   (* create_exception_cls(exc_type, "taskiq.serialization") - exc_module is None *)
| KGeneric    (* Exception(f"{cls}({exc_msg})") *)
| KBase (i : nat)   (* pickle: MRO[i], i > 0 *)
| KWrap.      (* pickle: _UnpickleableExceptionWrapper *)

(* `named`: the stand-in carries the original class name (class __name__ / wrapper.exc_cls_name+exc_module / text) *)
Inductive ltree :=
| LNone
| LNode (id : nat) (k : lkind) (named : bool) (a : largs) (c x : ltree) (s : bool).

Inductive lres := LR (t : ltree) | LSec | LBad.

Definition form (e : enc) (s : sarg) : aform :=
  match s with SKeep a => if a_eq e a then AEq else AChanged | SText f => f end.

(* which class exception_to_python ends up with (None = SecurityError) *)
Definition resolve_cls (n : node) : option lkind :=
  if negb (n_has_module n) then Some KSynthSer else       (* :351-352 *)
  match n_resolve n with
  | RSelf => Some KOrig
  | ROther => Some KOther
  | RMissing => Some KSynth                               (* :360-364 *)
  | RNonExc => None                                       (* :378-385 *)
  end.

Definition is_synth (k : lkind) : bool := match k with KSynth | KSynthSer => true | _ => false end.
Definition is_orig (k : lkind) : bool := match k with KOrig => true | _ => false end.

(* cls( *exc_msg), falling back to Exception(text)  (:390-393) *)
Definition construct (e : enc) (n : node) (k : lkind) (forms : list aform) : lkind * bool * largs :=
  if is_synth k then (k, true, LArgs forms)               (* a plain subclass of Exception takes any args *)
  else if n_accepts e n then (k, is_orig k, if n_recon e n then LArgs forms else LRewritten)
  else (KGeneric, true, LText).

Fixpoint load_json (e : enc) (g : graph) (p : prep) : lres :=
  match p with
  | PNone => LR LNone                                     (* None: no link *)
  | PRepr id a c x s =>
    match nth_error g id with
    | None => LBad
    | Some n =>
      match resolve_cls n with
      | None => LSec
      | Some k =>
        let '(k', named, la) := construct e n k (map (form e) a) in
        match load_json e g c with                        (* :395-396 *)
        | LR tc =>
          match load_json e g x with                      (* :397-398 *)
          | LR tx => LR (LNode id k' named la tc tx s)    (* :400 restores the flag *)
          | err => err
          end
        | err => err
        end
      end
    end
  | _ => LBad
  end.

Inductive outcome :=
| OFuel            (* the model ran out of fuel / left the graph - excluded by C19_total *)
| OStoreFail       (* the encoder raised *)
| OSecurity        (* load raised SecurityError *)
| ONotExc          (* the loaded `error` is not an exception *)
| OLoaded (t : ltree).

(* pickle: TaskiqResult.__setstate__ installs the unpickled object as it is; Python's exception pickling
   keeps neither __cause__ / __context__ nor the suppress flag *)
Definition load_pickle (g : graph) (p : prep) : outcome :=
  match p with
  | PExc id =>
      match nth_error g id with
      | Some n => OLoaded (LNode id KOrig true (n_native n) LNone LNone false)
      | None => ONotExc
      end
  | PBase id i =>
      match nth_error g id with
      | Some n =>
        match nth_error (n_mro n) i with
        | Some m => OLoaded (LNode id (if i =? 0 then KOrig else KBase i) (i =? 0) (m_loaded m) LNone LNone false)
        | None => ONotExc
        end
      | None => ONotExc
      end
  | PWrap id a _ _ _ => OLoaded (LNode id KWrap true (LArgs (map (form EPickle) a)) LNone LNone false)
  | PRepr _ _ _ _ _ => ONotExc
  | PNone => ONotExc
  end.

Definition roundtrip (e : enc) (g : graph) (root : nat) : outcome :=
  match prepare (coder_of e) g root with
  | None => OFuel
  | Some p =>
    if enc_ok e p then
      match e with
      | EPickle => load_pickle g p
      | _ => match load_json e g p with LR LNone => ONotExc | LR t => OLoaded t | LSec => OSecurity | LBad => ONotExc end
      end
    else OStoreFail
  end.

(* ---------------------------------------------------------------- well-formedness / environment facts *)
Definition link_in (g : graph) (o : option nat) : Prop := match o with None => True | Some j => j < length g end.
Definition wf (g : graph) : Prop := forall n, In n g -> link_in g (n_cause n) /\ link_in g (n_context n).

(* Python's json cannot encode an exception object: every JSON-coder flag about exception objects is false *)
Definition json_opaque (g : graph) : Prop :=
  forall n, In n g -> n_exc_rt_json n = false /\ n_wrap_rt_json n = false /\
                      (forall m, In m (n_mro n) -> m_ok_json m = false).

Definition linkb (g : graph) (o : option nat) : bool :=
  match o with None => true | Some j => j <? length g end.
Definition wfb (g : graph) : bool := forallb (fun n => linkb g (n_cause n) && linkb g (n_context n)) g.
Definition json_opaqueb (g : graph) : bool :=
  forallb (fun n => negb (n_exc_rt_json n) && negb (n_wrap_rt_json n) && forallb (fun m => negb (m_ok_json m)) (n_mro n)) g.

(* ---------------------------------------------------------------- equality tests used by the correspondence *)
Definition aform_eqb (x y : aform) : bool :=
  match x, y with AEq, AEq | AChanged, AChanged | ARepr, ARepr | AStr, AStr | AUnrep, AUnrep => true | _, _ => false end.
Fixpoint aforms_eqb (x y : list aform) : bool :=
  match x, y with [], [] => true | a :: x', b :: y' => aform_eqb a b && aforms_eqb x' y' | _, _ => false end.
Definition largs_eqb (x y : largs) : bool :=
  match x, y with
  | LArgs a, LArgs b => aforms_eqb a b
  | LRewritten, LRewritten | LText, LText | LMismatch, LMismatch => true
  | _, _ => false
  end.
Definition lkind_eqb (x y : lkind) : bool :=
  match x, y with
  | KOrig, KOrig | KOther, KOther | KSynth, KSynth | KSynthSer, KSynthSer | KGeneric, KGeneric | KWrap, KWrap => true
  | KBase i, KBase j => i =? j
  | _, _ => false
  end.
Fixpoint ltree_eqb (x y : ltree) : bool :=
  match x, y with
  | LNone, LNone => true
  | LNode i k n a c t s, LNode i' k' n' a' c' t' s' =>
      (i =? i') && lkind_eqb k k' && Bool.eqb n n' && largs_eqb a a' && ltree_eqb c c' && ltree_eqb t t' && Bool.eqb s s'
  | _, _ => false
  end.
Definition outcome_eqb (x y : outcome) : bool :=
  match x, y with
  | OFuel, OFuel | OStoreFail, OStoreFail | OSecurity, OSecurity | ONotExc, ONotExc => true
  | OLoaded a, OLoaded b => ltree_eqb a b
  | _, _ => false
  end.

(* ---------------------------------------------------------------- the statement, on a loaded tree *)
(* chain clause (JSON): t is the unfolding of the graph from id along every duplicate-free path of cause /
   unsuppressed-context links, with the same suppress flags; a link to a node on the path is cut. *)
Definition eff_context (n : node) : option nat := if n_suppress n then None else n_context n.

Fixpoint chain_ok (g : graph) (path : list nat) (id : nat) (t : ltree) {struct t} : Prop :=
  match t with
  | LNone => False
  | LNode id' _ _ _ c x s =>
    id' = id /\
    exists n, nth_error g id = Some n /\ s = n_suppress n /\
      match n_cause n, c with
      | None, LNone => True
      | Some j, LNone => In j (id :: path)
      | Some j, tc => ~ In j (id :: path) /\ chain_ok g (id :: path) j tc
      | None, _ => False
      end /\
      match eff_context n, x with
      | None, LNone => True
      | Some j, LNone => In j (id :: path)
      | Some j, tx => ~ In j (id :: path) /\ chain_ok g (id :: path) j tx
      | None, _ => False
      end
  end.

Definition is_lnone (t : ltree) : bool := match t with LNone => true | _ => false end.

Fixpoint chain_okb (g : graph) (path : list nat) (id : nat) (t : ltree) {struct t} : bool :=
  match t with
  | LNone => false
  | LNode id' _ _ _ c x s =>
    (id' =? id) &&
    match nth_error g id with
    | None => false
    | Some n =>
      Bool.eqb s (n_suppress n) &&
      match n_cause n with
      | None => is_lnone c
      | Some j => if is_lnone c then mem j (id :: path) else negb (mem j (id :: path)) && chain_okb g (id :: path) j c
      end &&
      match eff_context n with
      | None => is_lnone x
      | Some j => if is_lnone x then mem j (id :: path) else negb (mem j (id :: path)) && chain_okb g (id :: path) j x
      end
    end
  end.

(* class clause.  The forms the arguments of node n must have after a round trip through encoding e *)
Definition arg_form (e : enc) (a : arg) : aform :=
  if a_rt (coder_of e) a then (if a_eq e a then AEq else AChanged) else text_form a.
Definition is_text (f : aform) : bool := match f with ARepr | AStr | AUnrep => true | _ => false end.

Definition faithful (e : enc) (n : node) : bool :=
  n_has_module n && match n_resolve n with RSelf => true | _ => false end && n_accepts e n && n_recon e n.
Definition all_eq (e : enc) (n : node) : bool :=
  forallb (fun a => a_rt (coder_of e) a && a_eq e a) (n_args n).

Definition largs_eqb_forms (a : largs) (l : list aform) : bool :=
  match a with LArgs l' => aforms_eqb l' l | _ => false end.

(* JSON, one node: importable + constructible + reconstructible => original class, every argument in its
   predicted form (equal when representable, text when un-encodable); otherwise a named stand-in *)
Definition class_node_json (e : enc) (n : node) (k : lkind) (named : bool) (a : largs) : bool :=
  let forms := map (arg_form e) (n_args n) in
  if faithful e n then is_orig k && largs_eqb_forms a forms
  else
    match k with
    | KSynth | KSynthSer => named && largs_eqb_forms a forms
    | KGeneric => named && match a with LText => true | _ => false end
    | KOrig => named && match a with LRewritten => true | _ => false end   (* accepted, args rewritten *)
    | KOther => true                                                        (* name shadowed by another exception class *)
    | _ => false
    end.

Fixpoint class_json_okb (e : enc) (g : graph) (t : ltree) : bool :=
  match t with
  | LNone => true
  | LNode id k named a c x _ =>
    match nth_error g id with
    | None => false
    | Some n => class_node_json e n k named a && class_json_okb e g c && class_json_okb e g x
    end
  end.

(* pickle, the root only (links are not kept): original class when Python's own pickling works, else the
   nearest base that can be rebuilt and pickled, else the wrapper naming the class with ensured args *)
Definition class_node_pickle (n : node) (k : lkind) (named : bool) (a : largs) : bool :=
  if n_exc_rt_pickle n then is_orig k && named && largs_eqb a (n_native n)
  else match first_ok CPickle (n_mro n) 0 with
       | Some i =>
         match nth_error (n_mro n) i with
         | Some m => m_is_exc m && largs_eqb a (m_loaded m) &&
                     (if i =? 0 then is_orig k && named else match k with KBase j => j =? i | _ => false end)
         | None => false
         end
       | None => n_wrap_rt_pickle n &&
                 match k with
                 | KWrap => named && largs_eqb_forms a (map (arg_form EPickle) (n_args n))
                 | _ => false
                 end
       end.

Definition class_pickle_okb (g : graph) (t : ltree) : bool :=
  match t with
  | LNode id k named a LNone LNone false =>
    match nth_error g id with Some n => class_node_pickle n k named a | None => false end
  | _ => false
  end.

(* ---------------------------------------------------------------- the statement, as propositions *)
Definition is_json (e : enc) : Prop := e = EText \/ e = EDict.

Definition class_spec_json (e : enc) (n : node) (k : lkind) (named : bool) (a : largs) : Prop :=
  let forms := map (arg_form e) (n_args n) in
  (faithful e n = true -> k = KOrig /\ a = LArgs forms) /\
  (faithful e n = false ->
     ((k = KSynth \/ k = KSynthSer) /\ named = true /\ a = LArgs forms) \/
     (k = KGeneric /\ named = true /\ a = LText) \/
     (k = KOrig /\ named = true /\ a = LRewritten) \/
     k = KOther).

Fixpoint class_json_ok (e : enc) (g : graph) (t : ltree) : Prop :=
  match t with
  | LNone => True
  | LNode id k named a c x _ =>
    (exists n, nth_error g id = Some n /\ class_spec_json e n k named a) /\ class_json_ok e g c /\ class_json_ok e g x
  end.

(* the pickle stand-in cascade for the root: Python's own pickling, else the NEAREST base that can be rebuilt and
   pickled, else the wrapper naming the class with ensured arguments *)
Definition class_spec_pickle (n : node) (k : lkind) (named : bool) (a : largs) : Prop :=
  (n_exc_rt_pickle n = true -> k = KOrig /\ named = true /\ a = n_native n) /\
  (n_exc_rt_pickle n = false -> forall i, first_ok CPickle (n_mro n) 0 = Some i ->
      exists m, nth_error (n_mro n) i = Some m /\ m_ok_pickle m = true /\ m_is_exc m = true /\
        (forall j' m', j' < i -> nth_error (n_mro n) j' = Some m' -> m_is_exc m' && m_ok_pickle m' = false) /\
        a = m_loaded m /\ (i = 0 -> k = KOrig /\ named = true) /\ (i <> 0 -> k = KBase i)) /\
  (n_exc_rt_pickle n = false -> first_ok CPickle (n_mro n) 0 = None ->
      (forall m, In m (n_mro n) -> m_is_exc m && m_ok_pickle m = false) /\ n_wrap_rt_pickle n = true /\
      k = KWrap /\ named = true /\ a = LArgs (map (arg_form EPickle) (n_args n))).

(* the two regions in which a store or a load can fail *)
Definition encodable (e : enc) (g : graph) : Prop :=
  forall n a, In n g -> In a (n_args n) -> a_rt_json a = true -> a_enc e a = true.
Definition no_shadow (g : graph) : Prop :=
  forall n, In n g -> n_has_module n = true -> n_resolve n <> RNonExc.

Definition wrappable (g : graph) : Prop := forall n, In n g -> n_wrap_rt_pickle n = true.



(* Boolean form of the statement for one observed outcome (store/load failures are judged by the harness'
   direct oracle; here: a loaded tree must satisfy the class and chain clauses) *)
Definition C19_check (e : enc) (g : graph) (root : nat) (o : outcome) : bool :=
  match o with
  | OLoaded t =>
    match e with
    | EPickle => class_pickle_okb g t
    | _ => chain_okb g [] root t && class_json_okb e g t
    end
  | OFuel => false
  | _ => true
  end.

(* one correspondence case: the measured graph and what the three real round trips produced *)
Definition case_ok (g : graph) (root : nat) (otext odict opickle : outcome) : bool :=
  wfb g &&
  outcome_eqb (roundtrip EText g root) otext && C19_check EText g root otext &&
  outcome_eqb (roundtrip EDict g root) odict && C19_check EDict g root odict &&
  outcome_eqb (roundtrip EPickle g root) opickle && C19_check EPickle g root opickle.

Fixpoint bad_cases (i : nat) (l : list (graph * nat * outcome * outcome * outcome)) : list nat :=
  match l with
  | [] => []
  | (g, root, ot, od, op) :: t => if case_ok g root ot od op then bad_cases (S i) t else i :: bad_cases (S i) t
  end.
