(* Gallina reading of what taskiq.receiver.receiver.Receiver.callback touches, for the source translator
   (harness/pygal.py + harness/pygal_m.py + harness/pygal_callback.py).

   Part 1 is the statement monad of the monadic backend (pygal_m): Pipeline.v's writer + exception monad `M`
   with a third way for a statement to end - an executed `return` - layered on top as the value `Return`.
   Part 2 gives every primitive of `callback` its meaning in terms of Pipeline.v's pcfg / eff / M; the
   receiver object `self` IS the configuration (pcfg): what the formatter, the broker, the middlewares, the task
   and the result backend do is what the configuration says they do.
   Trusted like PyPrelude.v: small, literal, no proofs here. *)
From Coq Require Import List Arith Bool ZArith.
From TQ Require Import Base Pipeline.
Import ListNotations.

(* ------------------------------------------------------------------------------------------ 1. statements *)
(* how a statement (block) ends when no exception propagates: control falls through to the next statement with
   the variables it (re-)bound, or a `return` was executed, carrying the function's value (R = unit for a function
   returning None, like callback) *)
Inductive ctl (R A : Type) := Normal (a : A) | Return (r : R).
Arguments Normal {R A} a.
Arguments Return {R A} r.
Definition stm (R A : Type) : Type := M (ctl R A).

Definition next {R A} (a : A) : stm R A := ret (Normal a).        (* fall through *)
Definition return_ {A} : stm unit A := ret (Return tt).           (* return          (function returning None) *)
Definition return_v {R A} (r : R) : stm R A := ret (Return r).    (* return r *)
Definition raise_ {R A} (x : xkind) : stm R A := raise x.         (* raise exc / raise *)
Definition lift {R A} (a : M A) : stm R A := bind a (fun v => ret (Normal v)).   (* a primitive as a statement *)
Definition sbind {R A B} (a : stm R A) (f : A -> stm R B) : stm R B :=   (* a ; f *)
  bind a (fun r => match r with Normal v => f v | Return r => ret (Return r) end).
Notation "x <~ a ;; b" := (sbind a (fun x => b)) (at level 61, a at next level, right associativity).

(* `except Exception` catches every exception of the model but GeneratorExit (a BaseException) *)
Definition is_exception (x : xkind) : bool := match x with XGenExit => false | _ => true end.

(*  try: a   except Exception as x: h x   [else: e]
    the handler and the else-suite are outside the protected region; a `return` in the try-suite skips `else` *)
Definition try_else {R A B} (a : stm R A) (h : xkind -> stm R B) (e : A -> stm R B) : stm R B :=
  match a with
  | (es, Exc x) => if is_exception x then (let (es', o) := h x in (es ++ es', o)) else (es, Exc x)
  | (es, Ok (Normal v)) => let (es', o) := e v in (es ++ es', o)
  | (es, Ok (Return r)) => (es, Ok (Return r))
  end.
Definition try_except {R A} (a : stm R A) (h : xkind -> stm R A) : stm R A := try_else a h next.

(*  for x in l: body      with the variables the body re-binds as the loop-carried state s *)
Fixpoint for_ {R X S : Type} (l : list X) (body : X -> S -> stm R S) (s : S) : stm R S :=
  match l with
  | [] => next s
  | x :: l' => sbind (body x s) (for_ l' body)
  end.

(* the body of an `async def` returning None: falling off the end and `return` are the same *)
Definition run_fn (a : stm unit unit) : M unit := bind a (fun _ => ret tt).
(* the body of an `async def` with a declared result: every path ends in `return r` or raises (nothing falls through) *)
Definition run_fn_ret {R} (a : stm R Empty_set) : M R :=
  bind a (fun c => match c with Normal e => match e with end | Return r => ret r end).

(* ------------------------------------------------------------------------------------------ 2. primitives *)
(* message: Union[bytes, AckableMessage] - all the pipeline looks at is which of the two it is *)
Record pmessage := mkpm { pm_ackable : bool }.
Definition message_of (c : pcfg) : pmessage := mkpm (c_ackable c).
Definition ackable_data (m : pmessage) : unit := tt.              (* message.data  (payload: opaque) *)
Definition raw_data (m : pmessage) : unit := tt.                  (* message       (payload: opaque) *)

(* self.broker.formatter.loads(message=data) ; taskiq_msg.parse_labels()
   the pair raises iff the configuration says the payload is malformed (the model does not say which of the two
   raises: the failure is placed at `loads`); parse_labels turns the loaded message into the parsed one *)
Inductive loaded := Loaded (m : msg).
Definition formatter_loads (c : pcfg) (data : unit) : M loaded :=
  match c_kind c with
  | KMalformed => emit FParseFail ;;; raise XBackend
  | _ => ret (Loaded (c_msg c))
  end.
Definition parse_labels (l : loaded) : M msg := match l with Loaded m => ret m end.

(* self.broker.find_task(taskiq_msg.task_name) : None iff the configuration says the task is unknown *)
Definition task_name (m : msg) : unit := tt.
Definition find_task (c : pcfg) (name : unit) : M (option unit) :=
  match c_kind c with
  | KUnknown => emit FUnknownTask ;;; ret None
  | _ => ret (Some tt)
  end.
Definition original_func (t : unit) : unit := tt.                 (* task.original_func *)

(* self.broker.middlewares: every middleware object is (its index in the stack, its hook slots) *)
Fixpoint indexed_from (i : nat) (st : list mw) : list (nat * mw) :=
  match st with
  | [] => []
  | w :: st' => (i, w) :: indexed_from (S i) st'
  end.
Definition middlewares (c : pcfg) : list (nat * mw) := indexed_from 0 (c_stack c).

(*  middleware.__class__.HOOK != TaskiqMiddleware.HOOK : the hook slot of the class is not the base class's *)
Inductive base_hook := TaskiqMiddleware_hook.
Definition differs_from_base {F : Type} (impl : option F) (_ : base_hook) : bool :=
  match impl with Some _ => true | None => false end.
Definition class_pre_execute (w : nat * mw) := h_pre_exec (snd w).
Definition class_post_execute (w : nat * mw) := h_post_exec (snd w).
Definition class_post_save (w : nat * mw) := h_post_save (snd w).

(*  await maybe_awaitable(middleware.HOOK(...)) : an overriding hook is observed entering (with the middleware's
    index), then returns its result or raises; the base class's hooks do nothing (pre_execute returns its argument).
    post_execute / post_save receive the mutable TaskiqResult: the value is the object's new content *)
Definition call_pre_execute (w : nat * mw) (m : msg) : M msg :=
  match h_pre_exec (snd w) with
  | Some f => emit (FHookM HPreExec (fst w) m) ;;; match f m with Some m' => ret m' | None => raise XHook end
  | None => ret m
  end.
Definition call_res_hook (k : hookk) (slot : option (res -> option res)) (i : nat) (m : msg) (r : res) : M res :=
  match slot with
  | Some f => emit (FHookR k i m r None) ;;; match f r with Some r' => ret r' | None => raise XHook end
  | None => ret r
  end.
Definition call_post_execute (w : nat * mw) (m : msg) (r : res) : M res :=
  call_res_hook HPostExec (h_post_exec (snd w)) (fst w) m r.
Definition call_post_save (w : nat * mw) (m : msg) (r : res) : M res :=
  call_res_hook HPostSave (h_post_save (snd w)) (fst w) m r.

(*  await maybe_awaitable(message.ack())   (translated only where `message` is known to be an AckableMessage) *)
Definition message_ack (m : pmessage) : M unit := emit FAck.

(*  await self.run_task(target=task.original_func, message=taskiq_msg) : Pipeline.run_task, the hand-written model
    of Receiver.run_task, is a primitive here (run_task itself is not translated) *)
Definition self_run_task (c : pcfg) (target : unit) (m : msg) : M res := run_task c m.

(*  isinstance(result.error, NoResultError); a positive outcome is marked by the ghost event FSaveSkip *)
Definition exc_is_noresult (e : option nat) : bool :=
  match e with Some x => Nat.eqb x E_NORESULT | None => false end.
Definition mark_noresult : M unit := emit FSaveSkip.

(*  await self.broker.result_backend.set_result(task_id, result) *)
Definition set_result (c : pcfg) (id : nat) (r : res) : M unit :=
  emit (FSaveBegin id r) ;;;
  if c_save_ok c then emit FSaveOk else (emit FSaveErr ;;; raise XBackend).
