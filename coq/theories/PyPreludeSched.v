(* Gallina reading of what taskiq.scheduler.scheduler.TaskiqScheduler.on_ready touches, for the source translator
   (harness/pygal_m.py + harness/pygal_on_ready.py).  The statement monad is PyStm.v with E = SchedSource.eff pval
   (EPre / EKick / EPost, the effects of the hand-written model SchedSource.on_ready) and X = sexc below.

   Objects: `source` is what its two callbacks do (ssource); `self` - and self.broker, the same object seen through
   another attribute path - is what a send through that broker does (sched: prepare_label and whether the kick goes
   through); `task` is the ScheduledTask that fired (its schedule id + SchedSource.payload).
   AsyncKicker(...) / .with_labels(...) / .kiq(...) are primitives here: the kicker is read as in SchedSource.v
   (kicker_labels, mk_msg: kicker.py's with_labels / _prepare_message / kiq without middlewares are NOT translated by
   this unit; kiq itself is tied by the unit "kiq").
   Trusted: small, literal, no proofs here. *)
From Coq Require Import List Arith Bool ZArith.
From TQ Require Import SchedSource PyStm.
Import ListNotations.

(* which exception is propagating *)
Inductive sexc :=
| XCancelled        (* ScheduledTaskCancelledError, raised by source.pre_send *)
| XPreOther         (* another exception raised by source.pre_send *)
| XSendError        (* the exception kiq raises when the message cannot be sent *)
| XPostOther.       (* an exception raised by source.post_send *)

Definition SM (pval : Type) (A : Type) : Type := M (eff pval) sexc A.

(* `except ScheduledTaskCancelledError` / `except Exception` (all four are Exceptions) *)
Definition is_ScheduledTaskCancelledError (x : sexc) : bool := match x with XCancelled => true | _ => false end.
Definition is_exception (x : sexc) : bool := true.
Definition try_else {pval R A B} := @try_else_on (eff pval) sexc R A B is_exception.
Definition try_except {pval R A} := @try_except_on (eff pval) sexc R A is_exception.

Record ssource := mksource {
  src_pre : pre_out;            (* source.pre_send(task): returns / raises ScheduledTaskCancelledError / raises another *)
  src_post_ok : bool }.         (* source.post_send(task) returns (false: raises) *)
Record sched (pval : Type) := mksched {
  sch_prepare : lval -> pval;   (* taskiq.labels.prepare_label, applied by the kicker to every label value *)
  sch_kick_ok : bool }.         (* the send through self.broker goes through (false: kiq raises) *)
Arguments mksched {pval}. Arguments sch_prepare {pval}. Arguments sch_kick_ok {pval}.
Record fired := mkfired { f_sid : nat; f_payload : payload }.     (* the ScheduledTask *)

(*  task.schedule_id / .task_name / .labels / .args / .kwargs *)
Definition schedule_id (t : fired) : nat := f_sid t.
Definition task_name (t : fired) : nat := p_task (f_payload t).
Definition task_labels (t : fired) : labels := p_labels (f_payload t).
Definition task_args (t : fired) : nat := p_args (f_payload t).
Definition task_kwargs (t : fired) : nat := p_kwargs (f_payload t).

(*  await maybe_awaitable(source.pre_send(task)) / (source.post_send(task)) : observed entering with the schedule id *)
Definition source_pre_send {pval} (s : ssource) (t : fired) : SM pval unit :=
  emit (EPre (f_sid t)) ;;;
  match src_pre s with PreOk => ret tt | PreCancel => raise XCancelled | PreRaise => raise XPreOther end.
Definition source_post_send {pval} (s : ssource) (t : fired) : SM pval unit :=
  emit (EPost (f_sid t)) ;;; if src_post_ok s then ret tt else raise XPostOther.

(*  AsyncKicker(task_name, broker, labels)   and   kicker.with_labels(schedule_id=sid):
    self.labels = {**self.labels, **labels} - the new keys are merged over the old dict *)
Record kicker (pval : Type) := mkkicker { kk_name : nat; kk_broker : sched pval; kk_labels : labels }.
Arguments mkkicker {pval}. Arguments kk_name {pval}. Arguments kk_broker {pval}. Arguments kk_labels {pval}.
Definition AsyncKicker {pval} (name : nat) (broker : sched pval) (l : labels) : kicker pval := mkkicker name broker l.
Definition label_schedule_id (sid : nat) : nat * lval := (K_SCHEDULE_ID, LSid sid).
Definition with_labels {pval} (k : kicker pval) (new : labels) : kicker pval :=
  mkkicker (kk_name k) (kk_broker k) (update_all (kk_labels k) new).

(*  await kicker.kiq( *args, **kwargs ) : the message _prepare_message builds (every label value through
    prepare_label) is observed at the broker; raises iff the send does not go through *)
Definition kicker_kiq {pval} (k : kicker pval) (args kwargs : nat) : SM pval unit :=
  emit (EKick (mkMsg (kk_name k) args kwargs
                     (map (fun kv => (fst kv, sch_prepare (kk_broker k) (snd kv))) (kk_labels k)))) ;;;
  if sch_kick_ok (kk_broker k) then ret tt else raise XSendError.
