(* C08 - model of the path an argument takes from `task.kiq( *args, **kwargs)` to the task function body.

   Code modelled (statement by statement for the decision logic):

   taskiq/receiver/params_parser.py  parse_params              -> parse_loop / parse_params
   taskiq/receiver/receiver.py       run_task, lines 213-265    -> run_task
        signature = None
        if self.validate_params: signature = self.task_signatures.get(name)
        parse_params(signature, self.task_hints.get(name) or {}, message)
        kwargs = {}; if dependency_graph: kwargs = await dep_ctx.resolve_kwargs()
        kwargs.update(message.kwargs)
        target( *message.args, **kwargs)          (directly, or through _run_sync in the executor)
   CPython's own argument binding of `target( *args, **kwargs)`  -> bind_params / pycall
   taskiq/kicker.py                  _prepare_arg, _prepare_message -> prepare_arg / prepare_message
   taskiq/formatters/*.py            dumps / loads              -> fmt_dumps / fmt_loads

   External behaviour enters as Section variables only:
     conv      = taskiq.compat.parse_obj_as (pydantic TypeAdapter(annot).validate_python), three outcomes:
                 a value / an exception that `except (ValueError, RuntimeError)` swallows / any other exception
     is_none   = `value is None`
     is_any    = the annotation is typing.Any
     model_dump, asdict, dumpb, loadb, msg_dump, msg_validate  (pydantic / dataclasses / serializer)
   Values, types and names are abstract; the correspondence run instantiates them with small numbers
   (ids of canonicalised Python values) and a finite table of the REAL parse_obj_as answers.

   No proofs in this file. *)
From Coq Require Import List Bool Arith.
Import ListNotations.

(* ------------------------------------------------------------------ python dict = insertion-ordered
   association list with unique keys (names are numbers)                                              *)
Fixpoint dget {V : Type} (d : list (nat * V)) (k : nat) : option V :=
  match d with
  | [] => None
  | (k', v) :: d' => if k' =? k then Some v else dget d' k
  end.

Definition dmem {V : Type} (d : list (nat * V)) (k : nat) : bool :=
  match dget d k with Some _ => true | None => false end.

(* d[k] = v : replaces in place, appends a new key at the end *)
Fixpoint dset {V : Type} (d : list (nat * V)) (k : nat) (v : V) : list (nat * V) :=
  match d with
  | [] => [(k, v)]
  | (k', v') :: d' => if k' =? k then (k', v) :: d' else (k', v') :: dset d' k v
  end.

(* d.update(e) *)
Definition dupdate {V : Type} (d e : list (nat * V)) : list (nat * V) :=
  fold_left (fun acc kv => dset acc (fst kv) (snd kv)) e d.

(* l[i] = v for an index that exists (no-op otherwise; the model only uses it under nth_error l i = Some _) *)
Fixpoint set_nth {V : Type} (l : list V) (i : nat) (v : V) : list V :=
  match l, i with
  | [], _ => []
  | _ :: t, O => v :: t
  | h :: t, S i' => h :: set_nth t i' v
  end.

(* ------------------------------------------------------------------ signatures *)
Inductive kind := KPos      (* positional-or-keyword:  def f(a) *)
                | KVarPos   (* var-positional:         def f( *a) *)
                | KKw       (* keyword-only:           def f( *, a) *)
                | KVarKw.   (* var-keyword:            def f( **a) *)

(* pdefault: the parameter has a default value (a TaskiqDepends() default is a default);
   pdep = Some v: the parameter is a dependency (TaskiqDepends default or Annotated[.., TaskiqDepends]) that the
   dependency context resolves to v and passes as a keyword argument *)
Record param (V : Type) := mkParam { pname : nat; pkind : kind; pdefault : bool; pdep : option V }.
Arguments mkParam {V}.
Arguments pname {V}.
Arguments pkind {V}.
Arguments pdefault {V}.
Arguments pdep {V}.

(* parse_obj_as(annot, value) *)
Inductive cres (V : Type) := CVal (w : V)   (* returned w *)
                           | CSwallowed      (* raised ValueError / RuntimeError (pydantic ValidationError, PydanticUserError) *)
                           | CRaise.         (* raised anything else: propagates out of parse_params and run_task *)
Arguments CVal {V}.
Arguments CSwallowed {V}.
Arguments CRaise {V}.

Inductive pres (V : Type) := POk (args : list V) (kwargs : list (nat * V)) | PRaise.
Arguments POk {V}.
Arguments PRaise {V}.

(* how the function body sees one parameter *)
Inductive rcv (V : Type) :=
  | RPos (v : V)                       (* filled from a positional argument *)
  | RKw (v : V)                        (* filled from a keyword argument *)
  | RDefault                           (* not passed: the parameter's own default *)
  | RStar (vs : list V)                (* *args tuple *)
  | RStarStar (kv : list (nat * V)).   (* **kwargs dict *)
Arguments RPos {V}.
Arguments RKw {V}.
Arguments RDefault {V}.
Arguments RStar {V}.
Arguments RStarStar {V}.

Inductive outcome (V : Type) :=
  | Invoked (b : list (rcv V))   (* the function body ran; b is aligned with the signature *)
  | CallTypeError                (* CPython refused the call (TypeError before the body) *)
  | ParseRaised.                 (* parse_obj_as raised something parse_params does not catch *)
Arguments Invoked {V}.
Arguments CallTypeError {V}.
Arguments ParseRaised {V}.

Section Model.
  Variable value : Type.
  Variable is_none : value -> bool.
  Variable ty : Type.
  Variable is_any : ty -> bool.
  Variable conv : ty -> value -> cres value.

  Definition sig := list (param value).
  Definition hints := list (nat * ty).      (* get_type_hints(f): only annotated names (and "return") are keys *)
  Definition kwargs := list (nat * value).

  (* ---------------------------------------------------------------- parse_params (current /repo)
     `argnum` below is the value AFTER the `argnum += 1` at the top of the iteration, i.e. the index of the
     parameter in signature.parameters (python starts at -1 and increments first).
     `argnum < len(message.args)` is tested as `nth_error args argnum = Some _` (equivalent). *)
  Fixpoint parse_loop (ps : list (param value)) (argnum : nat) (h : hints) (args : list value) (kw : kwargs)
    : pres value :=
    match ps with
    | [] => POk args kw
    | p :: ps' =>
      match dget h (pname p) with
      | None => parse_loop ps' (S argnum) h args kw                       (* annot is None: continue *)
      | Some annot =>
        match nth_error args argnum with
        | Some v =>                                                        (* argnum < len(message.args) *)
          if is_none v then parse_loop ps' (S argnum) h args kw
          else match conv annot v with
               | CVal w => parse_loop ps' (S argnum) h (set_nth args argnum w) kw
               | CSwallowed => parse_loop ps' (S argnum) h args kw
               | CRaise => PRaise
               end
        | None =>
          match dget kw (pname p) with                                     (* message.kwargs.get(param_name) *)
          | None => parse_loop ps' (S argnum) h args kw
          | Some v =>
            if is_none v then parse_loop ps' (S argnum) h args kw
            else match conv annot v with
                 | CVal w => parse_loop ps' (S argnum) h args (dset kw (pname p) w)
                 | CSwallowed => parse_loop ps' (S argnum) h args kw
                 | CRaise => PRaise
                 end
          end
        end
      end
    end.

  Definition parse_params (sg : option sig) (h : hints) (args : list value) (kw : kwargs) : pres value :=
    match sg with
    | None => POk args kw                                                  (* if signature is None: return *)
    | Some s => parse_loop s 0 h args kw
    end.

  (* ---------------------------------------------------------------- CPython: target( *args, **kw) *)
  Definition named (sg : sig) (n : nat) : bool :=
    existsb (fun p => match pkind p with KPos | KKw => pname p =? n | _ => false end) sg.
  Definition has_varkw (sg : sig) : bool :=
    existsb (fun p => match pkind p with KVarKw => true | _ => false end) sg.

  Definition fill_kw (p : param value) (kw : kwargs) : option (rcv value) :=
    match dget kw (pname p) with
    | Some v => Some (RKw v)
    | None => if pdefault p then Some RDefault else None               (* missing required argument *)
    end.

  Definition ocons {A : Type} (x : A) (o : option (list A)) : option (list A) :=
    match o with Some l => Some (x :: l) | None => None end.

  Fixpoint bind_params (whole : sig) (ps : list (param value)) (args : list value) (kw : kwargs)
    : option (list (rcv value)) :=
    match ps with
    | [] => match args with [] => Some [] | _ :: _ => None end          (* too many positional arguments *)
    | p :: ps' =>
      match pkind p with
      | KPos =>
        match args with
        | v :: args' => if dmem kw (pname p) then None                   (* multiple values for argument *)
                        else ocons (RPos v) (bind_params whole ps' args' kw)
        | [] => match fill_kw p kw with
                | None => None
                | Some r => ocons r (bind_params whole ps' [] kw)
                end
        end
      | KVarPos => ocons (RStar args) (bind_params whole ps' [] kw)
      | KKw => match fill_kw p kw with
               | None => None
               | Some r => ocons r (bind_params whole ps' args kw)
               end
      | KVarKw => ocons (RStarStar (filter (fun e => negb (named whole (fst e))) kw))
                        (bind_params whole ps' args kw)
      end
    end.

  Definition pycall (sg : sig) (args : list value) (kw : kwargs) : option (list (rcv value)) :=
    if forallb (fun e => named sg (fst e)) kw || has_varkw sg       (* else: unexpected keyword argument *)
    then bind_params sg sg args kw else None.

  (* ---------------------------------------------------------------- Receiver.run_task *)
  Definition dep_kwargs (sg : sig) : kwargs :=
    flat_map (fun p => match pdep p with Some v => [(pname p, v)] | None => [] end) sg.

  Definition run_task (validate : bool) (sg : sig) (h : hints) (args : list value) (kw : kwargs) : outcome value :=
    match parse_params (if validate then Some sg else None) h args kw with
    | PRaise => ParseRaised
    | POk args' kw' =>
      match pycall sg args' (dupdate (dep_kwargs sg) kw') with
      | Some b => Invoked b
      | None => CallTypeError
      end
    end.

  (* ---------------------------------------------------------------- the statement
     expect h n v: what parameter n must receive when the caller bound v to it (validate_params on) *)
  Definition expect (h : hints) (n : nat) (v : value) : value :=
    match dget h n with
    | None => v                                                          (* un-annotated *)
    | Some t => if is_any t || is_none v then v                          (* Any, or None sent *)
                else match conv t v with CVal w => w | _ => v end        (* converted when convertible *)
    end.

  (* a keyword-filled parameter whose name is not in the message's kwargs got a resolved dependency *)
  Definition expected_rcv (h : hints) (kw : kwargs) (p : param value) (r : rcv value) : rcv value :=
    match r with
    | RPos v => RPos (expect h (pname p) v)
    | RKw v => if dmem kw (pname p) then RKw (expect h (pname p) v) else RKw v
    | other => other
    end.

  Definition map2 {A B C : Type} (f : A -> B -> C) (la : list A) (lb : list B) : list C :=
    map (fun ab => f (fst ab) (snd ab)) (combine la lb).

  (* scope of the property's quantifier: positional-or-keyword parameters, then keyword-only parameters
     (any of them annotated or not, defaulted or not, dependency or not); no *args / **kwargs *)
  Fixpoint all_kw (ps : list (param value)) : bool :=
    match ps with [] => true | p :: ps' => match pkind p with KKw => all_kw ps' | _ => false end end.
  Fixpoint pos_then_kw (ps : list (param value)) : bool :=
    match ps with
    | [] => true
    | p :: ps' => match pkind p with KPos => pos_then_kw ps' | KKw => all_kw ps' | _ => false end
    end.
  Fixpoint nodupb (l : list nat) : bool :=
    match l with [] => true | x :: t => negb (existsb (Nat.eqb x) t) && nodupb t end.
  Definition in_scope (sg : sig) (kw : kwargs) : bool :=
    pos_then_kw sg && nodupb (map pname sg) && nodupb (map fst kw).

  (* every (annotation, sent value) pair of the call on which parse_obj_as raises a non-swallowed exception *)
  Definition conv_raises (h : hints) (vals : list value) : bool :=
    existsb (fun e => existsb (fun v => match conv (snd e) v with CRaise => true | _ => false end) vals) h.

  (* ---------------------------------------------------------------- observations of the implementation *)
  Inductive orcv := OVal (v : value) | ODefault | OStar (vs : list value) | OStarStar (kv : list (nat * value)).
  Inductive obs := OInvoked (b : list orcv) | OTypeError | ORaised.

  Definition erase_rcv (r : rcv value) : orcv :=
    match r with
    | RPos v | RKw v => OVal v
    | RDefault => ODefault
    | RStar vs => OStar vs
    | RStarStar kv => OStarStar kv
    end.
  Definition erase (o : outcome value) : obs :=
    match o with
    | Invoked b => OInvoked (map erase_rcv b)
    | CallTypeError => OTypeError
    | ParseRaised => ORaised
    end.

  Variable veqb : value -> value -> bool.

  Fixpoint list_eqb {A : Type} (e : A -> A -> bool) (l1 l2 : list A) : bool :=
    match l1, l2 with
    | [], [] => true
    | x :: t1, y :: t2 => e x y && list_eqb e t1 t2
    | _, _ => false
    end.
  Definition kv_eqb (a b : nat * value) : bool := (fst a =? fst b) && veqb (snd a) (snd b).
  (* **kwargs is a dict: compared as a set of items (both sides have unique keys) *)
  Definition dict_eqb (d1 d2 : kwargs) : bool :=
    (length d1 =? length d2) && forallb (fun e => existsb (kv_eqb e) d2) d1.
  Definition orcv_eqb (a b : orcv) : bool :=
    match a, b with
    | OVal x, OVal y => veqb x y
    | ODefault, ODefault => true
    | OStar x, OStar y => list_eqb veqb x y
    | OStarStar x, OStarStar y => dict_eqb x y
    | _, _ => false
    end.
  Definition obs_eqb (a b : obs) : bool :=
    match a, b with
    | OInvoked x, OInvoked y => list_eqb orcv_eqb x y
    | OTypeError, OTypeError => true
    | ORaised, ORaised => true
    | _, _ => false
    end.

  (* Boolean form of the statement, evaluated on every implementation observation `o`:
     in scope, CPython accepts the call as sent, no conversion escapes with a foreign exception
       => the body ran and parameter p received exactly expected(p); with validate_params off: what was sent. *)
  Definition C08_check (validate : bool) (sg : sig) (h : hints) (args : list value) (kw : kwargs) (o : obs) : bool :=
    if negb (in_scope sg kw) then true else
    match pycall sg args (dupdate (dep_kwargs sg) kw) with
    | None => true
    | Some b =>
      if validate then
        if conv_raises h (args ++ map snd kw) then true
        else obs_eqb o (OInvoked (map erase_rcv (map2 (expected_rcv h kw) sg b)))
      else obs_eqb o (OInvoked (map erase_rcv b))
    end.
End Model.

Arguments OVal {value}.
Arguments ODefault {value}.
Arguments OStar {value}.
Arguments OStarStar {value}.
Arguments OInvoked {value}.
Arguments OTypeError {value}.
Arguments ORaised {value}.

(* ------------------------------------------------------------------ kicker._prepare_arg / _prepare_message *)
Section Prepare.
  Variables value model dcinst : Type.
  Variable model_dump : model -> value.     (* taskiq.compat.model_dump = instance.model_dump(mode="json") *)
  Variable asdict : dcinst -> value.        (* dataclasses.asdict *)

  Inductive pyarg :=
    | PModel (m : model)          (* isinstance(arg, BaseModel) *)
    | PDataclass (d : dcinst)     (* is_dataclass(arg), an instance *)
    | PDataclassType              (* is_dataclass(arg) and isinstance(arg, type) *)
    | POther (v : value).         (* anything else *)

  (* None = raise ValueError("Cannot serialize types...") *)
  Definition prepare_arg (a : pyarg) : option value :=
    match a with
    | PModel m => Some (model_dump m)      (* the dict is not a dataclass: second `if` not taken *)
    | PDataclass d => Some (asdict d)
    | PDataclassType => None
    | POther v => Some v
    end.

  (* for arg in args: formatted_args.append(self._prepare_arg(arg)) *)
  Fixpoint prepare_args (l : list pyarg) : option (list value) :=
    match l with
    | [] => Some []
    | a :: t => match prepare_arg a with
                | None => None
                | Some v => match prepare_args t with None => None | Some r => Some (v :: r) end
                end
    end.
  (* for name, val in kwargs.items(): formatted_kwargs[name] = self._prepare_arg(val)
     (kwargs is a dict: unique keys, so assignment appends in iteration order) *)
  Fixpoint prepare_kwargs (l : list (nat * pyarg)) : option (list (nat * value)) :=
    match l with
    | [] => Some []
    | (n, a) :: t => match prepare_arg a with
                     | None => None
                     | Some v => match prepare_kwargs t with None => None | Some r => Some ((n, v) :: r) end
                     end
    end.
  Definition prepare_message (args : list pyarg) (kw : list (nat * pyarg))
    : option (list value * list (nat * value)) :=
    match prepare_args args with
    | None => None
    | Some a => match prepare_kwargs kw with None => None | Some k => Some (a, k) end
    end.

  (* the dict form the statement speaks about *)
  Definition dict_form (a : pyarg) : option value :=
    match a with
    | PModel m => Some (model_dump m)
    | PDataclass d => Some (asdict d)
    | PDataclassType => None
    | POther v => Some v
    end.
  Definition is_type (a : pyarg) : bool := match a with PDataclassType => true | _ => false end.
End Prepare.
Arguments PModel {value model dcinst}.
Arguments PDataclass {value model dcinst}.
Arguments PDataclassType {value model dcinst}.
Arguments POther {value model dcinst}.

(* ------------------------------------------------------------------ formatters
   ProxyFormatter: dumps m = serializer.dumpb(model_dump(m));        loads b = model_validate(TaskiqMessage, serializer.loadb(b))
   JSONFormatter:  dumps m = model_dump_json(m).encode();            loads b = model_validate_json(TaskiqMessage, b)
   Both have the shape validate . decode . encode . dump; for JSONFormatter the (encode, decode) pair is pydantic's
   own JSON writer / parser.  None = the step raised. *)
Section Formatter.
  Variables msg tree bytes : Type.
  Variable msg_dump : msg -> tree.                   (* pydantic: TaskiqMessage -> python/JSON tree *)
  Variable msg_validate : tree -> option msg.        (* pydantic: tree -> TaskiqMessage *)
  Variable dumpb : tree -> option bytes.             (* serializer.dumpb (may raise) *)
  Variable loadb : bytes -> option tree.             (* serializer.loadb (may raise) *)

  Definition fmt_dumps (m : msg) : option bytes := dumpb (msg_dump m).
  Definition fmt_loads (b : bytes) : option msg :=
    match loadb b with None => None | Some t => msg_validate t end.
End Formatter.

(* ------------------------------------------------------------------ instance evaluated by the correspondence run
   values, types, names = small numbers assigned by the harness per case; value 0 is None, type 0 is typing.Any;
   parse_obj_as = a finite table filled with the real function's answers (a missing entry is a hole in the
   table: CRaise makes the case fail closed). *)
Definition nis_none (v : nat) : bool := v =? 0.
Definition nis_any (t : nat) : bool := t =? 0.
Definition ctable := list (nat * nat * cres nat).
Definition tconv (tb : ctable) (t v : nat) : cres nat :=
  match find (fun e => (fst (fst e) =? t) && (snd (fst e) =? v)) tb with
  | Some e => snd e
  | None => CRaise
  end.
Definition run_task_n (tb : ctable) (validate : bool) sg h args kw : obs nat :=
  erase nat (run_task nat nis_none nat (tconv tb) validate sg h args kw).
Definition C08_check_n (tb : ctable) (validate : bool) sg h args kw (o : obs nat) : bool :=
  C08_check nat nis_none nat nis_any (tconv tb) Nat.eqb validate sg h args kw o.
Definition obs_eqb_n : obs nat -> obs nat -> bool := obs_eqb nat Nat.eqb.
(* which branches of parse_loop a case exercises: [positional converted; positional unchanged(failed); positional None;
   keyword converted; keyword unchanged; keyword None; keyword absent; un-annotated] - counted by the harness *)

(* kicker._prepare_message evaluated by the correspondence run: a model / dataclass instance is represented by the
   number of its dict form (model_dump and asdict are then the identity on numbers) *)
Definition prepare_message_n (args : list (pyarg nat nat nat)) (kw : list (nat * pyarg nat nat nat))
  : option (list nat * list (nat * nat)) :=
  prepare_message nat nat nat (fun m => m) (fun d => d) args kw.
Definition prep_eqb (a b : option (list nat * list (nat * nat))) : bool :=
  match a, b with
  | None, None => true
  | Some (a1, k1), Some (a2, k2) =>
    list_eqb Nat.eqb a1 a2 && list_eqb (fun x y => (fst x =? fst y) && (snd x =? snd y)) k1 k2
  | _, _ => false
  end.
