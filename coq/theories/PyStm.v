(* The statement monad of the monadic source translator (harness/pygal_m.py), generic in the type E of observable
   effects and the type X of exceptions: a writer + exception monad M (what Pipeline.v's M is for E = Pipeline.eff,
   X = Pipeline.xkind) with a third way for a statement to end - an executed `return r` - layered on top as the value
   `Return r`.  Same definitions, same names as part 1 of PyPreludePipeline.v (which is tied to Pipeline.v's own M and
   therefore cannot be an instance of this file); used by the units whose hand-written model does not live in
   Pipeline.v (PyPreludeSched.v).  Which exceptions an `except C` clause catches is a predicate handed to try_else_on.
   Trusted: small, literal, no proofs here. *)
From Coq Require Import List.
Import ListNotations.

Inductive outc (X A : Type) := Ok (a : A) | Exc (x : X).
Arguments Ok {X A} a.
Arguments Exc {X A} x.
Definition M (E X A : Type) : Type := (list E * outc X A)%type.
Definition ret {E X A} (a : A) : M E X A := ([], Ok a).
Definition emit {E X} (e : E) : M E X unit := ([e], Ok tt).
Definition raise {E X A} (x : X) : M E X A := ([], Exc x).
Definition bind {E X A B} (a : M E X A) (f : A -> M E X B) : M E X B :=
  match a with
  | (es, Exc x) => (es, Exc x)
  | (es, Ok v) => let (es', o) := f v in (es ++ es', o)
  end.
Notation "x <- a ;; b" := (bind a (fun x => b)) (at level 61, a at next level, right associativity).
Notation "a ;;; b" := (bind a (fun _ => b)) (at level 61, right associativity).

(* how a statement (block) ends when no exception propagates: control falls through to the next statement with the
   variables it (re-)bound, or a `return` was executed, carrying the function's value (R = unit: returns None) *)
Inductive ctl (R A : Type) := Normal (a : A) | Return (r : R).
Arguments Normal {R A} a.
Arguments Return {R A} r.
Definition stm (E X R A : Type) : Type := M E X (ctl R A).

Definition next {E X R A} (a : A) : stm E X R A := ret (Normal a).        (* fall through *)
Definition return_ {E X A} : stm E X unit A := ret (Return tt).           (* return *)
Definition return_v {E X R A} (r : R) : stm E X R A := ret (Return r).    (* return r *)
Definition raise_ {E X R A} (x : X) : stm E X R A := raise x.             (* raise *)
Definition lift {E X R A} (a : M E X A) : stm E X R A := bind a (fun v => ret (Normal v)).   (* a primitive as a statement *)
Definition sbind {E X R A B} (a : stm E X R A) (f : A -> stm E X R B) : stm E X R B :=       (* a ; f *)
  bind a (fun r => match r with Normal v => f v | Return r => ret (Return r) end).
Notation "x <~ a ;; b" := (sbind a (fun x => b)) (at level 61, a at next level, right associativity).

(*  try: a   except C as x: h x   [else: e]      `catches x` = x is an instance of C
    the handler and the else-suite are outside the protected region; a `return` in the try-suite skips `else` *)
Definition try_else_on {E X R A B} (catches : X -> bool) (a : stm E X R A) (h : X -> stm E X R B)
           (e : A -> stm E X R B) : stm E X R B :=
  match a with
  | (es, Exc x) => if catches x then (let (es', o) := h x in (es ++ es', o)) else (es, Exc x)
  | (es, Ok (Normal v)) => let (es', o) := e v in (es ++ es', o)
  | (es, Ok (Return r)) => (es, Ok (Return r))
  end.
Definition try_except_on {E X R A} (catches : X -> bool) (a : stm E X R A) (h : X -> stm E X R A) : stm E X R A :=
  try_else_on catches a h next.

(*  for x in l: body      with the variables the body re-binds as the loop-carried state s *)
Fixpoint for_ {E X R Y S : Type} (l : list Y) (body : Y -> S -> stm E X R S) (s : S) : stm E X R S :=
  match l with
  | [] => next s
  | x :: l' => sbind (body x s) (for_ l' body)
  end.

(* the body of an `async def` returning None: falling off the end and `return` are the same *)
Definition run_fn {E X} (a : stm E X unit unit) : M E X unit := bind a (fun _ => ret tt).
(* the body of an `async def` with a declared result: every path ends in `return r` or raises *)
Definition run_fn_ret {E X R} (a : stm E X R Empty_set) : M E X R :=
  bind a (fun c => match c with Normal e => match e with end | Return r => ret r end).
