(* Model of base64.b64encode / base64.b64decode (standard alphabet, '=' padding) as used by
   taskiq.labels for LabelType.BYTES:

     prepare_label:  base64.b64encode(label_value).decode()
     parse_label:    base64.b64decode(label_value)

   Bytes are Coq's 256-constructor [byte]; the encoded text is a list of code points (N), the
   representation of every wire string in Labels.v.  [b64decode] is the decoder on the
   *canonical shape* (groups of four alphabet characters, '=' padding only in the last group);
   like CPython's non-strict decoder it ignores the unused low bits of a padded group.  On any other
   shape it answers None (CPython either raises binascii.Error or skips characters: outside the
   model, never produced by b64encode).  No proofs here. *)
From Coq Require Import NArith List Bool.
From Coq.Strings Require Import Byte.
Import ListNotations.
Open Scope N_scope.

Definition PAD : N := 61.  (* '=' *)

(* the 64-entry alphabet, as arithmetic on code points: A-Z a-z 0-9 + / *)
Definition enc6 (n : N) : N :=
  if n <? 26 then 65 + n
  else if n <? 52 then 97 + (n - 26)
  else if n <? 62 then 48 + (n - 52)
  else if n =? 62 then 43 else 47.

Definition dec6 (c : N) : option N :=
  if (65 <=? c) && (c <=? 90) then Some (c - 65)
  else if (97 <=? c) && (c <=? 122) then Some (c - 71)
  else if (48 <=? c) && (c <=? 57) then Some (c + 4)
  else if c =? 43 then Some 62
  else if c =? 47 then Some 63
  else None.

(* the same alphabet as the literal table of RFC 4648, used to cross-check enc6 *)
Definition alphabet : list N :=
  [65;66;67;68;69;70;71;72;73;74;75;76;77;78;79;80;81;82;83;84;85;86;87;88;89;90;
   97;98;99;100;101;102;103;104;105;106;107;108;109;110;111;112;113;114;115;116;117;118;119;120;121;122;
   48;49;50;51;52;53;54;55;56;57;43;47].

Definition byte_of_N (n : N) : byte :=
  match Byte.of_N (n mod 256) with Some b => b | None => x00 end.

Definition bN (b : byte) : N := Byte.to_N b.

Fixpoint b64encode (bs : list byte) : list N :=
  match bs with
  | a :: b :: c :: r =>
      let n := bN a * 65536 + bN b * 256 + bN c in
      enc6 (n / 262144) :: enc6 ((n / 4096) mod 64) :: enc6 ((n / 64) mod 64) :: enc6 (n mod 64)
      :: b64encode r
  | [a; b] =>
      let n := bN a * 256 + bN b in
      [enc6 (n / 1024); enc6 ((n / 16) mod 64); enc6 ((n mod 16) * 4); PAD]
  | [a] => [enc6 (bN a / 4); enc6 ((bN a mod 4) * 16); PAD; PAD]
  | [] => []
  end.

Definition grp1 (c1 c2 : N) : option (list byte) :=
  match dec6 c1, dec6 c2 with
  | Some s1, Some s2 => Some [byte_of_N (s1 * 4 + s2 / 16)]
  | _, _ => None
  end.

Definition grp2 (c1 c2 c3 : N) : option (list byte) :=
  match dec6 c1, dec6 c2, dec6 c3 with
  | Some s1, Some s2, Some s3 =>
      let n := s1 * 1024 + s2 * 16 + s3 / 4 in
      Some [byte_of_N (n / 256); byte_of_N (n mod 256)]
  | _, _, _ => None
  end.

Fixpoint b64decode (cs : list N) : option (list byte) :=
  match cs with
  | [] => Some []
  | c1 :: c2 :: c3 :: c4 :: r =>
      if c4 =? PAD then
        match r with
        | [] => if c3 =? PAD then grp1 c1 c2 else grp2 c1 c2 c3
        | _ => None
        end
      else
        match dec6 c1, dec6 c2, dec6 c3, dec6 c4, b64decode r with
        | Some s1, Some s2, Some s3, Some s4, Some rest =>
            let n := s1 * 262144 + s2 * 4096 + s3 * 64 + s4 in
            Some (byte_of_N (n / 65536) :: byte_of_N ((n / 256) mod 256) :: byte_of_N (n mod 256) :: rest)
        | _, _, _, _, _ => None
        end
  | _ => None
  end.

(* helpers for the generated cases files: bytes are printed as N *)
Definition bytes_of_Ns (l : list N) : list byte := map byte_of_N l.
Definition Ns_of_bytes (l : list byte) : list N := map bN l.
