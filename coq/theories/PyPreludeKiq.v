(* Gallina reading of what taskiq.kicker.AsyncKicker.kiq touches, for the source translator (harness/pygal_m.py +
   harness/pygal_kiq.py).  The statement monad is part 1 of PyPreludePipeline.v (Pipeline.v's writer + exception
   monad M, `Return r` carrying the function's value); this file gives every primitive of `kiq` its meaning in terms
   of Pipeline.v's mw / msg / eff / kickres.

   The kicker object `self` (and self.broker, its formatter, its result backend: the same object seen through other
   attribute paths) is the send-side configuration `kcfg`: the broker's middleware stack, the message that
   `self._prepare_message( *args, **kwargs )` builds for this call, and what dumps / kick do with it.
   Trusted like PyPreludePipeline.v: small, literal, no proofs here. *)
From Coq Require Import List Arith Bool ZArith.
From TQ Require Import Base Pipeline PyPreludePipeline.
Import ListNotations.

Record kcfg := mkkcfg {
  k_stack : list mw;            (* self.broker.middlewares *)
  k_msg0 : msg;                 (* the TaskiqMessage that _prepare_message builds from this call's arguments *)
  k_kick : kickres }.           (* what formatter.dumps / broker.kick do: both return, dumps raises, kick raises *)

(*  *args / **kwargs of the call: opaque (only _prepare_message looks at them) *)
Definition call_args := unit.
Definition call_kwargs := unit.

(*  self._prepare_message( *args, **kwargs ) : _prepare_message is NOT translated; its result is the model's input *)
Definition prepare_message (self : kcfg) (args : call_args) (kwargs : call_kwargs) : M msg := ret (k_msg0 self).

(*  self.broker.middlewares: every middleware object is (its index in the stack, its hook slots) *)
Definition kmiddlewares (self : kcfg) : list (nat * mw) := indexed_from 0 (k_stack self).

(*  middleware.__class__.pre_send / .post_send  (compared with TaskiqMiddleware.<the same hook>: differs_from_base) *)
Definition class_pre_send (w : nat * mw) := h_pre_send (snd w).
Definition class_post_send (w : nat * mw) := h_post_send (snd w).

(*  await maybe_awaitable(middleware.pre_send(message)) : an overriding hook is observed entering (with the
    middleware's index), then returns its result or raises; the base class's hook returns its argument, silently *)
Definition call_pre_send (w : nat * mw) (m : msg) : M msg :=
  match h_pre_send (snd w) with
  | Some f => emit (FHookM HPreSend (fst w) m) ;;; match f m with Some m' => ret m' | None => raise XHook end
  | None => ret m
  end.
(*  await maybe_awaitable(middleware.post_send(message)) *)
Definition call_post_send (w : nat * mw) (m : msg) : M unit :=
  match h_post_send (snd w) with
  | Some f => emit (FHookM HPostSend (fst w) m) ;;; if f m then ret tt else raise XHook
  | None => ret tt
  end.

(*  self.broker.formatter.dumps(message) : observed entering with the message; raises iff the configuration says so *)
Inductive broker_message := BrokerMessage (m : msg).
Definition formatter_dumps (self : kcfg) (m : msg) : M broker_message :=
  emit (FDumps m) ;;; match k_kick self with DumpsFail => raise XBackend | _ => ret (BrokerMessage m) end.
(*  await self.broker.kick(<BrokerMessage>) : observed entering with the message the dump was made of *)
Definition broker_kick (self : kcfg) (d : broker_message) : M unit :=
  match d with BrokerMessage m => emit (FKick m) ;;; match k_kick self with KickFail => raise XBackend | _ => ret tt end end.

(*  SendTaskError (a fresh instance; `from exc` only sets __cause__) *)
Definition SendTaskError : xkind := XSend.

(*  AsyncTaskiqTask(task_id=.., result_backend=.., return_type=..) : the task handle, identified by its task id *)
Definition task_id (m : msg) : nat := m_id m.
Definition kresult_backend (self : kcfg) : unit := tt.
Definition kreturn_type (self : kcfg) : unit := tt.
Definition AsyncTaskiqTask (task_id : nat) (result_backend : unit) (return_type : unit) : nat := task_id.
