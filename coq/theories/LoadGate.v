(* Model of the load side of taskiq/serialization.py : exception_to_python (l.332-402; line numbers are those of the
   pinned snapshot b702615, as in the anchors of properties.jsonl) and what it calls
   (create_exception_cls / subclass_exception l.66-96, get_pickled_exception l.237-246,
   _UnpickleableExceptionWrapper.restore l.141-142) and of its two callers in taskiq/result/v2.py
   (TaskiqResult._validate_error, a pydantic "before" validator, reached through model_validate and
   model_validate_json).

     @validate_call                                   -- pydantic: the WHOLE tree is type-checked first (validate)
     def exception_to_python(exc):
         if not exc: return None                                                   -- PNone
         if isinstance(exc, BaseException): return get_pickled_exception(exc)      -- PInst
         exc_module = exc.exc_module ; exc_type = exc.exc_type
         if exc_module is None: cls = create_exception_cls(exc_type, __name__)     -- resolve, SMSer
         else:
             try:
                 cls = sys.modules[exc_module]                                     -- assoc in env: NO import
                 for name in exc_type.split("."): cls = getattr(cls, name)         -- split_dot, walk
             except (KeyError, AttributeError):
                 cls = create_exception_cls(exc_type, taskiq.exceptions.__name__)  -- SMExc
         exc_msg = exc.exc_message
         if not isinstance(cls, type) or not issubclass(cls, BaseException):       -- gate_rejects
             raise SecurityError(...)
         try: exception = cls( *exc_msg)                                            -- pycall
         except Exception: exception = Exception(f"{cls}({exc_msg})")              -- instantiate (fallback)
         if exc.exc_cause:   exception.__cause__   = exception_to_python(exc.exc_cause)     -- recursion, cause first
         if exc.exc_context: exception.__context__ = exception_to_python(exc.exc_context)
         exception.__suppress_context__ = exc.exc_suppress_context
         return exception

   Names are lists of code points (N).  Object identities are N, assigned by the harness.
   No proofs in this file. *)
From Coq Require Import List NArith Bool.
Import ListNotations.
Open Scope N_scope.

(* ------------------------------------------------------------------ names *)
Definition name := list N.

Fixpoint name_eqb (a b : name) : bool :=
  match a, b with
  | [], [] => true
  | x :: a', y :: b' => (x =? y) && name_eqb a' b'
  | _, _ => false
  end.

Fixpoint assoc {A : Type} (n : name) (l : list (name * A)) : option A :=
  match l with
  | [] => None
  | (k, v) :: t => if name_eqb n k then Some v else assoc n t
  end.

(* str.split("."): "" -> [""], "a..b" -> ["a";"";"b"], "a." -> ["a";""] *)
Fixpoint split_dot_acc (s : name) (cur : name) : list name :=
  match s with
  | [] => [rev cur]
  | c :: t => if c =? 46 then rev cur :: split_dot_acc t [] else split_dot_acc t (c :: cur)
  end.
Definition split_dot (s : name) : list name := split_dot_acc s [].

(* CPython type_new: the name must encode to UTF-8 (no surrogate code point) and contain no NUL,
   otherwise type(name, bases, ns) raises UnicodeEncodeError / ValueError (both ValueError subclasses) *)
Definition cp_ok (c : N) : bool := negb (c =? 0) && negb ((55296 <=? c) && (c <=? 57343)).
Definition name_ok (n : name) : bool := forallb cp_ok n.

(* ------------------------------------------------------------------ environment: sys.modules *)
(* how cls( *args) behaves for an exception class *)
Inductive ctor :=
| CtorAny                 (* accepts any argument tuple *)
| CtorArity (n : nat)     (* raises TypeError (an Exception) unless len(args) = n *)
| CtorNever               (* always raises an Exception subclass *)
| CtorRaisesBase          (* raises a BaseException that is not an Exception (KeyboardInterrupt ...) *)
| CtorTable (t : list (nat * list N)).
                          (* a signature with defaults / a constructor that builds its own .args (taskiq's own
                             exception classes): (n, extra) in t = called with n arguments it returns an instance
                             whose .args are the given ones followed by `extra`; any other count raises TypeError *)

Fixpoint assoc_nat {A : Type} (n : nat) (l : list (nat * A)) : option A :=
  match l with
  | [] => None
  | (k, v) :: t => if Nat.eqb n k then Some v else assoc_nat n t
  end.

Inductive kind :=
| KExc (c : ctor)         (* a class, subclass of BaseException *)
| KClass                  (* a class, not a subclass of BaseException *)
| KFunc                   (* Python function / staticmethod target / bound method *)
| KBuiltin                (* builtin function *)
| KInst (callable : bool) (* any other instance (of an exception class or not) *)
| KModule.

Inductive obj := Obj (id : N) (k : kind) (attrs : list (name * obj)).
Definition oid (o : obj) : N := let 'Obj i _ _ := o in i.
Definition okind (o : obj) : kind := let 'Obj _ k _ := o in k.
Definition oattrs (o : obj) : list (name * obj) := let 'Obj _ _ a := o in a.

Definition env := list (name * obj).    (* key = the full module name, dots included: one dict lookup *)

(* for name in path: cls = getattr(cls, name) -- None = AttributeError *)
Fixpoint walk (o : obj) (path : list name) : option obj :=
  match path with
  | [] => Some o
  | s :: t => match assoc s (oattrs o) with Some o' => walk o' t | None => None end
  end.

(* ------------------------------------------------------------------ payloads *)
Inductive inst :=
| IPlain (id : N)                                  (* an exception instance (any class) *)
| IWrapper (nm md : name) (args : list N).         (* a _UnpickleableExceptionWrapper instance *)

(* one field of the stored mapping: present with a value pydantic accepts for its annotation, or not *)
Inductive fld (A : Type) := FOk (a : A) | FBad.
Arguments FOk {A} a.
Arguments FBad {A}.

(* what is handed to the entry point *)
Inductive raw :=
| RNone
| RJunk                                            (* not None, not an exception, not a mapping *)
| RInst (i : inst)
| RDict (ty : fld name) (md : fld (option name)) (args : fld (list N)) (sup : fld bool) (cause ctx : raw).

(* the ExceptionRepr tree after pydantic validation *)
Inductive payload :=
| PNone
| PInst (i : inst)
| PRepr (ty : name) (md : option name) (args : list N) (sup : bool) (cause ctx : payload).

(* Optional[Union[BaseException, ExceptionRepr]], validated eagerly over the whole tree *)
Fixpoint validate (r : raw) : option payload :=
  match r with
  | RNone => Some PNone
  | RJunk => None
  | RInst i => Some (PInst i)
  | RDict (FOk ty) (FOk md) (FOk args) (FOk sup) cause ctx =>
      match validate cause, validate ctx with
      | Some c, Some x => Some (PRepr ty md args sup c x)
      | _, _ => None
      end
  | RDict _ _ _ _ _ _ => None
  end.

(* ------------------------------------------------------------------ results and effects *)
Inductive smod := SMSer | SMExc | SMNamed (m : name).   (* __module__ given to a synthetic class *)

Inductive cref := CEnv (id : N) | CSynth (nm : name) (md : smod) | CFallback.

Inductive exn :=
| XNew (c : cref) (args : list N) (cause ctx : option exn) (sup : bool)   (* created by this load *)
| XOld (id : N).                                                          (* the stored instance itself *)

Inductive target := TEnv (o : obj) | TSynth (nm : name) (md : smod) | TFallback.

Inductive effect :=
| Instantiate (t : target)
| Call (t : target)
| Import (m : name)
| Synthesize (nm : name) (md : smod).

(* isinstance(cls, type) / issubclass(cls, BaseException) *)
Definition is_type (t : target) : bool :=
  match t with
  | TEnv o => match okind o with KExc _ | KClass => true | _ => false end
  | TSynth _ _ | TFallback => true
  end.
Definition is_exc_subclass (t : target) : bool :=
  match t with
  | TEnv o => match okind o with KExc _ => true | _ => false end
  | TSynth _ _ | TFallback => true       (* type(name, (Exception,), ..) and builtins.Exception *)
  end.
Definition is_exception_class (t : target) : bool := is_type t && is_exc_subclass t.
Definition is_callable (t : target) : bool :=
  match t with
  | TEnv o => match okind o with KExc _ | KClass | KFunc | KBuiltin | KInst true => true | _ => false end
  | _ => true
  end.

(* l.378: `not isinstance(cls, type) or not issubclass(cls, BaseException)` (short-circuit) *)
Definition gate_rejects (t : target) : bool :=
  if negb (is_type t) then true else negb (is_exc_subclass t).

(* Python's call expression `cls( *args)` for ANY object, not only for those the gate lets through *)
Inductive callres :=
| CRInst (c : cref) (args : list N)    (* returned a new exception instance *)
| CRRaiseExc                           (* raised an Exception subclass *)
| CRRaiseBase (id : N)                 (* raised a non-Exception BaseException *)
| CROther.                             (* returned something that is not an exception *)

Definition pycall (t : target) (args : list N) : callres * list effect :=
  match t with
  | TSynth nm md => (CRInst (CSynth nm md) args, [Instantiate t])
  | TFallback => (CRInst CFallback [], [Instantiate t])
  | TEnv o =>
      match okind o with
      | KExc CtorAny => (CRInst (CEnv (oid o)) args, [Instantiate t])
      | KExc (CtorArity n) =>
          if Nat.eqb (length args) n then (CRInst (CEnv (oid o)) args, [Instantiate t])
          else (CRRaiseExc, [Instantiate t])
      | KExc CtorNever => (CRRaiseExc, [Instantiate t])
      | KExc CtorRaisesBase => (CRRaiseBase (oid o), [Instantiate t])
      | KExc (CtorTable tb) =>
          match assoc_nat (length args) tb with
          | Some extra => (CRInst (CEnv (oid o)) (args ++ extra), [Instantiate t])
          | None => (CRRaiseExc, [Instantiate t])
          end
      | KClass => (CROther, [Instantiate t])
      | KFunc | KBuiltin | KInst true => (CROther, [Call t])
      | KInst false | KModule => (CRRaiseExc, [])          (* TypeError: object is not callable *)
      end
  end.

(* l.390-393 *)
Definition instantiate (t : target) (args : list N) : callres * list effect :=
  let '(r, e) := pycall t args in
  match r with
  | CRRaiseExc => (CRInst CFallback [], e ++ [Instantiate TFallback])
  | _ => (r, e)
  end.

(* create_exception_cls(name, module): type(name, (Exception,), {"__module__": module}) *)
Definition synthesize (nm : name) (md : smod) : option (target * list effect) :=
  if name_ok nm then Some (TSynth nm md, [Synthesize nm md]) else None.

(* l.348-364; None = the ValueError of type() escaped *)
Definition resolve (e : env) (md : option name) (ty : name) : option (target * list effect) :=
  match md with
  | None => synthesize ty SMSer
  | Some m =>
      match assoc m e with
      | None => synthesize ty SMExc                                  (* KeyError *)
      | Some o => match walk o (split_dot ty) with
                  | None => synthesize ty SMExc                      (* AttributeError *)
                  | Some o' => Some (TEnv o', [])
                  end
      end
  end.

Inductive cres :=
| COk (x : option exn)
| CSec                     (* SecurityError *)
| CBadName                 (* ValueError raised by type() for the synthetic class name *)
| CProp (id : N)           (* BaseException raised by the constructor of exception class id *)
| CWeird.                  (* cls( *args) returned a non-exception: unreachable behind the gate (C20_outcome) *)

Definition restore (i : inst) : cres * list effect :=
  match i with
  | IPlain id => (COk (Some (XOld id)), [])
  | IWrapper nm md args =>
      match synthesize nm (SMNamed md) with
      | None => (CBadName, [])
      | Some (t, e0) => (COk (Some (XNew (CSynth nm (SMNamed md)) args None None false)), e0 ++ [Instantiate t])
      end
  end.

Fixpoint conv (e : env) (p : payload) : cres * list effect :=
  match p with
  | PNone => (COk None, [])
  | PInst i => restore i
  | PRepr ty md args sup cause ctx =>
      match resolve e md ty with
      | None => (CBadName, [])
      | Some (t, e0) =>
          if gate_rejects t then (CSec, e0)
          else
            let '(r, e1) := instantiate t args in
            match r with
            | CRRaiseExc => (CWeird, e0 ++ e1)         (* cannot happen: instantiate never returns it *)
            | CRRaiseBase id => (CProp id, e0 ++ e1)
            | CROther => (CWeird, e0 ++ e1)
            | CRInst c args' =>
                let '(rc, ec) := conv e cause in
                match rc with
                | COk xc =>
                    let '(rx, ex) := conv e ctx in
                    match rx with
                    | COk xx => (COk (Some (XNew c args' xc xx sup)), e0 ++ e1 ++ ec ++ ex)
                    | f => (f, e0 ++ e1 ++ ec ++ ex)
                    end
                | f => (f, e0 ++ e1 ++ ec)
                end
            end
      end
  end.

(* ------------------------------------------------------------------ entry points *)
Inductive entry := EDirect | EValidate | EJson.
  (* exception_to_python(p) | TaskiqResult.model_validate({.. "error": p}) | TaskiqResult.model_validate_json(text) *)

Inductive result :=
| ROk (x : option exn)
| RSecurity
| RValidation
| RValueError
| RPropagated (id : N)
| RWeird.

(* a ValueError raised inside a pydantic "before" validator is reported as a ValidationError *)
Definition load (en : entry) (e : env) (r : raw) : result * list effect :=
  match validate r with
  | None => (RValidation, [])
  | Some p =>
      let '(c, eff) := conv e p in
      (match c with
       | COk x => ROk x
       | CSec => RSecurity
       | CBadName => match en with EDirect => RValueError | _ => RValidation end
       | CProp id => RPropagated id
       | CWeird => RWeird
       end, eff)
  end.

(* ------------------------------------------------------------------ the statement, on effects *)
Definition effect_ok (f : effect) : bool :=
  match f with
  | Instantiate t => is_exception_class t
  | Synthesize _ _ => true
  | Call _ => false
  | Import _ => false
  end.

(* positions in a tree of cause (false) / context (true) links *)
Definition path := list bool.

Fixpoint sub_at (p : payload) (pa : path) {struct pa} : option payload :=
  match pa with
  | [] => Some p
  | d :: t => match p with
              | PRepr _ _ _ _ cause ctx => sub_at (if d then ctx else cause) t
              | _ => None
              end
  end.

Fixpoint raw_sub_at (r : raw) (pa : path) {struct pa} : option raw :=
  match pa with
  | [] => Some r
  | d :: t => match r with
              | RDict _ _ _ _ cause ctx => raw_sub_at (if d then ctx else cause) t
              | _ => None
              end
  end.

(* the result found at a position of a loaded tree; None = no such position *)
Fixpoint exn_at (x : option exn) (pa : path) {struct pa} : option (option exn) :=
  match pa with
  | [] => Some x
  | d :: t => match x with
              | Some (XNew _ _ cause ctx _) => exn_at (if d then ctx else cause) t
              | _ => None
              end
  end.

Fixpoint all_names_ok (r : raw) : bool :=
  match r with
  | RNone | RJunk => true
  | RInst (IPlain _) => true
  | RInst (IWrapper nm _ _) => name_ok nm
  | RDict ty _ _ _ cause ctx =>
      match ty with FOk n => name_ok n | FBad => true end && all_names_ok cause && all_names_ok ctx
  end.

(* ------------------------------------------------------------------ observations of the implementation *)
(* what the harness can see: trap hooks (ids below `hooked_below`), classes created by type() during
   the load (new entries of Exception.__subclasses__()), new keys of sys.modules *)
Inductive oeffect := OInst (id : N) | OCall (id : N) | OSynth (nm : name) (md : smod) | OImport (m : name).

Definition hooked_below : N := 1000.

Definition observe1 (f : effect) : list oeffect :=
  match f with
  | Instantiate (TEnv o) => if oid o <? hooked_below then [OInst (oid o)] else []
  | Instantiate _ => []
  | Call (TEnv o) => [OCall (oid o)]
  | Call _ => []
  | Import m => [OImport m]
  | Synthesize nm md => [OSynth nm md]
  end.
Definition observe (l : list effect) : list oeffect := flat_map observe1 l.

(* decidable equalities for the comparison inside Coq *)
Fixpoint list_eqb {A : Type} (eqb : A -> A -> bool) (a b : list A) : bool :=
  match a, b with
  | [], [] => true
  | x :: a', y :: b' => eqb x y && list_eqb eqb a' b'
  | _, _ => false
  end.
Definition opt_eqb {A : Type} (eqb : A -> A -> bool) (a b : option A) : bool :=
  match a, b with Some x, Some y => eqb x y | None, None => true | _, _ => false end.
Definition smod_eqb (a b : smod) : bool :=
  match a, b with
  | SMSer, SMSer | SMExc, SMExc => true
  | SMNamed x, SMNamed y => name_eqb x y
  | _, _ => false
  end.
Definition cref_eqb (a b : cref) : bool :=
  match a, b with
  | CEnv x, CEnv y => x =? y
  | CSynth n m, CSynth n' m' => name_eqb n n' && smod_eqb m m'
  | CFallback, CFallback => true
  | _, _ => false
  end.
Fixpoint exn_eqb (a b : exn) : bool :=
  match a, b with
  | XOld x, XOld y => x =? y
  | XNew c ar ca cx s, XNew c' ar' ca' cx' s' =>
      cref_eqb c c' && list_eqb N.eqb ar ar' && Bool.eqb s s'
      && match ca, ca' with Some u, Some v => exn_eqb u v | None, None => true | _, _ => false end
      && match cx, cx' with Some u, Some v => exn_eqb u v | None, None => true | _, _ => false end
  | _, _ => false
  end.
Definition result_eqb (a b : result) : bool :=
  match a, b with
  | ROk x, ROk y => opt_eqb exn_eqb x y
  | RSecurity, RSecurity | RValidation, RValidation | RValueError, RValueError | RWeird, RWeird => true
  | RPropagated x, RPropagated y => x =? y
  | _, _ => false
  end.
Definition oeffect_eqb (a b : oeffect) : bool :=
  match a, b with
  | OInst x, OInst y | OCall x, OCall y => x =? y
  | OSynth n m, OSynth n' m' => name_eqb n n' && smod_eqb m m'
  | OImport x, OImport y => name_eqb x y
  | _, _ => false
  end.

(* every object reachable in an environment (to interpret an observed id) *)
Fixpoint all_objs (o : obj) : list obj :=
  match o with
  | Obj _ _ attrs =>
      o :: (fix go (l : list (name * obj)) : list obj :=
              match l with [] => [] | (_, c) :: t => all_objs c ++ go t end) attrs
  end.
Definition env_objs (e : env) : list obj := flat_map (fun kv => all_objs (snd kv)) e.
Definition id_is_exc_class (e : env) (i : N) : bool :=
  existsb (fun o => (oid o =? i) && is_exception_class (TEnv o)) (env_objs e).
Definition id_is_base_raiser (e : env) (i : N) : bool :=
  existsb (fun o => (oid o =? i) && match okind o with KExc CtorRaisesBase => true | _ => false end) (env_objs e).

(* Boolean form of the statement over one implementation observation *)
Definition C20_check (en : entry) (e : env) (r : raw) (res : result) (obs : list oeffect) : bool :=
  forallb (fun f => match f with
                    | OInst i => id_is_exc_class e i
                    | OSynth _ _ => true
                    | OCall _ | OImport _ => false
                    end) obs
  && match res with
     | ROk None => match r with RNone => true | _ => false end
     | ROk (Some _) | RSecurity | RValidation => true
     | RValueError => match en with EDirect => negb (all_names_ok r) | _ => false end
     | RPropagated i => id_is_base_raiser e i
     | RWeird => false
     end.

(* model = implementation on one case *)
Definition corr_ok (en : entry) (e : env) (r : raw) (res : result) (obs : list oeffect) : bool :=
  let '(mr, me) := load en e r in
  result_eqb mr res && list_eqb oeffect_eqb (observe me) obs.
