(* Model of TaskiqScheduler.on_ready (taskiq/scheduler/scheduler.py), of the part of AsyncKicker it uses
   (taskiq/kicker.py: with_labels, _prepare_message, kiq without middlewares) and of LabelScheduleSource
   (taskiq/schedule_sources/label_based.py: get_schedules, post_send) over AsyncBroker.get_all_tasks.

   Identifiers (task names, label keys, label values, args / kwargs payloads, cron strings, offsets, entry uids)
   are nat ids assigned by the harness; times are Z (the harness maps datetimes that compare equal to equal
   numbers and datetimes that compare unequal to different numbers).  No proofs in this file. *)
From Coq Require Import ZArith List Bool Arith.
Import ListNotations.

(* ------------------------------------------------------------------ label dictionaries *)
(* a label value: an opaque value, the str of a schedule id, or a reference to the live "schedule" list of a task *)
Inductive lval := LVal (v : nat) | LSid (sid : nat) | LSched (task : nat).
Definition labels := list (nat * lval).          (* insertion-ordered dict *)
Definition K_SCHEDULE_ID : nat := 0.             (* the key "schedule_id" *)
Definition K_SCHEDULE : nat := 1.                (* the key "schedule" *)

Definition lval_eqb (a b : lval) : bool :=
  match a, b with
  | LVal x, LVal y => Nat.eqb x y
  | LSid x, LSid y => Nat.eqb x y
  | LSched x, LSched y => Nat.eqb x y
  | _, _ => false
  end.

Fixpoint lookup {V : Type} (k : nat) (d : list (nat * V)) : option V :=
  match d with
  | [] => None
  | (k', v) :: t => if Nat.eqb k' k then Some v else lookup k t
  end.

(* d[k] = v : an existing key keeps its position, a new key is appended *)
Fixpoint upd {V : Type} (d : list (nat * V)) (k : nat) (v : V) : list (nat * V) :=
  match d with
  | [] => [(k, v)]
  | (k', v') :: t => if Nat.eqb k' k then (k', v) :: t else (k', v') :: upd t k v
  end.

(* d.update(u), also dict-unpacking merge of d then u *)
Definition update_all {V : Type} (d u : list (nat * V)) : list (nat * V) :=
  fold_left (fun acc kv => upd acc (fst kv) (snd kv)) u d.

(* ------------------------------------------------------------------ schedules and messages *)
(* ScheduledTask without its id *)
Record payload := mkPayload {
  p_task : nat; p_cron : option nat; p_time : option Z; p_args : nat; p_kwargs : nat;
  p_labels : labels; p_off : option nat }.

Section OnReady.
  Variable pval : Type.
  Variable prepare : lval -> pval.               (* taskiq.labels.prepare_label (subject of C09) *)

  Record msg := mkMsg { m_task : nat; m_args : nat; m_kwargs : nat; m_labels : list (nat * pval) }.

  (* AsyncKicker(task.task_name, broker, task.labels).with_labels(schedule_id=task.schedule_id)
       ._prepare_message(args.., kwargs..)
     with_labels rebinds: self.labels = dict(self.labels, then labels) *)
  Definition kicker_labels (sid : nat) (p : payload) : labels := update_all (p_labels p) [(K_SCHEDULE_ID, LSid sid)].
  Definition mk_msg (sid : nat) (p : payload) : msg :=
    mkMsg (p_task p) (p_args p) (p_kwargs p) (map (fun kv => (fst kv, prepare (snd kv))) (kicker_labels sid p)).

  Inductive pre_out := PreOk | PreCancel | PreRaise.   (* returns / raises ScheduledTaskCancelledError / raises another exception *)
  Inductive eff := EPre (sid : nat) | EKick (m : msg) | EPost (sid : nat).
  Inductive result := ROk | RCancelled | RPreRaised | RSendError | RPostRaised.

  (*  try: await maybe_awaitable(source.pre_send(task))
      except ScheduledTaskCancelledError: log
      else: await AsyncKicker(...).with_labels(...).kiq(...); await maybe_awaitable(source.post_send(task))  *)
  Definition on_ready (pre : pre_out) (kick_ok post_ok : bool) (sid : nat) (p : payload) : list eff * result :=
    match pre with
    | PreCancel => ([EPre sid], RCancelled)
    | PreRaise => ([EPre sid], RPreRaised)
    | PreOk =>
        if kick_ok then ([EPre sid; EKick (mk_msg sid p); EPost sid], if post_ok then ROk else RPostRaised)
        else ([EPre sid; EKick (mk_msg sid p)], RSendError)
    end.

  Definition is_kick (e : eff) : bool := match e with EKick _ => true | _ => false end.
  Definition is_post (e : eff) : bool := match e with EPost _ => true | _ => false end.
End OnReady.
Arguments mkMsg {pval}. Arguments m_task {pval}. Arguments m_args {pval}. Arguments m_kwargs {pval}.
Arguments m_labels {pval}. Arguments mk_msg {pval}. Arguments on_ready {pval}. Arguments EPre {pval}.
Arguments EKick {pval}. Arguments EPost {pval}. Arguments is_kick {pval}. Arguments is_post {pval}.

(* ------------------------------------------------------------------ the label based source *)
(* one dict of a task's "schedule" list.  Outer option = key present, inner option = value is not None *)
Record entry := mkEntry {
  e_uid : nat;
  e_cron : option (option nat);
  e_time : option (option Z);
  e_args : option nat; e_kwargs : option nat;      (* ids of schedule.get("args") / ("kwargs") *)
  e_labels : option labels;                        (* schedule.get("labels") *)
  e_off : option nat }.

Record task := mkTask {
  t_name : nat;
  t_own : bool;                 (* task.broker == self.broker *)
  t_labels : labels;            (* task.labels without the "schedule" key *)
  t_sched : option (list entry) (* task.labels.get("schedule") *) }.

Definition A_DEFAULT : nat := 0.  (* id of [] for args and of {} for kwargs *)

(* AsyncBroker.get_all_tasks: dict merge of global_task_registry then local_task_registry *)
Definition all_tasks (g l : list task) : list task :=
  map snd (update_all (map (fun t => (t_name t, t)) g) (map (fun t => (t_name t, t)) l)).

Definition join {A : Type} (o : option (option A)) : option A := match o with Some x => x | None => None end.
Definition is_some {A : Type} (o : option A) : bool := match o with Some _ => true | None => false end.
Definition sched_of (t : task) : list entry := match t_sched t with Some l => l | None => [] end.
Definition set_sched (t : task) (l : list entry) : task :=
  match t_sched t with Some _ => mkTask (t_name t) (t_own t) (t_labels t) (Some l) | None => t end.
Definition set_labels (e : entry) (l : labels) : entry :=
  mkEntry (e_uid e) (e_cron e) (e_time e) (e_args e) (e_kwargs e) (Some l) (e_off e).

(* `"cron" not in schedule and "time" not in schedule` is false *)
Definition listed (e : entry) : bool := is_some (e_cron e) || is_some (e_time e).

(* task.labels as the code sees it: includes the "schedule" key when declared *)
Definition full_labels (t : task) : labels :=
  match t_sched t with Some _ => t_labels t ++ [(K_SCHEDULE, LSched (t_name t))] | None => t_labels t end.

(* labels = schedule.get("labels", {}); labels.update(task.labels) *)
Definition merged_labels (t : task) (e : entry) : labels :=
  update_all (match e_labels e with Some l => l | None => [] end) (full_labels t).

(* ScheduledTask(...): the model validator raises when cron and time are both None *)
Definition mk_payload (t : task) (e : entry) : option payload :=
  match join (e_cron e), join (e_time e) with
  | None, None => None
  | c, tm => Some (mkPayload (t_name t) c tm
                     (match e_args e with Some a => a | None => A_DEFAULT end)
                     (match e_kwargs e with Some a => a | None => A_DEFAULT end)
                     (merged_labels t e) (e_off e))
  end.

(* the inner loop; result None = an exception escaped (entries after the raising one are not visited).
   The in-place labels.update is visible in the returned entry list. *)
Fixpoint list_entries (t : task) (es : list entry) : option (list payload) * list entry :=
  match es with
  | [] => (Some [], [])
  | e :: r =>
      if listed e then
        let e' := match e_labels e with Some _ => set_labels e (merged_labels t e) | None => e end in
        match mk_payload t e with
        | None => (None, e' :: r)
        | Some p => let (res, r') := list_entries t r in
                    (match res with Some ps => Some (p :: ps) | None => None end, e' :: r')
        end
      else let (res, r') := list_entries t r in (res, e :: r')
  end.

Fixpoint get_schedules (reg : list task) : option (list payload) * list task :=
  match reg with
  | [] => (Some [], [])
  | t :: r =>
      if t_own t then
        let (res, es') := list_entries t (sched_of t) in
        match res with
        | None => (None, set_sched t es' :: r)
        | Some ps => let (res2, r') := get_schedules r in
                     (match res2 with Some qs => Some (ps ++ qs) | None => None end, set_sched t es' :: r')
        end
      else let (res2, r') := get_schedules r in (res2, t :: r')
  end.

Definition Zopt_eqb (a b : option Z) : bool :=
  match a, b with Some x, Some y => Z.eqb x y | None, None => true | _, _ => false end.

(* for idx, schedule in enumerate(copy): if schedule.get("time") == T: live.pop(idx); return *)
Fixpoint remove_time (T : Z) (es : list entry) : option (list entry) :=
  match es with
  | [] => None
  | e :: r => if Zopt_eqb (join (e_time e)) (Some T) then Some r
              else match remove_time T r with Some r' => Some (e :: r') | None => None end
  end.

Fixpoint post_send_tasks (name : nat) (T : Z) (reg : list task) : list task :=
  match reg with
  | [] => []
  | t :: r =>
      if negb (t_own t) then t :: post_send_tasks name T r
      else if negb (Nat.eqb name (t_name t)) then t :: post_send_tasks name T r
      else match remove_time T (sched_of t) with
           | Some es' => set_sched t es' :: r          (* return *)
           | None => t :: post_send_tasks name T r     (* inner loop ended, outer loop goes on *)
           end
  end.

(* if scheduled_task.cron or not scheduled_task.time: return
   (cron strings are non-empty, datetimes are always truthy) *)
Definition post_send (reg : list task) (p : payload) : list task :=
  match p_cron p, p_time p with
  | None, Some T => post_send_tasks (p_task p) T reg
  | _, _ => reg
  end.

Definition pure_oneshot (p : payload) : bool := negb (is_some (p_cron p)) && is_some (p_time p).

(* ------------------------------------------------------------------ Boolean comparisons used by the correspondence run *)
Definition dict_eqb {V : Type} (eqb : V -> V -> bool) (a b : list (nat * V)) : bool :=
  let sub x y := forallb (fun kv => match lookup (fst kv) y with Some v => eqb (snd kv) v | None => false end) x in
  Nat.eqb (length a) (length b) && sub a b && sub b a.

Definition onat_eqb (a b : option nat) : bool :=
  match a, b with Some x, Some y => Nat.eqb x y | None, None => true | _, _ => false end.

Definition payload_eqb (a b : payload) : bool :=
  Nat.eqb (p_task a) (p_task b) && onat_eqb (p_cron a) (p_cron b) && Zopt_eqb (p_time a) (p_time b) &&
  Nat.eqb (p_args a) (p_args b) && Nat.eqb (p_kwargs a) (p_kwargs b) &&
  dict_eqb lval_eqb (p_labels a) (p_labels b) && onat_eqb (p_off a) (p_off b).

Fixpoint list_eqb {A : Type} (eqb : A -> A -> bool) (a b : list A) : bool :=
  match a, b with
  | [], [] => true
  | x :: a', y :: b' => eqb x y && list_eqb eqb a' b'
  | _, _ => false
  end.

(* observable state of the registry: per task (name, uids of the remaining entries with the labels each holds) *)
Definition entry_view (e : entry) : nat * option labels := (e_uid e, e_labels e).
Definition task_view (t : task) : nat * list (nat * option labels) := (t_name t, map entry_view (sched_of t)).
Definition olabels_eqb (a b : option labels) : bool :=
  match a, b with Some x, Some y => dict_eqb lval_eqb x y | None, None => true | _, _ => false end.
Definition view_eqb (a b : list (nat * list (nat * option labels))) : bool :=
  list_eqb (fun x y => Nat.eqb (fst x) (fst y) &&
                       list_eqb (fun u v => Nat.eqb (fst u) (fst v) && olabels_eqb (snd u) (snd v)) (snd x) (snd y)) a b.

(* on_ready observation = effect list + result, messages with prepared labels as (key, value id) *)
Definition msg_eqb (a b : msg lval) : bool :=
  Nat.eqb (m_task a) (m_task b) && Nat.eqb (m_args a) (m_args b) && Nat.eqb (m_kwargs a) (m_kwargs b) &&
  dict_eqb lval_eqb (m_labels a) (m_labels b).
Definition eff_eqb (a b : eff lval) : bool :=
  match a, b with
  | EPre x, EPre y => Nat.eqb x y
  | EPost x, EPost y => Nat.eqb x y
  | EKick x, EKick y => msg_eqb x y
  | _, _ => false
  end.
Definition result_eqb (a b : result) : bool :=
  match a, b with
  | ROk, ROk | RCancelled, RCancelled | RPreRaised, RPreRaised | RSendError, RSendError | RPostRaised, RPostRaised => true
  | _, _ => false
  end.

(* the statement's first sentence on an observed effect list *)
Definition C16_check_fire (pre : pre_out) (kick_ok : bool) (sid : nat) (p : payload) (obs : list (eff lval)) : bool :=
  match pre with
  | PreCancel => list_eqb eff_eqb obs [EPre sid]
  | PreRaise => negb (existsb is_kick obs) && negb (existsb is_post obs)
  | PreOk =>
      match obs with
      | EPre s :: EKick m :: rest =>
          Nat.eqb s sid && Nat.eqb (m_task m) (p_task p) && Nat.eqb (m_args m) (p_args p) &&
          Nat.eqb (m_kwargs m) (p_kwargs p) &&
          match lookup K_SCHEDULE_ID (m_labels m) with Some (LSid s') => Nat.eqb s' sid | _ => false end &&
          forallb (fun kv => if Nat.eqb (fst kv) K_SCHEDULE_ID then true else
                             match lookup (fst kv) (m_labels m) with Some v => lval_eqb v (snd kv) | None => false end)
                  (p_labels p) &&
          forallb (fun kv => if Nat.eqb (fst kv) K_SCHEDULE_ID then true else is_some (lookup (fst kv) (p_labels p)))
                  (m_labels m) &&
          (if kick_ok then list_eqb eff_eqb rest [EPost sid] else list_eqb eff_eqb rest [])
      | _ => false
      end
  end.

(* a history on the label source: listings and firings (through on_ready, label values already prepared by the
   harness, prepare = identity), each with what the implementation showed afterwards *)
Inductive op :=
| OList (res : option (list payload)) (view : list (nat * list (nat * option labels)))
| OFire (p : payload) (sid : nat) (effs : list (eff lval)) (view : list (nat * list (nat * option labels))).

Definition olist_eqb (a b : option (list payload)) : bool :=
  match a, b with Some x, Some y => list_eqb payload_eqb x y | None, None => true | _, _ => false end.

Fixpoint run_ops (reg : list task) (ops : list op) : bool :=
  match ops with
  | [] => true
  | OList res v :: r =>
      let (res', reg') := get_schedules reg in
      olist_eqb res' res && view_eqb (map task_view reg') v && run_ops reg' r
  | OFire p sid effs v :: r =>
      let reg' := post_send reg p in
      list_eqb eff_eqb (fst (on_ready (fun x => x) PreOk true true sid p)) effs &&
      C16_check_fire PreOk true sid p effs &&
      view_eqb (map task_view reg') v && run_ops reg' r
  end.
