(* Gallina reading of what taskiq/labels.py (prepare_label, parse_label, the enum LabelType, the table _LABEL_PARSERS)
   and taskiq/message.py TaskiqMessage.parse_labels touch, for the source translator (harness/pygal.py, pygal_m.py,
   harness/pygal_labels.py).  Label values, strings, dictionaries, str(int) / int(str), base64 are those of the
   hand-written models Labels.v / Base64.v.  What Python does OUTSIDE those models (str of a bytes object, the name of a
   foreign type, int() of a value that is not a str, ...) enters uninterpreted through the record [pyworld]: every
   theorem of coq/srcproofs/Src_labels_C09.v quantifies over it, so nothing is claimed about it.
   Trusted like PyPrelude.v: every definition is the meaning of one Python construct.  No proofs here. *)
From Coq Require Import ZArith NArith List Bool String Ascii.
From Coq.Strings Require Import Byte.
From TQ Require Import Base64 Labels PyStm.
Import ListNotations.
Open Scope string_scope.
Open Scope N_scope.

Record pyworld := mkWorld {
  w_sof : Z -> pstr;                              (* str(f), f a float                    (Labels.v's Section variable sof) *)
  w_fos : pstr -> option Z;                       (* float(s), s a str; None = ValueError (Labels.v's Section variable fos) *)
  w_str_bytes : list byte -> pstr;                (* str(b), b a bytes object (its repr) *)
  w_type_name : pstr -> string;                   (* type(o).__name__ of an object o of none of the five types; o is known by str(o), as in LOther *)
  w_b64encode_other : pstr -> option (list N);    (* base64.b64encode(o) of such an object (bytearray: a value; most: TypeError = None) *)
  w_utf8_decode : list N -> option pstr;          (* b.decode() of bytes that are not all ASCII; None = UnicodeDecodeError *)
  w_call_nonstr : string -> lval -> option lval;  (* int(v) / float(v) / base64.b64decode(v) of a label value v that is not a str; None = raises *)
  w_truthy_other : pstr -> bool                   (* bool(o) of an object o of none of the five types *)
}.

(* ---------------------------------------------------------------- type(v), `is`, `in (..)`, __name__, str.upper *)
Inductive btype := BInt | BStr | BFloat | BBool | BBytes.          (* the type objects int, str, float, bool, bytes *)
Inductive pytype := TyB (b : btype) | TyOther (s : pstr).          (* the EXACT type of a label value (bool is not int; a subclass is "other") *)
Definition type_of (v : lval) : pytype :=
  match v with
  | LInt _ => TyB BInt | LStr _ => TyB BStr | LFloat _ => TyB BFloat | LBool _ => TyB BBool | LBytes _ => TyB BBytes
  | LOther s => TyOther s
  end.
Definition btype_eqb (a b : btype) : bool :=
  match a, b with
  | BInt, BInt | BStr, BStr | BFloat, BFloat | BBool, BBool | BBytes, BBytes => true
  | _, _ => false
  end.
(*  t is b,  t == b   (type objects compare by identity) *)
Definition pytype_is (t : pytype) (b : btype) : bool := match t with TyB b' => btype_eqb b' b | TyOther _ => false end.
(*  t in (b1, .., bn) *)
Definition pytype_in (t : pytype) (l : list btype) : bool := existsb (pytype_is t) l.
Definition btype_name (b : btype) : string :=
  match b with BInt => "int" | BStr => "str" | BFloat => "float" | BBool => "bool" | BBytes => "bytes" end.
(*  t.__name__ *)
Definition type_name (W : pyworld) (t : pytype) : string := match t with TyB b => btype_name b | TyOther s => w_type_name W s end.
(*  s.upper() of an identifier-like str (ASCII letters; other characters are left alone) *)
Definition ascii_upper (c : ascii) : ascii :=
  let n := N_of_ascii c in if (97 <=? n) && (n <=? 122) then ascii_of_N (n - 32) else c.
Fixpoint string_upper (s : string) : string :=
  match s with EmptyString => EmptyString | String c r => String (ascii_upper c) (string_upper r) end.

(* ---------------------------------------------------------------- str(v), s.lower(), base64.b64encode(v), b.decode() *)
Definition py_str (W : pyworld) (v : lval) : pstr :=
  match v with
  | LInt z => str_of_Z z | LStr s => s | LFloat f => w_sof W f | LBool b => str_of_bool b
  | LBytes bs => w_str_bytes W bs | LOther s => s
  end.
(*  truth value of a label value: 0, 0.0 / -0.0 (binary64 patterns 0 and 2^63), False, "" and b"" are false *)
Definition py_truthy (W : pyworld) (v : lval) : bool :=
  match v with
  | LInt z => negb (z =? 0)%Z
  | LStr s => match s with [] => false | _ => true end
  | LFloat f => negb ((f =? 0)%Z || (f =? 9223372036854775808)%Z)
  | LBool b => b
  | LBytes bs => match bs with [] => false | _ => true end
  | LOther s => w_truthy_other W s
  end.
(*  s.lower(): Labels.lower per code point (ASCII case mapping, as in Labels.is_true / PyPreludeRetry) *)
Definition pstr_lower (s : pstr) : pstr := map lower s.
(*  base64.b64encode(v) : a bytes object, here the list of its byte values; the int / str / float / bool cases are
    TypeError ("a bytes-like object is required") *)
Definition py_b64encode (W : pyworld) (v : lval) : option (list N) :=
  match v with LBytes bs => Some (b64encode bs) | LOther s => w_b64encode_other W s | _ => None end.
(*  b.decode(): ASCII bytes decode to the code points equal to the byte values *)
Definition bytes_decode (W : pyworld) (b : list N) : option pstr :=
  if forallb (fun c => c <? 128) b then Some b else w_utf8_decode W b.

(* ---------------------------------------------------------------- enum.IntEnum *)
(* the class body: member names with their values, in definition order.  A member is represented by its value: IntEnum
   members compare and hash as the int they are, which is all a dict lookup and `.value` look at. *)
Definition enum := list (string * N).
(*  NAME = enum.auto()  for every member: 1, 2, 3, ... in definition order *)
Definition enum_auto (names : list string) : enum := combine names (map N.of_nat (seq 1 (List.length names))).
(*  E[name]  and  E.name ; None = KeyError / AttributeError *)
Definition enum_getitem (E : enum) (n : string) : option N := option_map snd (find (fun m => String.eqb (fst m) n) E).
(*  E(value) ; None = ValueError *)
Definition enum_call (E : enum) (v : N) : option N := option_map snd (find (fun m => snd m =? v) E).
(*  member.value *)
Definition member_value (m : N) : N := m.

(* ---------------------------------------------------------------- dicts (Labels.dict: association list in insertion order) *)
(*  k in d *)
Definition dict_contains {A} (k : key) (d : dict A) : bool := match dget k d with Some _ => true | None => false end.
(*  d.get(k) ; None = Python's None *)
Definition dict_get {A} (k : key) (d : dict A) : option A := dget k d.
(*  d[k] ; None = KeyError *)
Definition dict_getitem {A} (k : key) (d : dict A) : option A := dget k d.
(*  d.items() *)
Definition dict_items {A} (d : dict A) : list (key * A) := d.
(*  {k1: v1, .., kn: vn}: keys evaluated in order (None = the key expression raised: the display raises); a repeated key
    keeps its first position and takes the last value *)
Fixpoint dict_display {A} (l : list (option key * A)) (acc : dict A) : option (dict A) :=
  match l with
  | [] => Some acc
  | (Some k, v) :: r => dict_display r (dset k v acc)
  | (None, _) :: _ => None
  end.
(*  d[k](a), d a table of callables *)
Definition dict_getitem_call {A B} (d : dict (A -> option B)) (k : key) (a : A) : option B :=
  match dget k d with Some f => f a | None => None end.

(* ---------------------------------------------------------------- the callables of _LABEL_PARSERS, applied to a label value *)
Definition parser := lval -> option lval.
Definition call_int (W : pyworld) : parser :=
  fun v => match v with LStr s => option_map LInt (Z_of_str s) | _ => w_call_nonstr W "int" v end.
Definition call_str (W : pyworld) : parser := fun v => Some (LStr (py_str W v)).
Definition call_float (W : pyworld) : parser :=
  fun v => match v with LStr s => option_map LFloat (w_fos W s) | _ => w_call_nonstr W "float" v end.
Definition call_b64decode (W : pyworld) : parser :=
  fun v => match v with LStr s => option_map LBytes (b64decode s) | _ => w_call_nonstr W "base64.b64decode" v end.

(* ---------------------------------------------------------------- TaskiqMessage.parse_labels *)
(* the two fields of the message parse_labels touches *)
Record tmsg := mkTMsg { tm_labels : dict lval; tm_types : option (dict N) }.
(*  self.labels[k] = v *)
Definition tmsg_setitem_labels (m : tmsg) (k : key) (v : lval) : tmsg := mkTMsg (dset k v (tm_labels m)) (tm_types m).
(*  self.labels = d *)
Definition tmsg_set_labels (m : tmsg) (d : dict lval) : tmsg := mkTMsg d (tm_types m).
(*  d[k] = v  on a dict under construction ({k: v for ...}) *)
Definition dict_setitem {A} (d : dict A) (k : key) (v : A) : dict A := dset k v d.
(* the statement monad PyStm.v without observable effects; which exception propagates is not modelled (Labels.v: None) *)
Definition LM (A : Type) : Type := M Empty_set unit A.
(*  `except Exception`: everything that is raised here (ValueError, KeyError, TypeError, binascii.Error, NoResultError, ...) is one *)
Definition is_exception {X : Type} (x : X) : bool := true.
Definition try_else {E X R A B} := @try_else_on E X R A B is_exception.
Definition try_except {E X R A} := @try_except_on E X R A is_exception.
(*  a call that returns a value or raises *)
Definition lift_opt {A} (o : option A) : LM A := match o with Some a => ret a | None => raise tt end.

(* ---------------------------------------------------------------- the send side: AsyncKicker._prepare_message's label loop
   (no effects: LM) and Context.requeue (harness/pygal_labels_send.py) *)
(*  d.get(k, dflt) *)
Definition dict_get_default {A} (k : key) (dflt : A) (d : dict A) : A := match dget k d with Some v => v | None => dflt end.
(*  int(v) of a label value is Labels.py_int (None = raises, or a float / bytes value: outside that model) *)

(* what Context.requeue does that can be observed, and how it ends *)
Inductive qeff :=
| ELabels (L : dict lval)      (* the received message's OWN label dict was updated in place: its content now *)
| EKickW (w : wire).           (* broker.kick(formatter.dumps(message)): labels / labels_types of the message that is sent *)
Inductive qexc :=
| XRaised                      (* an exception of a call (int() of a label that is no number, ...) *)
| XNoResult.                   (* raise NoResultError *)
Definition QM (A : Type) : Type := M qeff qexc A.
Definition qlift_opt {A} (o : option A) : QM A := match o with Some a => ret a | None => raise XRaised end.
(*  message.labels[k] = v  on the received message *)
Definition q_setitem_labels (m : tmsg) (k : key) (v : lval) : QM tmsg :=
  emit (ELabels (tm_labels (tmsg_setitem_labels m k v))) ;;; ret (tmsg_setitem_labels m k v).
(*  TaskiqMessage(task_id=.., task_name=.., labels=l, labels_types=t, args=.., kwargs=..): the other four fields are copies
    of the received message's and are not looked at *)
Definition new_message (l : dict pstr) (t : dict N) : wire := mkWire l (Some t).
(*  context.broker, broker.formatter, message.task_id / .task_name / .args / .kwargs: objects this unit does not look into *)
Definition not_read {A} (x : A) : unit := tt.
(*  await broker.kick(broker.formatter.dumps(message)): the send goes through (a failing broker is C10's subject) *)
Definition q_kick (w : wire) : QM unit := emit (EKickW w).
