(* Model of taskiq.cli.scheduler.run.run_scheduler_loop (+ get_all_schedules / get_schedules / delayed_send) and of
   a small system around it: sources whose entries have a presence window and, for the *removing* kind (the label
   source, a scripted source deleting on post_send), stay listed until the post_send of a successful send.

     while True:
         scheduled_tasks = await get_all_schedules(scheduler)       # gather; a raising source -> []
         for source, task_list in scheduled_tasks.items():
             for task in task_list:
                 try: task_delay = get_task_delay(task)
                 except ValueError: continue
                 if task_delay is not None: loop.create_task(delayed_send(scheduler, source, task, task_delay))
         next_minute = datetime.now().replace(second=0, microsecond=0) + timedelta(minutes=1)
         await asyncio.sleep((next_minute - datetime.now()).total_seconds())

   Instants are Z microseconds.  The cron decision is a Section variable (Cron.v, C13); the one-shot decision is
   SchedDelay.delay (C14).  No proofs in this file. *)
From Coq Require Import ZArith List Bool Arith.
Import ListNotations.
From TQ Require Import SchedDelay.
Open Scope Z_scope.

Inductive kind := KCron (c : nat) | KBadCron | KOne (T : Z).
Inductive dres := DErr | DNo | DSend (d : Z).      (* get_task_delay: raises ValueError | None | delay in seconds *)

Definition sched := (nat * kind)%type.             (* schedule id, what it is *)
Definition spawn := (nat * nat * Z)%type.          (* source index, schedule id, instant at which on_ready is called *)

Section Loop.
  Variable cron_due : nat -> Z -> bool.            (* is_now(cron, now + offset) for cron expression id c *)

  Definition due (k : kind) (now : Z) : dres :=
    match k with
    | KCron c => if cron_due c now then DSend 0 else DNo
    | KBadCron => DErr
    | KOne T => match delay T now with Some d => DSend d | None => DNo end
    end.

  (* the sleep ends at floor_minute(now) + 1 min *)
  Definition next_poll (now : Z) : Z := floor_minute now + MIN.
  Definition sleep_len (now : Z) : Z := next_poll now - now.

  (* the body of one iteration, after the gather: listings.(i) = None when source i raised *)
  Definition src_body (now : Z) (i : nat) (l : option (list sched)) : list spawn :=
    match l with
    | None => []
    | Some ss => flat_map (fun s => match due (snd s) now with DSend d => [(i, fst s, now + d * US)] | _ => [] end) ss
    end.
  Fixpoint poll_body_from (now : Z) (i : nat) (ls : list (option (list sched))) : list spawn :=
    match ls with
    | [] => []
    | l :: r => src_body now i l ++ poll_body_from now (S i) r
    end.
  Definition poll_body (now : Z) (ls : list (option (list sched))) : list spawn := poll_body_from now 0 ls.

  (* ---------------------------------------------------------------- the poll clock *)
  (* poll k starts at a, source i answers after lat k i >= 0, the body runs at b = a + max latency *)
  Section Clock.
    Variable nsrc : nat.
    Variable lat : nat -> nat -> Z.
    Definition maxlat (k : nat) : Z := fold_left Z.max (map (lat k) (seq 0 nsrc)) 0.
    Fixpoint clock (n k : nat) (a : Z) : list (Z * Z) :=
      match n with
      | O => []
      | S n' => let b := a + maxlat k in (a, b) :: clock n' (S k) (next_poll b)
      end.
  End Clock.

  (* ---------------------------------------------------------------- one entry of one source *)
  Record ent := mkEnt { en_sid : nat; en_kind : kind; en_add : Z; en_del : option Z }.   (* in the source during [add, del) *)
  Record est := mkEst { es_done : list Z;     (* instants at which a successful send of this entry completed (post_send ran) *)
                        es_att : nat }.       (* number of delayed sends spawned for it so far *)
  Inductive eout := ENot | EListed (r : dres) (sp : option (Z * nat * bool)).   (* fire instant, attempt number, kick succeeds *)

  Section Entry.
    Variable removing : bool.                  (* post_send removes the entry *)
    Variable klat : nat -> Z.                  (* duration of the kick of attempt n *)
    Variable kfail : nat -> bool.              (* the kick of attempt n raises *)
    Variable e : ent.

    Definition present (st : est) (s : Z) : bool :=
      (en_add e <=? s) && (match en_del e with None => true | Some d => s <? d end) &&
      (negb removing || forallb (fun r => s <? r) (es_done st)).

    (* one poll seen from this entry: listing snapshot taken at s, body evaluated at b *)
    Definition ent_step (lfail : bool) (s b : Z) (st : est) : eout * est :=
      if lfail || negb (present st s) then (ENot, st)
      else match due (en_kind e) b with
           | DSend d =>
               let f := b + d * US in
               let n := es_att st in
               let ok := negb (kfail n) in
               (EListed (DSend d) (Some (f, n, ok)),
                mkEst (if ok then (f + klat n) :: es_done st else es_done st) (S n))
           | r => (EListed r None, st)
           end.

    Fixpoint ent_trace (lat_i : nat -> Z) (lfail : nat -> bool) (ck : list (Z * Z)) (k : nat) (st : est) : list eout :=
      match ck with
      | [] => []
      | (a, b) :: r => let (o, st') := ent_step (lfail k) (a + lat_i k) b st in o :: ent_trace lat_i lfail r (S k) st'
      end.
  End Entry.

  (* ---------------------------------------------------------------- the system: sources x entries on one clock *)
  Record source := mkSource { so_removing : bool; so_ents : list ent }.
  Record scenario := mkScenario {
    sc_start : Z;
    sc_srcs : list source;
    sc_lat : nat -> nat -> Z;              (* poll, source -> listing latency *)
    sc_lfail : nat -> nat -> bool;         (* poll, source -> get_schedules raises *)
    sc_klat : nat -> nat -> nat -> Z;      (* source, schedule id, attempt -> kick duration *)
    sc_kfail : nat -> nat -> nat -> bool }.

  Definition sys_clock (sc : scenario) (n : nat) : list (Z * Z) :=
    clock (length (sc_srcs sc)) (sc_lat sc) n 0 (sc_start sc).

  (* only pure one-shots are removed by post_send (label source: `if scheduled_task.cron or not scheduled_task.time: return`) *)
  Definition is_one (k : kind) : bool := match k with KOne _ => true | _ => false end.
  Definition ent_run (sc : scenario) (n i : nat) (so : source) (e : ent) : list eout :=
    ent_trace (so_removing so && is_one (en_kind e)) (sc_klat sc i (en_sid e)) (sc_kfail sc i (en_sid e)) e
              (fun k => sc_lat sc k i) (fun k => sc_lfail sc k i) (sys_clock sc n) 0 (mkEst [] 0).

  (* what poll k shows for source i, read off the traces of its entries *)
  Definition tr_listing (lf : bool) (k : nat) (trs : list (ent * list eout)) : option (list (nat * dres)) :=
    if lf then None
    else Some (flat_map (fun et => match nth k (snd et) ENot with
                                   | EListed r _ => [(en_sid (fst et), r)] | ENot => [] end) trs).
  Definition tr_spawns (i k : nat) (trs : list (ent * list eout)) : list (nat * nat * nat * Z * bool) :=
    flat_map (fun et => match nth k (snd et) ENot with
                        | EListed _ (Some (f, a, ok)) => [(i, en_sid (fst et), a, f, ok)] | _ => [] end) trs.

  Fixpoint mapi_from {A B : Type} (f : nat -> A -> B) (i : nat) (l : list A) : list B :=
    match l with [] => [] | x :: r => f i x :: mapi_from f (S i) r end.

  Definition sys_traces (sc : scenario) (n : nat) : list (list (ent * list eout)) :=
    mapi_from (fun i so => map (fun e => (e, ent_run sc n i so e)) (so_ents so)) 0%nat (sc_srcs sc).

  Definition poll_rec := (Z * Z * list (option (list (nat * dres))) * list (nat * nat * nat * Z * bool))%type.
  Definition sys_run (sc : scenario) (n : nat) : list poll_rec :=
    let trs := sys_traces sc n in
    mapi_from (fun k ab => (fst ab, snd ab,
                            mapi_from (fun i tr => tr_listing (sc_lfail sc k i) k tr) 0%nat trs,
                            concat (mapi_from (fun i tr => tr_spawns i k tr) 0%nat trs)))
              0%nat (sys_clock sc n).

  (* every send (source, schedule id, attempt, fire instant, ok) of a run of n polls *)
  Definition sys_sends (sc : scenario) (n : nat) : list (nat * nat * nat * Z * bool) :=
    flat_map (fun r => snd r) (sys_run sc n).
  Definition sends_of (i sid : nat) (l : list (nat * nat * nat * Z * bool)) : list (nat * nat * nat * Z * bool) :=
    filter (fun x => match x with (i', sid', _, _, _) => Nat.eqb i' i && Nat.eqb sid' sid end) l.
End Loop.

(* ------------------------------------------------------------------ comparisons used by the correspondence run *)
Definition dres_eqb (a b : dres) : bool :=
  match a, b with DErr, DErr | DNo, DNo => true | DSend x, DSend y => x =? y | _, _ => false end.

Fixpoint leqb {A B : Type} (eqb : A -> B -> bool) (a : list A) (b : list B) : bool :=
  match a, b with [] , [] => true | x :: a', y :: b' => eqb x y && leqb eqb a' b' | _, _ => false end.

Definition listing_eqb (a b : option (list (nat * dres))) : bool :=
  match a, b with
  | None, None => true
  | Some x, Some y => leqb (fun u v => Nat.eqb (fst u) (fst v) && dres_eqb (snd u) (snd v)) x y
  | _, _ => false
  end.

Definition spawn_eqb (a b : nat * nat * Z) : bool :=
  match a, b with (i, s, f), (i', s', f') => Nat.eqb i i' && Nat.eqb s s' && (f =? f') end.

(* observed poll: start instant, body instant, per source the listing with get_task_delay's answers, the
   delayed sends created (source, schedule id, attempt, seconds of delay), the argument of the sleep in microseconds *)
Definition obs_poll := (Z * Z * list (option (list (nat * dres))) * list (nat * nat * nat * Z) * Z)%type.

(* per-poll functional check: the code-shaped body on the *observed* listings *)
Definition poll_check (cron_due : nat -> Z -> bool) (kinds : nat -> nat -> kind) (o : obs_poll) : bool :=
  match o with (a, b, ls, sps, slp) =>
    let ls' := mapi_from (fun i l => match l with None => None | Some x => Some (map (fun u => (fst u, kinds i (fst u))) x) end) 0%nat ls in
    leqb spawn_eqb (poll_body cron_due b ls') (map (fun x => match x with (i, s, _, d) => (i, s, b + d * US) end) sps) &&
    leqb listing_eqb
         (map (fun l => match l with None => None | Some x => Some (map (fun u => (fst u, due cron_due (snd u) b)) x) end) ls')
         ls &&
    (slp =? sleep_len b)
  end.

(* whole-run check: the system model predicts every poll of the observed run; observed kicks: (source, sid, attempt) ->
   instant and outcome (None: the kick was still running at E), reported for the sends whose fire instant is before
   the end of the run E *)
Definition send_eqb (E : Z) (m : nat * nat * nat * Z * bool) (o : nat * nat * nat * Z * option (Z * option bool)) : bool :=
  match m, o with (i, s, a, f, ok), (i', s', a', d, k) =>
    Nat.eqb i i' && Nat.eqb s s' && Nat.eqb a a' &&
    match k with
    | Some (t, ok') => (f <? E) && (t =? f) && match ok' with Some x => Bool.eqb ok x | None => true end
    | None => E <? f
    end
  end.

Definition run_check (cron_due : nat -> Z -> bool) (sc : scenario) (E : Z)
           (obs : list (Z * Z * list (option (list (nat * dres))) * list (nat * nat * nat * Z * option (Z * option bool)))) : bool :=
  leqb (fun m o => match m, o with (a, b, ls, sps), (a', b', ls', sps') =>
                     (a =? a') && (b =? b') && leqb listing_eqb ls ls' && leqb (send_eqb E) sps sps' end)
       (sys_run cron_due sc (length obs)) obs.

(* ------------------------------------------------------------------ Boolean form of the per-poll clauses of the statement,
   evaluated on the observed polls: polls at the start and then at the minute boundary after each body; a listed cron is
   spawned (delay 0) iff it is due; an unparsable one never; a listed one-shot is spawned now if past, with a delay that
   puts it into [T, T + 1 s) if it is sent now, and may be left to the next poll only if T is not before that poll;
   every spawn belongs to a listed schedule and each listed schedule is spawned at most once *)
Fixpoint polls_chain (expect : Z) (l : list obs_poll) : bool :=
  match l with
  | [] => true
  | (a, b, _, _, _) :: r => (a =? expect) && polls_chain (floor_minute b + MIN) r
  end.

Definition entry_ok (cron_due : nat -> Z -> bool) (k : kind) (b : Z) (r : dres) : bool :=
  match k, r with
  | KCron c, DSend d => cron_due c b && (d =? 0)
  | KCron c, DNo => negb (cron_due c b)
  | KBadCron, DErr => true
  | KOne T, DSend d => if T <=? b then d =? 0 else (T <=? b + d * US) && (b + d * US <? T + US)
  | KOne T, DNo => floor_minute b + MIN <=? T
  | _, _ => false
  end.

Definition count_spawns (i s : nat) (sps : list (nat * nat * nat * Z)) : nat :=
  length (filter (fun x => match x with (i', s', _, _) => Nat.eqb i' i && Nat.eqb s' s end) sps).

Definition poll_ok (cron_due : nat -> Z -> bool) (kinds : nat -> nat -> kind) (o : obs_poll) : bool :=
  match o with (a, b, ls, sps, slp) =>
    forallb (fun x => x)
      (mapi_from (fun i l => match l with
                             | None => true
                             | Some es => forallb (fun u => entry_ok cron_due (kinds i (fst u)) b (snd u) &&
                                            match snd u with
                                            | DSend d => existsb (fun x => match x with (i', s', _, d') =>
                                                             Nat.eqb i' i && Nat.eqb s' (fst u) && (d' =? d) end) sps
                                                         && Nat.eqb (count_spawns i (fst u) sps) 1
                                            | _ => Nat.eqb (count_spawns i (fst u) sps) 0
                                            end) es
                             end) 0%nat ls) &&
    forallb (fun x => match x with (i, s, _, _) =>
                        match nth i ls None with Some es => existsb (fun u => Nat.eqb (fst u) s) es | None => false end end) sps
  end.

Definition C15_check (cron_due : nat -> Z -> bool) (kinds : nat -> nat -> kind) (start : Z) (obs : list obs_poll) : bool :=
  polls_chain start obs && forallb (poll_ok cron_due kinds) obs.
